"""C11 - any value accepted for sending becomes a wire-valid telegram.

spec : spec/codec/SendPath.tla (law over one call with the telegram queue observed before and after), SendPath_Judge.tla
code : real XKNX (not started: the queue is inspected directly), every RemoteValue class, NumericValue / Sensor / ExposeSensor value
       types, device setters, group_value_write / group_value_response with and without a DPT, the MCP write tool; each queued
       telegram is serialised as CEMIHandler.send_telegram does and parsed back.
"""
from __future__ import annotations

import asyncio
import inspect
import json
import math
import random

from .. import tlc
from ..core import MachineryError

NUMBERS = [0, 1, -1, 2, 7, 8, 63, 64, 100, 101, 127, 128, 150, 254, 255, 256, 360, 361, 1000, 32767, 32768, 65535, 65536, 655350, 2**31 - 1, 2**31, 2**32 - 1, 2**32,
           2**63 - 1, 2**63, 2**64, -2, -100, -128, -129, -273, -274, -32768, -32769, -2**31, -2**31 - 1, -2**63, -2**63 - 1,
           0.4, 0.5, 0.6, 21.5, -0.5, 99.6, 100.4, 254.5, 255.4, 255.5, 327.67, 327.68, -327.68, -327.69, 670760.0, 670760.96, 670761.0, -671088.64, -671088.65,
           1e10, 1e38, 3.5e38, 1e39, -1e39, float("inf"), float("-inf"), float("nan")]
TEXTS = ["", "a", "abc", "a" * 14, "a" * 15, "ä" * 7, "ä" * 14, "€", "\x00", "auto", "comfort", "Comfort", "heat", "on", "1"]
FOREIGN = [None, {}, {"a": 1}, [], [1, 2], (1, 2, 3), b"\x01\x02", object, True, False]
LISTS = [[], [0], [255], [256], [-1], [1.5], [1.0, 2.0], (255.0,), [True], [300, -1], [0] * 14, [255] * 15, [1] * 253, [1] * 254, [1] * 255, [1] * 256, (1, 2), (256,), b"", b"\x00", bytes(range(20)), bytes(253), bytes(254), bytes(300), bytearray(b"\x01\x02"), bytearray(254), ["1"], [None]]


def vkind_for(value, wants):
    """the kind of `value` relative to what the API takes (wants: subset of 'int', 'float', 'text', 'list'); everything else is foreign"""
    if isinstance(value, bool):
        return "foreign"
    if isinstance(value, int):
        return "number" if "int" in wants else "foreign"
    if isinstance(value, float):
        return "number" if "float" in wants else "foreign"
    if isinstance(value, str):
        return "text" if "text" in wants else "foreign"
    if isinstance(value, (list, tuple, bytes)):      # a bytearray is no documented payload form: foreign
        return "struct" if "list" in wants and all(isinstance(x, int) and not isinstance(x, bool) for x in value) else "foreign"
    return "foreign"


NUMERIC_RV = ("RemoteValueNumeric", "RemoteValueSensor", "RemoteValueScaling", "RemoteValueSceneNumber", "RemoteValueDptValue1Ucount", "RemoteValueTemp",
              "RemoteValueSetpointShift", "RemoteValueByLength")


def drain(xknx):
    out = []
    while not xknx.telegrams.empty():
        out.append(xknx.telegrams.get_nowait())
        xknx.telegrams.task_done()
    return out


def wire(telegram):
    from xknx.cemi import CEMIFrame, CEMILData, CEMIMessageCode
    from xknx.telegram import IndividualAddress

    try:
        data = CEMILData.init_from_telegram(telegram=telegram, src_addr=IndividualAddress(0x1103))
        raw = CEMIFrame(code=CEMIMessageCode.L_DATA_REQ, data=data).to_knx()
        back = CEMIFrame.from_knx(bytes(raw))
    except Exception as ex:  # noqa: BLE001
        return "fail:" + type(ex).__name__
    return "ok" if back.data.payload == telegram.payload else "changed"


def call(loop, xknx, fn):
    """run fn() (sync or coroutine); classify the outcome"""
    from xknx.exceptions import ConversionError, CouldNotParseAddress

    drain(xknx)
    try:
        r = fn()
        if inspect.isawaitable(r):
            loop.run_until_complete(r)
        out = "accepted"
    except ConversionError:
        out = "conv"
    except CouldNotParseAddress:
        out = "addr"
    except (TypeError, ValueError, AttributeError, KeyError, IndexError) as ex:
        out = "type"
        if isinstance(ex, (KeyError, IndexError)):
            out = "other:" + type(ex).__name__
    except Exception as ex:  # noqa: BLE001
        out = "other:" + type(ex).__name__
    tgs = drain(xknx)
    return out, tgs


def run(ck):
    from unittest.mock import AsyncMock, Mock, patch

    import xknx.remote_value as rvmod
    from xknx import XKNX
    from xknx.devices import Climate, Cover, ExposeSensor, Fan, Light, Notification, NumericValue, RawValue, Scene, Switch
    from xknx.dpt import DPTArray, DPTBase, DPTBinary, DPTComplex, DPTEnum, DPTNumeric
    from xknx.mcp import tools as mcp
    from xknx.mcp.types import GroupValueWriteInput
    from xknx.remote_value import RemoteValue
    from xknx.tools import group_value_response, group_value_write

    rnd = random.Random(ck.seed)
    loop = asyncio.new_event_loop()
    asyncio.set_event_loop(loop)
    recs, ex = [], []
    try:
        m = Mock()
        m.start = AsyncMock()
        m.stop = AsyncMock()
        with patch("xknx.xknx.knx_interface_factory", return_value=m):
            xknx = XKNX()

        def one(api, desc, fn, value, wants):
            out, tgs = call(loop, xknx, fn)
            recs.append({"t": "send", "api": api, "vkind": vkind_for(value, wants), "out": out, "queued": len(tgs), "wire": [wire(t) for t in tgs], "must": 0})
            ex.append(f"{desc}({value!r:.60})")

        pool = NUMBERS + TEXTS + FOREIGN + LISTS

        def kind_of_type(t):
            c = DPTBase.get_dpt(t)
            return {"int", "float"} if issubclass(c, DPTNumeric) else {"text"} if c.__name__ in ("DPTString", "DPTLatin1") else set()
        # ---- A. remote values
        numeric_types = sorted({c.value_type for c in DPTBase.dpt_class_tree() if issubclass(c, DPTNumeric) and c.value_type})
        if ck.tier == "quick":
            numeric_types = [t for i, t in enumerate(numeric_types) if i % 4 == 0 or t in ("percent", "temperature", "percentV16", "pulse_2byte", "time_period_10msec", "angle", "scene_number")]
        rvs = []
        for name, cls in sorted(vars(rvmod).items()):
            if not (inspect.isclass(cls) and issubclass(cls, RemoteValue) and not inspect.isabstract(cls)) or cls is RemoteValue:
                continue
            variants = [{}]
            if name in ("RemoteValueNumeric", "RemoteValueSensor"):
                variants = [{"value_type": t} for t in numeric_types]
            elif name == "RemoteValueString":
                variants = [{"value_type": t} for t in ("string", "latin_1")]
            elif name == "RemoteValueRaw":
                variants = [{"payload_length": n} for n in (0, 1, 2, 4, 14, 253, 254)]
            elif name == "RemoteValueScaling":
                variants = [{}, {"range_from": 0, "range_to": 255}, {"range_from": 100, "range_to": 0}]
            elif name == "RemoteValueByLength":
                from xknx.dpt import DPT2ByteFloat, DPTBrightness  # noqa: PLC0415
                variants = [{"dpt_classes": (DPTBrightness, DPT2ByteFloat)}]
            elif name == "RemoteValueBinaryHeatCool":
                from xknx.dpt.dpt_20 import HVACControllerMode  # noqa: PLC0415
                variants = [{"controller_mode": HVACControllerMode.HEAT}]
            elif name == "RemoteValueBinaryOperationMode":
                from xknx.dpt.dpt_20 import HVACOperationMode  # noqa: PLC0415
                variants = [{"operation_mode": HVACOperationMode.COMFORT}]
            elif name == "RemoteValueSetpointShift":
                from xknx.remote_value.remote_value_setpoint_shift import SetpointShiftMode  # noqa: PLC0415
                variants = [{"setpoint_shift_mode": SetpointShiftMode.DPT6010}, {"setpoint_shift_mode": SetpointShiftMode.DPT9002}, {}]
            for kw in variants:
                try:
                    rvs.append((f"{name}({', '.join(f'{k}={v}' for k, v in kw.items())})"[:80], cls(xknx, group_address="1/2/3", **kw)))
                except Exception:  # noqa: BLE001
                    continue
        for desc, rv in rvs:
            # numbers for numeric remote values, text for strings, whole numbers for raw values; enumerations, colours, dates: every plan value is foreign
            wants_num = {"int", "float"} if desc.startswith(NUMERIC_RV) else {"text"} if desc.startswith("RemoteValueString") else {"int"} if desc.startswith("RemoteValueRaw") else set()
            for v in pool:
                one("remote_value", desc + ".set", lambda rv=rv, v=v: rv.set(v), v, wants_num)
            for v in (pool if ck.tier != "quick" else pool[::5]):
                one("remote_value", desc + ".set(response)", lambda rv=rv, v=v: rv.set(v, response=True), v, wants_num)
        # ---- B. helpers without and with a DPT, MCP write tool
        for helper, hname in ((group_value_write, "group_value_write"), (group_value_response, "group_value_response")):
            for v in pool + [DPTArray((1, 2)), DPTBinary(1), DPTArray((300,)), DPTArray(()), DPTArray((1,) * 253), DPTArray((1,) * 254), DPTArray((0,) * 300)]:
                one("helper_raw", hname + "(raw)", lambda v=v, helper=helper: helper(xknx, "1/2/3", v), v, {"int", "list"})
            for t in numeric_types + ["string", "latin_1", "switch", "hvac_mode", "color_rgb", "time", "date", "datetime", "9.001", "5.001", "1.001", "20.102"]:
                for v in (pool if ck.tier != "quick" else pool[::2]):
                    one("helper_dpt", f"{hname}(value_type={t})", lambda v=v, t=t, helper=helper: helper(xknx, "1/2/3", v, value_type=t), v, kind_of_type(t))
        for t in [None] + numeric_types[::3] + ["string", "switch", "color_rgb"]:
            for v in pool:
                if not (v is None or isinstance(v, (bool, int, float, str, list, dict))):
                    continue                                      # the tool's input is JSON
                one("mcp", f"send_group_value_write(value_type={t})",
                    lambda v=v, t=t: mcp.send_group_value_write(xknx, GroupValueWriteInput(group_address="1/2/3", value=v, value_type=t)), v,
                    kind_of_type(t) if t else {"int", "list"})
        # ---- C. device setters
        light = Light(xknx, "l", group_address_switch="1/1/1", group_address_brightness="1/1/2", group_address_color="1/1/3", group_address_rgbw="1/1/4",
                      group_address_tunable_white="1/1/5", group_address_color_temperature="1/1/6", group_address_hue="1/1/7", group_address_saturation="1/1/8")
        cover = Cover(xknx, "c", group_address_long="1/2/1", group_address_short="1/2/2", group_address_position="1/2/3", group_address_angle="1/2/4")
        fan = Fan(xknx, "f", group_address_speed="1/3/1")
        fan_step = Fan(xknx, "f2", group_address_speed="1/3/2", max_step=3)
        climate = Climate(xknx, "k", group_address_target_temperature="1/4/1", group_address_setpoint_shift="1/4/2", setpoint_shift_mode=None)
        raw1 = RawValue(xknx, "r1", payload_length=1, group_address="1/5/1")
        raw0 = RawValue(xknx, "r0", payload_length=0, group_address="1/5/2")
        raw2 = RawValue(xknx, "r2", payload_length=2, group_address="1/5/3")
        note = Notification(xknx, "n", group_address="1/6/1")
        switch = Switch(xknx, "s", group_address="1/7/1")
        setters = [("Light.set_brightness", light.set_brightness), ("Light.set_tunable_white", light.set_tunable_white), ("Light.set_color_temperature", light.set_color_temperature),
                   ("Cover.set_position", cover.set_position), ("Cover.set_angle", cover.set_angle), ("Fan.set_speed", fan.set_speed), ("Fan(max_step=3).set_speed", fan_step.set_speed),
                   ("Climate.set_target_temperature", climate.set_target_temperature), ("Climate.set_setpoint_shift", climate.set_setpoint_shift),
                   ("RawValue(1).set", raw1.set), ("RawValue(0).set", raw0.set), ("RawValue(2).set", raw2.set), ("Notification.set", note.set)]
        for t in numeric_types:
            try:
                setters.append((f"NumericValue({t}).set", NumericValue(xknx, "nv", group_address="1/0/1", value_type=t).set))
                setters.append((f"ExposeSensor({t}).set", ExposeSensor(xknx, "es", group_address="1/0/2", value_type=t).set))
            except Exception:  # noqa: BLE001
                pass
        for desc, fn in setters:
            for v in pool:
                one("device", desc, lambda fn=fn, v=v: fn(v), v, {"text"} if "Notification" in desc else {"int"} if "RawValue" in desc else {"int", "float"})
        # a light with one switch / brightness pair per colour: one setter call is several telegrams - all of them or none
        ind = {f"group_address_{k}_{c}": f"2/{i}/{j}" for i, c in enumerate(("red", "green", "blue", "white")) for j, k in enumerate(("switch", "brightness"))}
        light_ind = Light(xknx, "li", **ind)
        light_rgb = Light(xknx, "l3", **{k: v for k, v in ind.items() if "white" not in k})
        colors = [(0, 0, 0), (255, 255, 255), (256, 0, 0), (-1, 0, 0), (1.5, 2, 3), (10.0, 20.0, 30.0), (True, False, True), (1, 2), (1, 2, 3, 4),
                  (0, 256, 0), (0, 0, 256), (1, 2, -1), (1, 2.5, 3), (1, 2, None), (1, "2", 3)]
        for color in colors:
            for w in (0, 255, 300, -1, 2.5):
                one("device", f"Light.set_color(rgbw, white={w})", lambda c=color, w=w: light.set_color(c, w), list(color), set())
                one("device", f"Light(individual colours).set_color(white={w})", lambda c=color, w=w: light_ind.set_color(c, w), list(color), set())
            for lt, ln in ((light, "Light"), (light_ind, "Light(individual colours)"), (light_rgb, "Light(individual colours, no white)")):
                one("device", ln + ".set_color", lambda c=color, lt=lt: lt.set_color(c), list(color), set())
        for hs in [(0, 0), (360, 100), (10, 150), (400, 50), (-1, 50), (10, -1), (10.5, 20.5), (10, None), (None, 10), (10, "x"), (361, 101)]:
            one("device", "Light.set_hs_color", lambda c=hs: light.set_hs_color(c), list(hs), set())
    finally:
        loop.close()
        asyncio.set_event_loop(None)
    # ---- D. expose sensors with a cooldown: the second value given inside the cooldown is converted at once and sent when the cooldown ends
    from ..fx import make_xknx, start_xknx, stop_xknx
    from ..vloop import virtual_world

    with virtual_world(ck.seed) as vl:
        async def cooled():
            xk, sent = make_xknx(vl)
            await start_xknx(xk)
            k = 0
            for t in numeric_types if ck.tier != "quick" else numeric_types[::3] + ["percentU8", "pulse", "percent", "temperature", "1byte_signed"]:
                try:
                    c_ = DPTBase.get_dpt(t)
                except Exception:  # noqa: BLE001
                    continue
                base = 1 if c_.value_min <= 1 <= c_.value_max else c_.value_min
                vals = [c_.value_min, c_.value_max, c_.value_max + 0.6, c_.value_min - 0.6, c_.value_max + 1, c_.value_min - 1, c_.value_max + 0.4, 7, 7.6, float("inf"), float("nan"), None, "x"]
                for v in vals:
                    k += 1
                    es = ExposeSensor(xk, f"cool{k}", group_address=f"{3 + k // 1750}/{(k // 250) % 7}/{k % 250}", value_type=t, cooldown=10)
                    xk.devices.async_add(es)
                    try:
                        await es.set(base)
                    except Exception:  # noqa: BLE001
                        continue
                    await xk.telegrams.join()
                    n0 = len(sent)
                    from xknx.exceptions import ConversionError  # noqa: PLC0415
                    try:
                        await es.set(v)
                        out = "accepted"
                    except ConversionError:
                        out = "conv"
                    except (TypeError, ValueError, AttributeError):
                        out = "type"
                    except Exception as ex_:  # noqa: BLE001
                        out = "other:" + type(ex_).__name__
                    await asyncio.sleep(11)
                    await xk.telegrams.join()
                    new = sent[n0:]
                    must = 0
                    if out == "accepted" and isinstance(v, (int, float)) and not isinstance(v, bool):
                        try:
                            must = 1 if c_.to_knx(v) != c_.to_knx(base) else 0
                        except Exception:  # noqa: BLE001
                            must = 1
                    recs.append({"t": "send", "api": "expose_cooldown", "vkind": vkind_for(v, {"int", "float"}), "out": out, "queued": len(new), "wire": ["ok"] * len(new), "must": must})
                    ex.append(f"ExposeSensor({t}, cooldown=10).set({base}) then, inside the cooldown, set({v!r:.40})")
                    xk.devices.async_remove(es)
            await stop_xknx(xk)

        vl.run_until_complete(cooled())
    # ---- judge
    agg = {}
    for r, e in zip(recs, ex):
        k = json.dumps(r, sort_keys=True) + "|" + e.split("(")[0]
        agg.setdefault(k, [r, e, 0])[2] += 1
    items = list(agg.values())
    res = tlc.batch(ck, "codec/SendPath_Judge", [dict(i[0], count=i[2]) for i in items], min_per_shard=4000)
    for idx in sorted(res.bad):
        r, e, n = items[idx]
        ck.violation({"api": r["api"], "call": e.split("(")[0], "vkind": r["vkind"], "out": r["out"], "wire": sorted(set(r["wire"]))},
                     f"send path: {e} -> {r['out']}, {r['queued']} telegram(s) queued, wire: {r['wire']} ({n} such calls)", {"record": r, "example": e})
    okr = [i[0] for i in items if i[0]["out"] == "accepted" and i[0]["queued"] >= 1]
    muts = [dict(r, wire=["fail:ValueError"] * r["queued"]) for r in okr[:15]] + [dict(r, out="conv") for r in okr[:10]] + \
           [dict(i[0], out="other:OverflowError") for i in items if i[0]["out"] == "conv" and i[0]["vkind"] != "foreign"][:10]
    r2 = tlc.batch(ck, "codec/SendPath_Judge", muts)
    if not muts or len(r2.bad) != len(muts):
        raise MachineryError(f"binding self-test: {len(muts) - len(r2.bad)} of {len(muts)} corrupted cases accepted")
    ck.add(evaluations=len(recs), distinct_nontrivial=len(items), accepted=sum(1 for r in recs if r["out"] == "accepted"), telegrams_serialised=sum(r["queued"] for r in recs),
           rejected=sum(1 for r in recs if r["out"] != "accepted"), apis=len({e.split("(")[0] for e in ex}), selftest_corrupted_rejected=len(muts), rule="distinct = (API, outcome, queue)")
    ck.sample({"record": recs[3], "example": ex[3]})


def replay(ck, path):
    print(json.loads(open(path).read())["replay"])
    return 1
