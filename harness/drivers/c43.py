"""C43 - point-to-point management connections follow the transport-layer protocol.

spec : spec/mgmt/P2P.tla (numbers sent / expected, acknowledgement rule, responses used once, bounded time), P2P_MC,
       P2P_Trace.tla; the named deviation DEV_ACK_ALL models the open known finding (every numbered frame is acknowledged)
code : real Management / P2PConnection on a started XKNX whose interface is a scripted KNX device under virtual time:
       per outgoing data frame the device answers from {T_ACK (own / wrong number / twice / late / none), T_NAK, response with
       the expected / previous / next number or of another type, two responses, response before the T_ACK, T_Disconnect,
       numbered data of another device, T_Connect of another device}; every pair of reactions for three requests, 20 requests
       (number wrap-around), random scripts.
"""
from __future__ import annotations

import asyncio
import itertools
import random

from .. import tlc
from ..core import MachineryError
from ..fx import make_xknx, start_xknx, stop_xknx
from ..vloop import ms, virtual_world

REACT = ["ack+resp", "resp+ack", "ack", "none", "nak", "dupack+resp", "ackwrong", "lateack+resp", "ack+prev", "ack+next", "ack+wrongtype",
         "ack+resp2", "ack+disc", "disc", "ack+foreign+resp", "ack+connect+resp", "ack+resp+dupack", "ack+resp+disc"]


def run_script(script, nreq, seed=0, dev=0, intruder=None, giveup=False):
    from xknx.cemi import CEMIFrame, CEMILData, CEMIMessageCode
    from xknx.exceptions import ManagementConnectionError
    from xknx.telegram import IndividualAddress, Telegram, tpci
    from xknx.telegram.apci import DeviceDescriptorRead, DeviceDescriptorResponse, MemoryRead, MemoryResponse

    PEER, OTHER, ME = IndividualAddress("1.1.5"), IndividualAddress("1.1.9"), IndividualAddress("1.1.1")
    ev = []
    with virtual_world(seed) as loop:
        now = lambda: ms(loop.time())
        st = {"k": 0, "dseq": 0}

        async def main():
            xknx, _sent = make_xknx(loop)
            xknx.current_address = ME
            await start_xknx(xknx)

            def inject(tg, src, delay=0.0):
                raw = CEMIFrame(code=CEMIMessageCode.L_DATA_IND, data=CEMILData.init_from_telegram(tg, src_addr=src)).to_knx()
                t = tg.tpci
                kind = type(tg.payload).__name__ if tg.payload is not None else ""
                name = {"TAck": "ack", "TNak": "nak", "TDataConnected": "data", "TDisconnect": "disconnect"}.get(type(t).__name__, "other")

                def go():
                    ev.append({"ev": "rx", "tpci": name, "seq": getattr(t, "sequence_number", 0) if name in ("ack", "nak", "data") else 0,
                               "kind": kind, "src": 1 if src == PEER else 0})
                    try:
                        xknx.cemi_handler.handle_raw_cemi(raw)
                    except Exception as ex:  # noqa: BLE001 - the receive path must not raise: recorded, nothing explains it
                        ev.append({"ev": "raised:" + type(ex).__name__})

                if delay:
                    loop.inject_later(delay, go)
                else:
                    loop.inject(go)

            def resp(kind_of_request, seq, wrongtype=False):
                if (kind_of_request == "DeviceDescriptorRead") != wrongtype:
                    pl = DeviceDescriptorResponse(descriptor=0, value=0x07B0)
                else:
                    pl = MemoryResponse(address=0x60, data=b"\x01")
                return Telegram(destination_address=ME, tpci=tpci.TDataConnected(sequence_number=seq % 16), payload=pl)

            orig = xknx.knxip_interface.send_cemi

            async def send_cemi(cemi):
                tg = cemi.data.telegram()
                t = tg.tpci
                dst = 1 if tg.destination_address == PEER else 0
                if isinstance(t, tpci.TConnect):
                    ev.append({"ev": "tx", "tpci": "connect", "seq": 0, "dst": dst})
                    st["dseq"] = 0
                elif isinstance(t, tpci.TDisconnect):
                    ev.append({"ev": "tx", "tpci": "disconnect", "seq": 0, "dst": dst})
                elif isinstance(t, tpci.TAck):
                    ev.append({"ev": "tx", "tpci": "ack", "seq": t.sequence_number, "dst": dst})
                elif isinstance(t, tpci.TDataConnected):
                    ev.append({"ev": "tx", "tpci": "data", "seq": t.sequence_number, "dst": dst})
                    r = script[st["k"]] if st["k"] < len(script) else "ack+resp"
                    st["k"] += 1
                    rk = type(tg.payload).__name__
                    for a in r.split("+"):
                        ack = lambda n=t.sequence_number: Telegram(destination_address=ME, tpci=tpci.TAck(sequence_number=n % 16))
                        if a == "ack":
                            inject(ack(), PEER)
                        elif a == "dupack":
                            inject(ack(), PEER)
                            inject(ack(), PEER)
                        elif a == "lateack":
                            inject(ack(), PEER, delay=3.5)
                        elif a == "ackwrong":
                            inject(ack(t.sequence_number + 1), PEER)
                        elif a == "nak":
                            inject(Telegram(destination_address=ME, tpci=tpci.TNak(sequence_number=t.sequence_number)), PEER)
                        elif a == "resp":
                            inject(resp(rk, st["dseq"]), PEER)
                            st["dseq"] += 1
                        elif a == "resp2":
                            inject(resp(rk, st["dseq"]), PEER)
                            inject(resp(rk, st["dseq"] + 1), PEER)
                            st["dseq"] += 2
                        elif a == "prev":
                            inject(resp(rk, st["dseq"] - 1), PEER)
                        elif a == "next":
                            inject(resp(rk, st["dseq"] + 1), PEER)
                        elif a == "wrongtype":
                            inject(resp(rk, st["dseq"], wrongtype=True), PEER)
                            st["dseq"] += 1
                        elif a == "disc":
                            inject(Telegram(destination_address=ME, tpci=tpci.TDisconnect()), PEER)
                        elif a == "foreign":
                            inject(resp(rk, st["dseq"]), OTHER)
                        elif a == "connect":
                            inject(Telegram(destination_address=ME, tpci=tpci.TConnect()), OTHER)
                await orig(cemi)

            xknx.knxip_interface.send_cemi = send_cemi
            try:
                conn = await xknx.management.connect(PEER)
            except ManagementConnectionError:
                ev.append({"ev": "connect_failed"})
                await stop_xknx(xknx)
                return
            async def second_user():
                # another task of the application asks for a connection to the same device while this one is in use: it is refused
                # ("already exists") and must leave the connection of the first user alone
                await asyncio.sleep(intruder)
                for _ in range(2):
                    try:
                        async with xknx.management.connection(PEER) as c2:
                            await c2.request(DeviceDescriptorRead(descriptor=0))
                    except ManagementConnectionError:
                        pass
                    await asyncio.sleep(0.33)

            bg = asyncio.ensure_future(second_user()) if intruder is not None else None
            for i in range(nreq):
                req = DeviceDescriptorRead(descriptor=0) if i % 2 == 0 else MemoryRead(address=0x60, count=1)
                ev.append({"ev": "call", "id": i + 1, "kind": "DeviceDescriptorResponse" if i % 2 == 0 else "MemoryResponse", "t": now()})
                # giveup: the caller allows one second for a request the device will not answer (it acknowledges at most) and goes on
                # with the next one: nothing of the abandoned request may be left behind in the connection
                upcoming = script[st["k"]] if st["k"] < len(script) else "ack+resp"
                try:
                    if giveup and upcoming in ("ack", "none"):
                        r = await asyncio.wait_for(conn.request(req), 1.0)
                    else:
                        r = await conn.request(req)
                    ev.append({"ev": "ret", "id": i + 1, "out": "ok", "why": "", "kind": type(r.payload).__name__, "seq": r.tpci.sequence_number, "t": now()})
                except ManagementConnectionError as ex:
                    ev.append({"ev": "ret", "id": i + 1, "out": "err", "why": "unexpected" if "unexpected telegram" in str(ex) else "other",
                               "kind": "", "seq": 0, "t": now()})
                except TimeoutError:
                    ev.append({"ev": "ret", "id": i + 1, "out": "gaveup", "why": "", "kind": "", "seq": 0, "t": now()})
                except (Exception, asyncio.CancelledError) as ex:  # noqa: BLE001
                    ev.append({"ev": "ret", "id": i + 1, "out": "exc:" + type(ex).__name__, "why": "", "kind": "", "seq": 0, "t": now()})
                await asyncio.sleep(0.2)
            if bg is not None:
                bg.cancel()
            try:
                await xknx.management.disconnect(PEER)
            except ManagementConnectionError:
                pass
            await asyncio.sleep(8)
            await stop_xknx(xknx)

        loop.run_until_complete(main())
    return {"dev": dev, "ev": ev}


def plans(ck):
    rnd = random.Random(ck.seed)
    out = [(list(s), 3) for s in itertools.product(REACT, repeat=2)]
    if ck.tier == "thorough":
        out += [(list(s), 4) for s in itertools.product(REACT, repeat=3) if rnd.random() < 0.4]
    out.append(([], 20))                                       # numbers wrap around modulo 16
    out.append((["none", "ack+resp"] * 20, 20))                # every request repeated once
    for _ in range(150 if ck.tier == "quick" else 2500):
        n = rnd.randrange(3, 9)
        out.append(([rnd.choice(REACT) for _ in range(n + 4)], n))
    return out


def classify(t, l):
    """why a T_ACK the spec does not permit was sent (for matching the open known finding)"""
    e = t[l - 1]
    if e.get("ev") == "tx" and e.get("tpci") == "ack":
        rx = [x for x in t[:l - 1] if x["ev"] == "rx" and x["tpci"] == "data" and x["seq"] == e["seq"] and x["src"] == e["dst"]]
        if rx:
            return "ack_for_frame_of_other_device" if e["dst"] == 0 else "ack_for_frame_outside_window_or_closed_connection"
    return "other"


def run(ck):
    ck.assume("a request is bounded by rate wait + two acknowledgement timeouts (3 s) + response timeout (6 s) + 0.6 s")
    tlc.mc(ck, "mgmt/P2P_MC", require_actions=False)
    ps = plans(ck)
    intr = [(0.01, 0.05, 0.21, 0.5, 1.0, 3.2)[i % 6] if i % 3 == 1 else None for i in range(len(ps))]      # every third script with a second user
    gu = [i % 4 == 2 for i in range(len(ps))]                   # every fourth script with a caller that gives up after a second
    traces = [run_script(s, n, ck.seed, intruder=intr[i], giveup=gu[i]) for i, (s, n) in enumerate(ps)]
    res = tlc.batch(ck, "mgmt/P2P_Trace", traces, min_per_shard=40)
    # rejected traces are validated again with the named deviation of the open known finding enabled
    bad = sorted(res.bad)
    again = [dict(traces[i], dev=1) for i in bad]
    res2 = tlc.batch(ck, "mgmt/P2P_Trace", again, min_per_shard=40) if again else None
    for j, idx in enumerate(bad):
        t = traces[idx]["ev"]
        l = res.bad[idx] if isinstance(res.bad[idx], int) else 0
        e = t[l - 1] if 0 < l <= len(t) else None
        if res2 is not None and j not in res2.bad:
            why = classify(t, l)                     # explained by the deviation alone: the known finding, if it is that ack
            key = {"deviation": "DEV_ACK_ALL", "rejected": "tx ack", "why": why}
            what = f"T_ACK sent for a numbered data frame that {why}: {e}"
            l2 = l
        else:
            l2 = res2.bad[j] if res2 is not None and isinstance(res2.bad[j], int) else l
            e2 = t[l2 - 1] if 0 < l2 <= len(t) else None
            key = {"script": ps[idx][0][:8], "nreq": ps[idx][1], "rejected": {k: v for k, v in (e2 or {}).items() if k != "t"}}
            what = f"management trace rejected at event {l2}: {e2}; before: {t[max(0, l2 - 7):l2 - 1]} (script {ps[idx][0][:8]})"
        ck.violation(key, what, {"script": ps[idx][0], "nreq": ps[idx][1], "intruder": intr[idx], "giveup": gu[idx], "trace": t, "rejected_at": l2})
    muts = []
    for i, tr in enumerate(traces[:400]):
        if i in res.bad:
            continue
        t = tr["ev"]
        oks = [k for k, e in enumerate(t) if e["ev"] == "ret" and e["out"] == "ok"]
        if oks and len(muts) < 120:
            a = [dict(e) for e in t]
            a[oks[0]]["seq"] = (a[oks[0]]["seq"] + 1) % 16                 # returned a frame with another number
            muts.append({"dev": 0, "ev": a})
            b = [dict(e) for e in t]
            b[oks[0]]["kind"] = "MemoryResponse" if b[oks[0]]["kind"] != "MemoryResponse" else "DeviceDescriptorResponse"
            muts.append({"dev": 0, "ev": b})
        txs = [k for k, e in enumerate(t) if e["ev"] == "tx" and e["tpci"] == "data"]
        if len(txs) >= 2 and len(muts) < 240:
            c = [dict(e) for e in t]
            c[txs[-1]]["seq"] = (c[txs[-1]]["seq"] + 3) % 16               # outgoing number jumped
            muts.append({"dev": 0, "ev": c})
    r2 = tlc.batch(ck, "mgmt/P2P_Trace", muts, min_per_shard=40)
    if not muts or len(r2.bad) != len(muts):
        acc = [m for k, m in enumerate(muts) if k not in r2.bad][:1]
        raise MachineryError(f"binding self-test: {len(muts) - len(r2.bad)} of {len(muts)} corrupted traces accepted: {acc}")
    ck.add(traces_validated_against_impl=res.accepted, trace_events=sum(len(t["ev"]) for t in traces), scripts=len(ps),
           requests=sum(1 for t in traces for e in t["ev"] if e["ev"] == "call"),
           explained_by_known_deviation=sum(1 for j in range(len(bad)) if res2 is not None and j not in res2.bad),
           selftest_corrupted_rejected=len(muts))
    ck.sample({"script": ps[0][0], "trace": traces[0]["ev"][:24]})


def replay(ck, path):
    import json

    d = json.loads(open(path).read())["replay"]
    t = run_script(d["script"], d["nreq"], ck.seed, intruder=d.get("intruder"), giveup=d.get("giveup", False))
    res = tlc.batch(ck, "mgmt/P2P_Trace", [t])
    l = res.bad.get(0)
    print("trace:", t["ev"][:60], "\nrejected at:", l, t["ev"][l - 1] if l else None)
    return 1 if res.bad else 0
