"""C39 - device commands loop back to the state they requested.

spec : spec/dev/DeviceLoop.tla (reference pipelines: exact / 0..255 scaling both directions / step counts; model-level statements
       checked by TLC as assumptions), law LoopOk judged per recorded command (DeviceLoop_Judge.tla)
code : a started XKNX (virtual time, interface mocked and confirming) with generated device configurations; each setter is awaited,
       the telegram queue sends and processes the outgoing telegrams (as in production), travel times elapse, the state property
       is read.
"""
from __future__ import annotations

import asyncio
import json
import random
from fractions import Fraction

from .. import tlc
from ..core import MachineryError
from ..fx import make_xknx, start_xknx, stop_xknx
from ..vloop import virtual_world

NONE = -(2**30)


def units(x, U):
    """a state value as an integer number of units, or NONE"""
    if x is None or isinstance(x, bool) or not isinstance(x, (int, float)):
        return None
    f = Fraction(x) * U
    r = round(f)
    return r if abs(f - r) < Fraction(1, 10**6) and abs(r) < 2**30 else None


def f16step(v, U=100):
    """spacing (in units of 1/U, U = 100) of the DPT 9 values around v"""
    h = abs(v) * 100
    e = 0
    while h > 2047 * (1 << e):
        e += 1
    return (1 << e) * U // 100


def run(ck):
    from xknx.devices import Climate, ClimateMode, Cover, ExposeSensor, Fan, Light, Notification, NumericValue, RawValue, Switch
    from xknx.devices.light import ColorTemperatureType
    from xknx.dpt.dpt_20 import HVACControllerMode, HVACOperationMode
    from xknx.dpt.dpt_232 import RGBColor
    from xknx.dpt.dpt_242 import XYYColor
    from xknx.dpt.dpt_251 import RGBWColor
    from xknx.exceptions import ConversionError, DeviceIllegalValue
    from xknx.remote_value.remote_value_setpoint_shift import SetpointShiftMode
    from xknx.telegram import GroupAddress, IndividualAddress, Telegram, TelegramDirection
    from xknx.telegram.apci import GroupValueWrite

    rnd = random.Random(ck.seed)
    quick = ck.tier == "quick"
    recs, ex = [], []
    with virtual_world(ck.seed) as loop:
        async def main():
            xknx, sent = make_xknx(loop)
            await start_xknx(xknx)
            n = [0]

            def ga():
                n[0] += 1
                return f"{1 + n[0] // 2000}/{(n[0] // 250) % 8}/{n[0] % 250}"

            async def settle(wait=0.0):
                await xknx.telegrams.join()
                if wait:
                    await asyncio.sleep(wait)
                    await xknx.telegrams.join()

            async def cmd(desc, coro_fn, read, rec):
                """rec: dict with pipe and parameters; read(): state"""
                k0 = len(sent)
                try:
                    r = coro_fn()
                    if asyncio.iscoroutine(r):
                        await r
                except (ConversionError, DeviceIllegalValue):
                    return                       # refused: nothing to loop back (C11 covers refusals)
                await settle(rec.pop("wait", 0.0))
                state = read()
                rec = dict(rec, t="loop", dev=desc.split(".")[0], sent=len(sent) - k0)
                if rec["pipe"] == "exact":
                    rec["eq"] = 1 if state == rec.pop("want") and type(state) is not type(None) else 0
                else:
                    s = units(state, rec["U"])
                    rec["known"] = 0 if s is None else 1
                    rec["state"] = NONE if s is None else s
                recs.append(rec)
                ex.append(f"{desc} -> state {state!r}")

            def add(dev):
                xknx.devices.async_add(dev)
                return dev

            # ---- switches, inverted and not
            for inv in (False, True):
                sw = add(Switch(xknx, f"sw{inv}", group_address=ga(), invert=inv))
                for on in (True, False, True, True, False):
                    await cmd(f"Switch(invert={inv}).set_{'on' if on else 'off'}()", sw.set_on if on else sw.set_off, lambda sw=sw: sw.state, {"pipe": "exact", "want": on})
            # ---- light
            li = add(Light(xknx, "li", group_address_switch=ga(), group_address_brightness=ga(), group_address_color=ga(), group_address_tunable_white=ga(),
                           group_address_color_temperature=ga(), group_address_hue=ga(), group_address_saturation=ga()))
            li2 = add(Light(xknx, "li2", group_address_switch=ga(), group_address_rgbw=ga(), group_address_xyy_color=ga(),
                            group_address_color_temperature=ga(), color_temperature_type=ColorTemperatureType.FLOAT_2_BYTE))
            for b in (range(256) if not quick else list(range(0, 256, 5)) + [1, 254, 255]):
                await cmd(f"Light.set_brightness({b})", lambda b=b: li.set_brightness(b), lambda: li.current_brightness, {"pipe": "exact", "want": b})
                await cmd(f"Light.set_tunable_white({b})", lambda b=b: li.set_tunable_white(b), lambda: li.current_tunable_white, {"pipe": "exact", "want": b})
            for on in (True, False):
                await cmd(f"Light.set_{on}", li.set_on if on else li.set_off, lambda: li.state, {"pipe": "exact", "want": on})
            for k in (0, 1, 2000, 2700, 4000, 6500, 65535):
                await cmd(f"Light.set_color_temperature({k})", lambda k=k: li.set_color_temperature(k), lambda: li.current_color_temperature, {"pipe": "exact", "want": k})
            for k in (0, 20, 2000, 2700, 4000, 6500, 8188):      # kelvin as DPT 9: the nearest representable value
                await cmd(f"Light(float).set_color_temperature({k})", lambda k=k: li2.set_color_temperature(k), lambda: li2.current_color_temperature,
                          {"pipe": "step", "v": k * 100, "U": 100, "step": f16step(k)})
            for _ in range(30 if quick else 500):
                c = tuple(rnd.choice((0, 1, 127, 128, 254, 255, rnd.randrange(256))) for _ in range(3))
                await cmd(f"Light.set_color({c})", lambda c=c: li.set_color(c), lambda: li.current_color, {"pipe": "exact", "want": (c, None)})
                w = rnd.choice((0, 1, 128, 255, rnd.randrange(256)))
                await cmd(f"Light(rgbw).set_color({c}, {w})", lambda c=c, w=w: li2.set_color(c, w), lambda: li2.current_color, {"pipe": "exact", "want": (c, w)})
                h = rnd.choice((0, 1, 180, 359, 360, rnd.randrange(361)))
                await cmd(f"Light.set_hs_color hue({h})", lambda h=h: li.set_hs_color((h, 50)), lambda: (li.current_hs_color or (None, None))[0], {"pipe": "scale", "v": h * 10, "U": 10, "from": 0, "to": 360})
                s_ = rnd.choice((0, 1, 50, 99, 100, rnd.randrange(101)))
                await cmd(f"Light.set_hs_color saturation({s_})", lambda s_=s_: li.set_hs_color((10, s_)), lambda: (li.current_hs_color or (None, None))[1], {"pipe": "scale", "v": s_ * 10, "U": 10, "from": 0, "to": 100})
            # ---- xyY (coordinates on a grid of 0.02, compared to three decimals: the wire resolution is 1 / 65535): sequences of commands (the light merges every value into the last valid one), zero and extreme components included
            prev = None
            for _ in range(40 if quick else 600):
                col = rnd.choice([(0.0, 0.0), (1.0, 1.0), (0.0, 1.0), (rnd.randrange(0, 51) / 50, rnd.randrange(0, 51) / 50), None if prev is not None else (0.5, 0.5)])
                br = rnd.choice([0, 0, 1, 120, 255, rnd.randrange(256), None if prev is not None and col is not None else 7])
                if col is None and br is None:
                    continue
                want_col = col if col is not None else prev[0]
                want_br = br if br is not None else prev[1]
                prev = (want_col, want_br)

                def read_xyy():
                    v = li2.current_xyy_color
                    return None if v is None or v.color is None else (round(v.color[0], 3), round(v.color[1], 3), v.brightness)

                await cmd(f"Light.set_xyy_color(XYYColor({col}, {br})) after {prev}", lambda col=col, br=br: li2.set_xyy_color(XYYColor(col, br)), read_xyy,
                          {"pipe": "exact", "want": (round(want_col[0], 3), round(want_col[1], 3), want_br)})
            # ---- cover positions and angles, both orientations
            for invp in (False, True):
                for inva in (False, True):
                    co = add(Cover(xknx, f"co{invp}{inva}", group_address_long=ga(), group_address_position=ga(), group_address_angle=ga(),
                                   invert_position=invp, invert_angle=inva, travel_time_down=10, travel_time_up=10))
                    vals = list(range(0, 101, 1 if not quick else 7)) + [1, 99, 100, 50]
                    for p in vals:
                        await cmd(f"Cover(invert_position={invp}).set_position({p})", lambda p=p, co=co: co.set_position(p), lambda co=co: co.current_position(),
                                  {"pipe": "scale", "v": p * 10, "U": 10, "from": 100 if invp else 0, "to": 0 if invp else 100, "wait": 12.0})
                        await cmd(f"Cover(invert_angle={inva}).set_angle({p})", lambda p=p, co=co: co.set_angle(p), lambda co=co: co.current_angle(),
                                  {"pipe": "scale", "v": p * 10, "U": 10, "from": 100 if inva else 0, "to": 0 if inva else 100})
            # ---- fan: percent and steps
            fa = add(Fan(xknx, "fa", group_address_speed=ga()))
            fs = add(Fan(xknx, "fs", group_address_speed=ga(), max_step=3))
            for p in range(0, 101, 1 if not quick else 3):
                await cmd(f"Fan.set_speed({p})", lambda p=p: fa.set_speed(p), lambda: fa.current_speed, {"pipe": "scale", "v": p * 10, "U": 10, "from": 0, "to": 100})
            for st in (0, 1, 2, 3):
                await cmd(f"Fan(max_step=3).set_speed({st})", lambda st=st: fs.set_speed(st), lambda: fs.current_speed, {"pipe": "exact", "want": st})
            # ---- climate: target temperature directly, and through a setpoint shift (both datapoint types, steps)
            cl = add(Climate(xknx, "cl", group_address_target_temperature=ga(), min_temp=7, max_temp=35))
            for t in (7, 7.5, 18, 20.46, 21, 21.5, 22.22, 35):
                await cmd(f"Climate.set_target_temperature({t})", lambda t=t: cl.set_target_temperature(t), lambda: cl.target_temperature.value, {"pipe": "step", "v": round(t * 100), "U": 100, "step": f16step(t)})
            for mode, step in ((SetpointShiftMode.DPT6010, 0.1), (SetpointShiftMode.DPT6010, 0.5), (SetpointShiftMode.DPT6010, 1.0), (SetpointShiftMode.DPT6010, 0.2), (SetpointShiftMode.DPT6010, 0.25), (SetpointShiftMode.DPT6010, 0.05), (SetpointShiftMode.DPT9002, 0.1)):
                for writable_target in (True, False):
                    g_t, g_ts, g_s = ga(), ga(), ga()
                    cs = add(Climate(xknx, f"cs{mode}{step}{writable_target}", group_address_target_temperature=g_t if writable_target else None,
                                     group_address_target_temperature_state=g_ts, group_address_setpoint_shift=g_s, setpoint_shift_mode=mode, temperature_step=step,
                                     setpoint_shift_max=6, setpoint_shift_min=-6))
                    # the device learns base temperature and shift from the bus: target 21.0, shift 0
                    from xknx.dpt import DPTArray, DPTTemperature, DPTValue1Count  # noqa: PLC0415
                    for addr, pl in ((g_ts, DPTTemperature.to_knx(21.0)), (g_s, DPTArray((0,)) if mode is SetpointShiftMode.DPT6010 else DPTTemperature.to_knx(0.0))):
                        xknx.telegrams.put_nowait(Telegram(destination_address=GroupAddress(addr), direction=TelegramDirection.INCOMING,
                                                           payload=GroupValueWrite(pl), source_address=IndividualAddress(0x1105)))
                    await settle()
                    U = 100
                    stp = round(step * U) if mode is SetpointShiftMode.DPT6010 else 1
                    shifts = [k * step for k in range(-12, 13)] + [0.3, -0.3, 0.7, 1.3, 2.9, -2.9, 0.05, 0.15, 0.25, 0.75, 1.25, -1.25, 0.34, 0.36]
                    for sh in shifts if not quick else shifts[::2] + shifts[1:8:2] + [0.3, 0.7, 2.9, 0.25, 0.75]:
                        sh = round(sh, 2)
                        if abs(sh) > 6:
                            continue
                        await cmd(f"Climate({mode.name}, step {step}).set_setpoint_shift({sh})", lambda sh=sh, cs=cs: cs.set_setpoint_shift(sh), lambda cs=cs: cs.setpoint_shift,
                                  {"pipe": "step", "v": round(sh * U), "U": U, "step": stp if mode is SetpointShiftMode.DPT6010 else f16step(sh)})
                        if writable_target:
                            # ... and a target temperature commanded through the shift: the shift follows (nearest step), the target temperature
                            # object (writable here) is sent the value itself
                            t = round(21.0 + sh, 2)
                            await cmd(f"Climate({mode.name}, step {step}).set_target_temperature({t}) [target]", lambda t=t, cs=cs: cs.set_target_temperature(t), lambda cs=cs: cs.target_temperature.value,
                                      {"pipe": "step", "v": round(t * U), "U": U, "step": f16step(t)})
                            base = cs.base_temperature          # what the device derived from the values it saw (target - shift)
                            want = Fraction(str(t)) - Fraction(base).limit_denominator(10**6)
                            if (want * U).denominator == 1:
                                await cmd(f"Climate({mode.name}, step {step}).set_target_temperature({t}) [shift, base {base}]", lambda t=t, cs=cs: cs.set_target_temperature(t), lambda cs=cs: cs.setpoint_shift,
                                          {"pipe": "step", "v": int(want * U), "U": U, "step": stp if mode is SetpointShiftMode.DPT6010 else f16step(float(want))})
            cm = add(ClimateMode(xknx, "cm", group_address_operation_mode=ga(), group_address_controller_mode=ga()))
            for m in HVACOperationMode:
                await cmd(f"ClimateMode.set_operation_mode({m.name})", lambda m=m: cm.set_operation_mode(m), lambda: cm.operation_mode, {"pipe": "exact", "want": m})
            for m in HVACControllerMode:
                await cmd(f"ClimateMode.set_controller_mode({m.name})", lambda m=m: cm.set_controller_mode(m), lambda: cm.controller_mode, {"pipe": "exact", "want": m})
            cmb = add(ClimateMode(xknx, "cmb", group_address_operation_mode_protection=ga(), group_address_operation_mode_economy=ga(), group_address_operation_mode_comfort=ga(),
                                  group_address_operation_mode_standby=ga()))
            for m in (HVACOperationMode.COMFORT, HVACOperationMode.ECONOMY, HVACOperationMode.BUILDING_PROTECTION, HVACOperationMode.STANDBY, HVACOperationMode.COMFORT):
                await cmd(f"ClimateMode(binary).set_operation_mode({m.name})", lambda m=m: cmb.set_operation_mode(m), lambda: cmb.operation_mode, {"pipe": "exact", "want": m})
            # ---- numeric values and expose sensors by datapoint type
            for vt, pipe, vals in (("percent", ("scale", 0, 100), list(range(0, 101, 3)) + [0.4, 49.5, 50.4, 99.6]), ("angle", ("scale", 0, 360), list(range(0, 361, 7)) + [359.5]),
                                   ("percentU8", ("exact",), [0, 1, 100, 255]), ("pulse_2byte", ("exact",), [0, 1, 65535]), ("temperature", ("step", 1), [-20.47, -0.01, 0, 0.01, 20.47, 19.5]),
                                   ("percentV16", ("step", 1), [-327.68, -1.19, -0.01, 0, 0.07, 1.19, 16.47, 327.67] + [round(rnd.uniform(-327, 327), 2) for _ in range(30)]),
                                   ("time_period_10msec", ("step", 1000), [0, 10, 15, 20, 655350, 12345]), ("delta_time_100ms", ("step", 10000), [0, 100, -100, 150, -150, 3276700]),
                                   ("1byte_signed", ("exact",), [-128, -1, 0, 127]), ("pulse_4byte", ("exact",), [0, 2**32 - 1])):
                nv = add(NumericValue(xknx, "nv_" + vt, group_address=ga(), value_type=vt))
                es = add(ExposeSensor(xknx, "es_" + vt, group_address=ga(), value_type=vt))
                for v in vals:
                    for nm, dv in (("NumericValue", nv), ("ExposeSensor", es)):
                        if pipe[0] == "exact":
                            rec = {"pipe": "exact", "want": v}
                        elif pipe[0] == "scale":
                            rec = {"pipe": "scale", "v": round(v * 10), "U": 10, "from": pipe[1], "to": pipe[2]}
                        else:
                            rec = {"pipe": "step", "v": round(v * 100), "U": 100, "step": pipe[1]}
                        await cmd(f"{nm}({vt}).set({v})", lambda v=v, dv=dv: dv.set(v), lambda dv=dv: dv.resolve_state(), rec)
            for ln, vals in ((0, [0, 1, 63]), (1, [0, 255]), (2, [0, 256, 65535]), (4, [0, 2**32 - 1])):
                rw = add(RawValue(xknx, f"raw{ln}", payload_length=ln, group_address=ga()))
                for v in vals:
                    await cmd(f"RawValue({ln}).set({v})", lambda v=v, rw=rw: rw.set(v), lambda rw=rw: rw.resolve_state(), {"pipe": "exact", "want": v})
            no = add(Notification(xknx, "no", group_address=ga()))
            for m in ("", "a", "Hello", "14 characters!", "ÄÖ?"):
                await cmd(f"Notification.set({m!r})", lambda m=m: no.set(m), lambda: no.message, {"pipe": "exact", "want": m if m.isascii() else "???"})
            await stop_xknx(xknx)

        loop.run_until_complete(main())
    send = [{k: v for k, v in r.items() if k not in ("want",)} for r in recs]
    res = tlc.batch(ck, "dev/DeviceLoop_Judge", send, min_per_shard=400)
    seen = set()
    for idx in sorted(res.bad):
        r = send[idx]
        key = {"dev": ex[idx].split("(")[0] + "(" + ex[idx].split("(")[1].split(")")[0] + ")", "pipe": r["pipe"], "case": ex[idx].split(" -> ")[0][-40:]}
        k2 = (key["dev"], r["pipe"])
        cnt = sum(1 for j in res.bad if ex[j].split(".set")[0] == ex[idx].split(".set")[0])
        if k2 in seen:
            continue
        seen.add(k2)
        ck.violation(key, f"device loop: {ex[idx]}; requested {r.get('v')} units of 1/{r.get('U')}: {json.dumps(r)} ({cnt} such commands of this device)", {"record": r, "example": ex[idx]})
    ok = [r for r in send]
    muts = [dict(r, eq=0) for r in ok if r["pipe"] == "exact"][:10] + [dict(r, state=r["state"] + 2 * r["U"]) for r in ok if r["pipe"] == "scale" and r.get("known")][:10] + \
           [dict(r, state=r["state"] + r["step"]) for r in ok if r["pipe"] == "step" and r.get("known") and r["v"] % r["step"] == 0][:10] + [dict(r, known=0) for r in ok if r["pipe"] != "exact"][:5]
    r2 = tlc.batch(ck, "dev/DeviceLoop_Judge", muts)
    if not muts or len(r2.bad) != len(muts):
        raise MachineryError(f"binding self-test: {len(muts) - len(r2.bad)} of {len(muts)} corrupted cases accepted")
    import collections

    ck.add(evaluations=len(recs), by_pipeline=dict(collections.Counter(r["pipe"] for r in recs)), devices=len({r["dev"] for r in recs}),
           distinct_nontrivial=len({(e.split("(")[0], r["pipe"], r.get("v"), r.get("from")) for r, e in zip(recs, ex)}), telegrams_sent=sum(r["sent"] for r in recs),
           selftest_corrupted_rejected=len(muts), rule="distinct = (setter, pipeline, value)")
    ck.sample({"record": send[3], "example": ex[3]})


def replay(ck, path):
    print(json.loads(open(path).read())["replay"])
    return 1
