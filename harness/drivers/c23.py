"""C23 - server-sent tunnel and management frames are delivered once, in order.

design side : spec/io/SeqCounter_MC (M = 256, every state x every input), spec/io/TunnelRx (server + lossy,
              duplicating, reordering network + client, wrap-around with M = 4)
code side   : real UDPTunnel (simulated gateway, virtual loop) and real DeviceManagement on a UDPTransport;
              request histories (exhaustive short ones, random long ones with wrap-around, TLC-simulated network
              behaviours of TunnelRx) -> recorded receive traces -> spec/io/SeqCounter_Trace judged by TLC.
"""
from __future__ import annotations

import asyncio
import itertools
import random

from .. import tlc
from ..core import MachineryError
from ..sim.gateway import GW, GatewaySim
from ..vloop import virtual_world

KINDS = ("exp", "prev", "next", "rand", "dup")


def concretise(kinds, rnd, m=256):
    """abstract history over KINDS -> list of counters, following the reference expectation"""
    exp, last, out = 0, None, []
    for k in kinds:
        if k == "exp":
            c = exp
        elif k == "prev":
            c = (exp - 1) % m
        elif k == "next":
            c = (exp + 1) % m
        elif k == "dup":
            c = last if last is not None else exp
        else:
            c = rnd.randrange(m)
        out.append(c)
        last = c
        if c == exp:
            exp = (exp + 1) % m
    return out


def run_tunnel(hist, seed=0, route_back=False):
    """hist: list of ("req", chan_offset, counter) | ("reconnect",).  Returns the recorded trace."""
    trace = []
    with virtual_world(seed) as loop:
        sim = GatewaySim(loop, "udp", auto_reconnect=True, auto_reconnect_wait=1, route_back=route_back)
        sim.odd_cemi = True

        async def main():
            await sim.tun.connect()
            n = 0
            other = {"sim": None, "next": 0}
            for h in hist:
                if h[0] == "other":
                    # a second tunnel of the same process (another gateway, another XKNX) connects and / or receives frames of its own
                    if other["sim"] is None or h[1] == "connect":
                        if other["sim"] is not None:
                            other["sim"].quiesce()
                        other["sim"] = GatewaySim(loop, "udp", auto_reconnect=True, auto_reconnect_wait=1, route_back=route_back)
                        await other["sim"].tun.connect()
                        other["next"] = 0
                    for _ in range(h[2]):
                        other["sim"].server_tunnelling_request(other["sim"].chan or 0, other["next"], 200)
                        other["next"] = (other["next"] + 1) % 256
                        await asyncio.sleep(0.001)
                    continue
                if h[0] == "reconnect":
                    sim.server_disconnect()
                    for _ in range(200):
                        await asyncio.sleep(0.05)
                        if sim.xknx.connection_manager.connected.is_set() and sim.tun.communication_channel is not None:
                            break
                    trace.append({"ev": "reset", "exp": getattr(getattr(sim.tun, "_sequence", None), "expected", -1)})
                    continue
                _, choff, c = h
                n += 1
                mark = len(sim.ev)
                ch = (sim.chan or 0) + choff
                sim.server_tunnelling_request(ch, c, n)
                await asyncio.sleep(0.001)
                new = sim.ev[mark:]
                trace.append({
                    "ev": "recv", "c": c, "id": n & 0xFF, "own": 1, "ch": ch,
                    "up": [e["cemi"] for e in new if e["ev"] == "up"],
                    "acks": [[e["chan"], e["seq"]] for e in new if e["ev"] == "tx" and e["kind"] == "TunnellingAck"],
                    "exp": getattr(getattr(sim.tun, "_sequence", None), "expected", -1),
                })
            sim.quiesce()
            if other["sim"] is not None:
                other["sim"].quiesce()

        loop.run_until_complete(main())
    return trace


def run_dm(hist, seed=0):
    """device management connection: requests for a foreign channel must be ignored"""
    from xknx.io.device_management import DeviceManagement
    from xknx.io.transport import UDPTransport
    from xknx.knxip import DeviceConfigurationAck, DeviceConfigurationRequest, KNXIPFrame

    trace = []
    with virtual_world(seed) as loop:
        up, acks = [], []

        def on_send(tr, data, addr):
            f, _ = KNXIPFrame.from_knx(data)
            if isinstance(f.body, DeviceConfigurationAck):
                acks.append([f.body.communication_channel_id, f.body.sequence_counter])

        loop.on_send = on_send

        async def main():
            tr = UDPTransport(local_addr=("10.0.0.1", 0), remote_addr=GW)
            await tr.connect()
            dm = DeviceManagement(tr, 7, cemi_received_callback=lambda raw: up.append(raw[-1]))
            dm.start()
            n = 0
            for h in hist:
                if h[0] == "reconnect":
                    dm.stop()
                    dm.start()
                    trace.append({"ev": "reset", "exp": getattr(getattr(dm, "_sequence", None), "expected", -1)})
                    continue
                _, choff, c = h
                n += 1
                ch = 7 + choff
                up.clear()
                acks.clear()
                # what the frame carries is the consumer's business: property answers, T_Data_Connected.ind (0x89), T_Data_Individual.ind (0x94),
                # a code unknown to the library, a single octet - the counter rule is the same for all of them
                raw = [bytes([0xFB, 0, 0, 1, 0x34, 0x10, 0x01, n & 0xFF]), bytes([0x89, 0, 0, 0, 0, 0, 0, n & 0xFF]), bytes([0x94, 0, 0, 0, n & 0xFF]),
                       bytes([0x5A, n & 0xFF]), bytes([n & 0xFF])][n % 5]
                body = DeviceConfigurationRequest(communication_channel_id=ch, sequence_counter=c, raw_cemi=raw)
                data = KNXIPFrame.init_from_body(body).to_knx()
                loop.inject(tr.transport.deliver, data, GW)
                await asyncio.sleep(0.001)
                trace.append({"ev": "recv", "c": c, "id": n & 0xFF, "own": 1 if choff == 0 else 0, "ch": ch,
                              "up": list(up), "acks": [list(a) for a in acks],
                              "exp": getattr(getattr(dm, "_sequence", None), "expected", -1)})
            tr.stop()

        loop.run_until_complete(main())
    return trace


def run_dmconn(hist, seed=0):
    """the whole UDPDeviceManagementConnection against a simulated server; "reconnect" = disconnect() and connect() again, the server
    hands out another channel each time; the frames passed up are M_PropInfo.ind frames seen by the indication callback"""
    from xknx.io.device_management_connection import UDPDeviceManagementConnection
    from xknx.knxip import (HPAI, ConnectionStateRequest, ConnectionStateResponse, ConnectRequest, ConnectResponse, ConnectResponseData,
                            DeviceConfigurationAck, DeviceConfigurationRequest, DisconnectRequest, DisconnectResponse, KNXIPFrame)
    from xknx.knxip.knxip_enum import ConnectRequestType

    trace = []
    with virtual_world(seed) as loop:
        up, acks = [], []
        st = {"chan": 6}

        async def main():
            conn = UDPDeviceManagementConnection(GW[0], GW[1], "10.0.0.1", indication_callback=lambda c: up.append(c.data.data[0] if c.data.data else -1))

            def deliver(body):
                raw = KNXIPFrame.init_from_body(body).to_knx()

                def go():
                    tr = conn.transport.transport
                    if tr is not None and not tr.is_closing():
                        tr.deliver(raw, GW)
                loop.inject(go)

            def gw(tr, data, addr):
                f, _ = KNXIPFrame.from_knx(data)
                b = f.body
                if isinstance(b, ConnectRequest):
                    st["chan"] += 1
                    deliver(ConnectResponse(communication_channel=st["chan"], data_endpoint=HPAI(*GW), crd=ConnectResponseData(request_type=ConnectRequestType.DEVICE_MGMT_CONNECTION)))
                elif isinstance(b, DisconnectRequest):
                    deliver(DisconnectResponse(communication_channel_id=b.communication_channel_id))
                elif isinstance(b, ConnectionStateRequest):
                    deliver(ConnectionStateResponse(communication_channel_id=b.communication_channel_id))
                elif isinstance(b, DeviceConfigurationAck):
                    acks.append([b.communication_channel_id, b.sequence_counter])

            loop.on_send = gw
            await conn.connect()
            n = 0
            for h in hist:
                if h[0] == "reconnect":
                    await conn.disconnect()
                    await conn.connect()
                    dm = getattr(conn, "_device_management", None)
                    trace.append({"ev": "reset", "exp": getattr(getattr(dm, "_sequence", None), "expected", -1)})
                    continue
                _, choff, c = h
                n += 1
                ch = st["chan"] + choff
                up.clear()
                acks.clear()
                raw = bytes([0xF7, 0, 0x0B, 1, 0x34, 0x10, 0x01, n & 0xFF])          # M_PropInfo.ind carrying the frame number
                deliver(DeviceConfigurationRequest(communication_channel_id=ch, sequence_counter=c, raw_cemi=raw))
                await asyncio.sleep(0.001)
                dm = getattr(conn, "_device_management", None)
                trace.append({"ev": "recv", "c": c, "id": n & 0xFF, "own": 1 if choff == 0 else 0, "ch": ch, "up": list(up), "acks": [list(a) for a in acks],
                              "exp": getattr(getattr(dm, "_sequence", None), "expected", -1)})
            await conn.disconnect()

        loop.run_until_complete(main())
    return trace


def histories(ck):
    rnd = random.Random(ck.seed)
    hs = []
    maxlen = 4 if ck.tier == "quick" else 5
    for n in range(1, maxlen + 1):
        for kinds in itertools.product(KINDS, repeat=n):
            hs.append([("req", 0, c) for c in concretise(kinds, rnd)])
    # long random histories with wrap-around, foreign channels and reconnects
    for i in range(40 if ck.tier == "quick" else 400):
        n = rnd.choice([10, 80, 300, 600])
        h, exp, last = [], 0, None
        for _ in range(n):
            r = rnd.random()
            if r < 0.01:
                h.append(("reconnect",))
                exp, last = 0, None
                continue
            k = "exp" if r < 0.72 else "prev" if r < 0.84 else "next" if r < 0.9 else "dup" if r < 0.95 else "rand"
            c = concretise([k], rnd)[0] if False else None
            if k == "exp":
                c = exp
            elif k == "prev":
                c = (exp - 1) % 256
            elif k == "next":
                c = (exp + 1) % 256
            elif k == "dup":
                c = last if last is not None else exp
            else:
                c = rnd.randrange(256)
            choff = 0 if rnd.random() < 0.93 else rnd.choice([1, 2, -1])
            h.append(("req", choff, c))
            last = c
            if c == exp:
                # note: the tunnel ignores the channel id of requests; the reference for foreign channels is in the spec
                exp = (exp + 1) % 256
        hs.append(h)
    # a second tunnel in the same process connects and receives its own frames in between: the two connections count separately
    for k, j, m_ in itertools.product((0, 2, 3), (0, 1, 2), (1, 3)):
        hs.append([("req", 0, c) for c in range(k)] + [("other", "connect", j)] + [("req", 0, k + c) for c in range(m_)] + [("other", "more", 2), ("req", 0, k + m_), ("req", 0, k + m_)])
    # reconnects after k delivered frames: the expectation restarts at 0 on every new connection
    for k, j in itertools.product((1, 2, 3, 5, 255, 257), (1, 3)):
        h = [("req", 0, c % 256) for c in range(k)] + [("reconnect",)] + [("req", 0, c) for c in range(j)]
        hs.append(h + [("req", 0, (k - 1) % 256), ("reconnect",), ("req", 0, 255), ("req", 0, 0)])
    return hs


def from_model(ck):
    """network behaviours of TunnelRx (-simulate): the datagrams the model delivers to the client, in order"""
    behs = tlc.simulate(ck, "io/TunnelRx_Sim", "io/TunnelRx_Sim", num=30 if ck.tier == "quick" else 300, depth=120,
                        seed=ck.seed + 1)
    hs = []
    for b in behs:
        h = []
        for st in b:
            a = st.get("act")
            if isinstance(a, dict) and a.get("name") == "recv":
                h.append(("req", 0, a["seq"]))
            elif isinstance(a, dict) and a.get("name") == "reconnect":
                h.append(("reconnect",))
        if h:
            hs.append(h)
    return hs


def run(ck):
    ck.assume("datagrams enter through the fake selector of the virtual loop, one per loop iteration")
    ck.assume("the UDP tunnel does not check the channel id of received TunnellingRequests (the property does not ask for it)")
    m1 = tlc.mc(ck, "io/SeqCounter_MC", require_actions=False)
    m2 = tlc.mc(ck, "io/TunnelRx", require_actions=False)
    hs = histories(ck)
    sim_hs = from_model(ck)
    if not sim_hs:
        raise MachineryError("no behaviours from TunnelRx_Sim")
    traces, meta = [], []
    for i, h in enumerate(hs + sim_hs):
        src = "plan" if i < len(hs) else "tlc-sim"
        # the tunnel treats every channel as its own: a foreign channel offset is recorded as own there
        t = run_tunnel(h, ck.seed)
        for e in t:
            if e["ev"] == "recv":
                e["own"] = 1
                e["ch"] = e["acks"][0][0] if e["acks"] else e["ch"]
        traces.append(t)
        meta.append(("tunnel", src, h))
        if any(x[0] == "other" for x in h):
            continue                          # the second-tunnel histories are for the tunnel
        traces.append(run_dm(h, ck.seed))
        meta.append(("devmgmt", src, h))
        if i % 3 == 0 or any(x[0] == "reconnect" for x in h):      # ... and through the whole connection object (a new channel after every reconnect)
            traces.append(run_dmconn(h, ck.seed))
            meta.append(("devmgmt-connection", src, h))
        if any(x[0] == "reconnect" for x in h):          # route-back tunnels (NAT mode) take another path in setup_tunnel
            t = run_tunnel(h, ck.seed, route_back=True)
            for e in t:
                if e["ev"] == "recv":
                    e["own"] = 1
                    e["ch"] = e["acks"][0][0] if e["acks"] else e["ch"]
            traces.append(t)
            meta.append(("tunnel-route-back", src, h))
    res = tlc.batch(ck, "io/SeqCounter_Trace", traces)
    for idx, info in sorted(res.bad.items()):
        kind, src, h = meta[idx]
        t = traces[idx]
        l = info if isinstance(info, int) else 0
        ev = t[l - 1] if 0 < l <= len(t) else None
        ck.violation({"target": kind, "event": ev},
                     f"{kind}: receive trace not explained by SeqCounter at event {l}: {ev}",
                     {"target": kind, "history": h, "trace": t, "rejected_at": l})
    # binding self-test: a corrupted field and a removed event must be rejected
    good = [t for i, t in enumerate(traces) if i not in res.bad and sum(1 for e in t if e["ev"] == "recv" and e["up"]) >= 2]
    muts = []
    for t in good[:20]:
        k = next(i for i, e in enumerate(t) if e["ev"] == "recv" and e["up"])
        a = [dict(e) for e in t]
        a[k]["up"] = []
        muts.append(a)
        b = [dict(e) for e in t]
        del b[k]
        muts.append(b)
        c = [dict(e) for e in t]
        c[k]["acks"] = [[c[k]["ch"], (c[k]["c"] + 1) % 256]]
        muts.append(c)
    if muts:
        r2 = tlc.batch(ck, "io/SeqCounter_Trace", muts)
        if len(r2.bad) != len(muts):
            raise MachineryError(f"binding self-test: {len(muts) - len(r2.bad)} corrupted traces were accepted")
        ck.add(selftest_corrupted_rejected=len(muts))
    ck.add(traces_validated_against_impl=res.accepted, trace_events=sum(len(t) for t in traces),
           histories_plan=len(hs), histories_from_tlc_simulation=len(sim_hs), trace_states=res.states)
    ck.sample({"target": meta[0][0], "trace": traces[0]})
    ck.sample({"target": meta[-1][0], "source": meta[-1][1], "trace": traces[-1][:12]})
    ck.add(exhaustive=False)


def replay(ck, path):
    import json

    d = json.loads(open(path).read())["replay"]
    h = [tuple(x) for x in d["history"]]
    t = run_dm(h, ck.seed) if d["target"] == "devmgmt" else run_dmconn(h, ck.seed) if d["target"] == "devmgmt-connection" else run_tunnel(h, ck.seed, route_back=d["target"].endswith("route-back"))
    if d["target"] != "devmgmt":
        for e in t:
            if e["ev"] == "recv":
                e["own"] = 1
                e["ch"] = e["acks"][0][0] if e["acks"] else e["ch"]
    res = tlc.batch(ck, "io/SeqCounter_Trace", [t])
    print("trace:", t)
    print("REJECTED at", res.bad[0] if res.bad else None)
    return 1 if res.bad else 0
