"""S01 (supplement, not a listed property) - reading a group value.

spec : spec/core/ValueReader.tla (+ _MC: every environment), ValueReader_Trace.tla
code : real ValueReader.read / xknx.tools.read_group_value on a started XKNX under virtual time: telegrams to the reader's address and to
       other addresses (read / response / write, incoming and outgoing) before, during and after the wait, at the timeout instant,
       cancellation of the reading task at chosen instants; the callback list of the telegram queue is inspected afterwards.
"""
from __future__ import annotations

import asyncio
import random

from .. import tlc
from ..core import MachineryError
from ..fx import make_xknx, start_xknx, stop_xknx
from ..vloop import ms, virtual_world


def session(seed, plan, cancel_at=None, use_tool=False):
    """plan: list of (time_s, ga_kind 'own'|'other', payload 'read'|'resp'|'write', direction 'in'|'out')"""
    from xknx.core.value_reader import ValueReader
    from xknx.dpt import DPTArray
    from xknx.telegram import GroupAddress, IndividualAddress, Telegram, TelegramDirection
    from xknx.telegram.apci import GroupValueRead, GroupValueResponse, GroupValueWrite
    from xknx.tools import read_group_value

    ev = []
    with virtual_world(seed) as loop:
        now = lambda: ms(loop.time())

        async def main():
            xknx, sent = make_xknx(loop)
            base = len(xknx.telegram_queue.telegram_received_cbs)
            ids = {}
            own_reads = [0]

            def watch(t):
                own = 1 if t.destination_address == GroupAddress("1/2/3") else 0
                if isinstance(t.payload, GroupValueRead) and own and t.direction is TelegramDirection.OUTGOING and id(t) not in ids:
                    own_reads[0] += 1                        # the reader's own request
                    return
                ev.append({"ev": "seen", "id": ids.get(id(t), 99), "own": own, "ans": 1 if isinstance(t.payload, (GroupValueResponse, GroupValueWrite)) else 0, "t": now()})

            await start_xknx(xknx)
            xknx.telegram_queue.register_telegram_received_cb(watch, match_for_outgoing=True)
            base += 1

            async def feeder():
                t_prev = 0.0
                for k, (at, gk, pk, dr) in enumerate(plan):
                    await asyncio.sleep(max(0.0, at - t_prev))
                    t_prev = at
                    pay = {"read": GroupValueRead(), "resp": GroupValueResponse(DPTArray((k,))), "write": GroupValueWrite(DPTArray((k,)))}[pk]
                    tg = Telegram(destination_address=GroupAddress("1/2/3" if gk == "own" else "1/2/4"), payload=pay, source_address=IndividualAddress(0x1105),
                                  direction=TelegramDirection.INCOMING if dr == "in" else TelegramDirection.OUTGOING)
                    ids[id(tg)] = k + 1
                    keep.append(tg)
                    xknx.telegrams.put_nowait(tg)

            keep = []

            async def reader():
                await asyncio.sleep(1.0)
                ev.append({"ev": "call", "t": now()})
                try:
                    if use_tool:
                        res = await read_group_value(xknx, "1/2/3")
                        rid = 0 if res is None else next((ids[id(t)] for t in reversed(keep) if getattr(getattr(t.payload, "value", None), "value", None) == res
                                                              and t.destination_address == GroupAddress("1/2/3")), 98)
                    else:
                        vr = ValueReader(xknx, GroupAddress("1/2/3"))
                        res = await vr.read()
                        rid = 0 if res is None else ids.get(id(res), 98)
                except asyncio.CancelledError:
                    ev.append({"ev": "cancelled", "t": now(), "cbs": len(xknx.telegram_queue.telegram_received_cbs) - base})
                    return
                rec = {"ev": "ret", "res": rid, "t": now(), "cbs": len(xknx.telegram_queue.telegram_received_cbs) - base, "reads": 1}
                ev.append(rec)
                try:
                    await xknx.telegrams.join()
                except asyncio.CancelledError:
                    pass
                rec["reads"] = own_reads[0]

            rt = asyncio.ensure_future(reader())
            ft = asyncio.ensure_future(feeder())
            if cancel_at is not None:
                await asyncio.sleep(cancel_at)
                rt.cancel()
            await asyncio.wait([rt, ft], timeout=30)
            await asyncio.sleep(3)
            ev.append({"ev": "end", "cbs": len(xknx.telegram_queue.telegram_received_cbs) - base})
            await stop_xknx(xknx)

        loop.run_until_complete(main())
    return ev


def run(ck):
    rnd = random.Random(ck.seed)
    tlc.mc(ck, "core/ValueReader_MC", "core/ValueReader_MC", require_actions=False)
    plans = []
    times = [0.5, 0.999, 1.0, 1.001, 1.5, 2.0, 2.999, 3.0, 3.001, 3.5]       # the read starts at 1.0 and times out at 3.0
    for at in times:
        for gk in ("own", "other"):
            for pk in ("read", "resp", "write"):
                for dr in ("in", "out"):
                    plans.append(([(at, gk, pk, dr)], None, False))
    for _ in range(150 if ck.tier == "quick" else 3000):
        n = rnd.randrange(0, 5)
        p = sorted((rnd.choice(times + [rnd.uniform(0, 4)]), rnd.choice(("own", "own", "other")), rnd.choice(("read", "resp", "write")), rnd.choice(("in", "in", "out"))) for _ in range(n))
        plans.append((p, rnd.choice([None, None, 1.0, 1.5, 2.999, 3.0, rnd.uniform(0.5, 3.5)]), rnd.random() < 0.3))
    traces = [session(ck.seed, *p) for p in plans]
    res = tlc.batch(ck, "core/ValueReader_Trace", traces, min_per_shard=60)
    for idx, info in sorted(res.bad.items()):
        t = traces[idx]
        l = info if isinstance(info, int) else 0
        evn = t[l - 1] if 0 < l <= len(t) else None
        ck.violation({"plan": [list(x) for x in plans[idx][0]], "cancel_at": plans[idx][1], "rejected": {k: v for k, v in (evn or {}).items() if k != "t"}},
                     f"value reader trace rejected at event {l}: {evn}; plan {plans[idx]}; trace {t}", {"plan": plans[idx], "trace": t})
    muts = []
    for i, t in enumerate(traces):
        if i in res.bad or len(muts) >= 40:
            continue
        for k, e in enumerate(t):
            if e["ev"] == "ret" and e["res"] == 0:
                muts.append(t[:k] + [dict(e, t=e["t"] - 500)] + t[k + 1:])       # gave up early
                break
            if e["ev"] == "ret" and e["res"] != 0:
                muts.append(t[:k] + [dict(e, res=e["res"] + 1)] + t[k + 1:])      # somebody else's telegram
                muts.append(t[:k] + [dict(e, cbs=1)] + t[k + 1:])                 # callback left behind
                break
    r2 = tlc.batch(ck, "core/ValueReader_Trace", muts)
    if not muts or len(r2.bad) != len(muts):
        raise MachineryError(f"binding self-test: {len(muts) - len(r2.bad)} of {len(muts)} corrupted traces accepted")
    ck.add(traces_validated_against_impl=res.accepted, trace_events=sum(len(t) for t in traces), sessions=len(plans), answered=sum(1 for t in traces for e in t if e["ev"] == "ret" and e["res"]),
           timeouts=sum(1 for t in traces for e in t if e["ev"] == "ret" and not e["res"]), cancelled=sum(1 for t in traces for e in t if e["ev"] == "cancelled"), selftest_corrupted_rejected=len(muts))
    ck.sample({"plan": plans[5], "trace": traces[5]})


def replay(ck, path):
    import json

    d = json.loads(open(path).read())["replay"]
    print(session(ck.seed, [tuple(x) for x in d["plan"][0]], d["plan"][1], d["plan"][2]))
    return 1
