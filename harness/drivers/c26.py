"""C26 - heartbeat gives up exactly after four consecutive failures.

spec : spec/io/Heartbeat.tla (+ Heartbeat_MC: every outcome sequence up to length 9 with two response delays),
       spec/io/Heartbeat_Trace.tla (trace validation)
code : real xknx.io.data_connection.ConnectionHeartbeat under the virtual loop, outcome sequences fed through the
       send_connectionstate callable; real UDPTunnel against the simulated gateway for end-to-end schedules.
"""
from __future__ import annotations

import asyncio
import itertools
import random

from .. import tlc
from ..core import MachineryError
from ..vloop import ms, virtual_world

OUT = ("ok", "fail", "none", "raise", "gone")


def run_seq(seq, seed=0):
    from xknx.exceptions import CommunicationError
    from xknx.io.const import HEARTBEAT_RATE
    from xknx.io.data_connection import ConnectionHeartbeat

    trace = []
    with virtual_world(seed) as loop:
        it = iter(seq)
        lost = []

        after = []          # requests sent after stop()

        async def send():
            t = ms(loop.time())
            if after:
                after.append(t)
                return True, None
            try:
                o = next(it)
            except StopIteration:
                trace.append({"ev": "pending", "t": t})
                await asyncio.sleep(10**7)
                return True, None
            if o == "none":
                trace.append({"ev": "req", "t": t, "out": o, "dur": 10000})
                await asyncio.sleep(10)
                return False, None
            dur = 250 if o in ("ok", "fail") else 0
            trace.append({"ev": "req", "t": t, "out": o, "dur": dur})
            if dur:
                await asyncio.sleep(dur / 1000)
            if o == "ok":
                return True, None
            if o == "fail":
                return False, "E_CONNECTION_ID"
            if o == "raise":
                raise CommunicationError("transport gone")
            return None

        async def onfail():
            lost.append(1)
            trace.append({"ev": "lost", "t": ms(loop.time())})

        # every second sequence: the heartbeat of another connection of the same process runs alongside (failing, recovering, failing
        # for good); it is not observed
        seq2 = iter(["ok", "fail", "none", "ok", "fail", "fail", "fail", "fail", "ok", "none", "none", "none", "none"]) if len(seq) % 2 else None

        async def send2():
            o = next(seq2, "ok")
            if o == "none":
                await asyncio.sleep(10)
                return False, None
            return (True, None) if o == "ok" else (False, "E_CONNECTION_ID")

        async def onfail2():
            hb2.stop()

        async def main():
            hb = ConnectionHeartbeat("t", send, onfail)
            trace.append({"ev": "start", "t": ms(loop.time()), "rate": ms(HEARTBEAT_RATE)})
            if seq2 is not None:
                hb2.start()
                await asyncio.sleep(0)
            if len(seq) % 3 == 0:       # every third sequence: the heartbeat is started twice in a row (a reconnect right after the connect)
                hb.start()
            hb.start()
            await asyncio.sleep(HEARTBEAT_RATE * (len(seq) + 2) + 100)
            alive = hb._task is not None and not hb._task.done()
            trace.append({"ev": "end", "alive": 1 if alive else 0, "lost": len(lost)})
            hb.stop()
            hb2.stop()
            after.append(-1)            # from now on a request is one too many
            await asyncio.sleep(HEARTBEAT_RATE * 3 + 50)
            trace.append({"ev": "afterstop", "n": len(after) - 1})

        hb2 = ConnectionHeartbeat("u", send2, onfail2)

        loop.run_until_complete(main())
    return trace


def run_tunnel(plan, seed=0):
    """end to end: real UDPTunnel heartbeat against the simulated gateway (plan of ok / fail / none reactions)"""
    from xknx.io.const import HEARTBEAT_RATE

    from ..sim.gateway import GatewaySim

    trace = []
    with virtual_world(seed) as loop:
        sim = GatewaySim(loop, "udp", auto_reconnect=False, hb_plan=list(plan) + ["none"] * 8)

        async def main():
            await sim.tun.connect()
            trace.append({"ev": "start", "t": ms(loop.time()), "rate": ms(HEARTBEAT_RATE)})
            await asyncio.sleep(HEARTBEAT_RATE * (len(plan) + 2) + 200)
            sim.quiesce()

        loop.run_until_complete(main())
        reqs = [e for e in sim.ev if e["ev"] == "tx" and e["kind"] == "ConnectionStateRequest"]
        for i, e in enumerate(reqs):
            o = plan[i] if i < len(plan) else "none"
            nxt = reqs[i + 1]["t"] if i + 1 < len(reqs) else None
            dur = 0 if o in ("ok", "fail") else 10000
            trace.append({"ev": "req", "t": e["t"], "out": o, "dur": dur})
        nlost = sum(1 for e in sim.ev if e["ev"] == "state_cb" and e["cb"] == "a" and e["state"] == "DISCONNECTED")
        for _ in range(nlost):
            trace.append({"ev": "lost", "t": 0})
        trace.append({"ev": "end", "alive": 0, "lost": nlost})
    return trace


def run(ck):
    rnd = random.Random(ck.seed)
    m = tlc.mc(ck, "io/Heartbeat_MC", require_actions=False)
    seqs = []
    maxlen = 4 if ck.tier == "quick" else 6
    for n in range(1, maxlen + 1):
        seqs += list(itertools.product(OUT, repeat=n))
    for _ in range(150 if ck.tier == "quick" else 3000):
        n = rnd.choice([8, 12, 12, 16])
        seqs.append(tuple(rnd.choices(OUT, weights=[5, 4, 3, 0.3, 0.3], k=n)))
    traces = [run_seq(s, ck.seed) for s in seqs]
    meta = [("heartbeat", s) for s in seqs]
    plans = [p for n in range(1, 6) for p in itertools.product(("ok", "fail", "none"), repeat=n)]
    if ck.tier == "quick":
        plans = rnd.sample(plans, 60)
    for p in plans:
        traces.append(run_tunnel(p, ck.seed))
        meta.append(("tunnel", p))
    res = tlc.batch(ck, "io/Heartbeat_Trace", traces)
    for idx, info in sorted(res.bad.items()):
        kind, s = meta[idx]
        t = traces[idx]
        l = info if isinstance(info, int) else 0
        ev = t[l - 1] if 0 < l <= len(t) else None
        ck.violation({"target": kind, "outcomes": list(s)}, f"{kind}: heartbeat trace for outcomes {list(s)} rejected at event {l}: {ev}",
                     {"target": kind, "outcomes": list(s), "trace": t, "rejected_at": l})
    # binding self-test
    muts = []
    for t in [t for i, t in enumerate(traces) if i not in res.bad]:
        if any(e["ev"] == "lost" for e in t) and len(muts) < 60:
            muts.append([e for e in t if e["ev"] != "lost"])
            b = [dict(e) for e in t]
            k = max(i for i, e in enumerate(b) if e["ev"] == "req")
            if b[k]["out"] in ("fail", "none"):
                b[k]["out"] = "ok"
                muts.append(b)
        reqs = [i for i, e in enumerate(t) if e["ev"] == "req"]
        if len(reqs) >= 2 and len(muts) < 120:
            c = [dict(e) for e in t]
            c[reqs[1]]["t"] += 1000
            muts.append(c)
    r2 = tlc.batch(ck, "io/Heartbeat_Trace", muts)
    if len(r2.bad) != len(muts):
        raise MachineryError(f"binding self-test: {len(muts) - len(r2.bad)} corrupted heartbeat traces accepted")
    ck.add(traces_validated_against_impl=res.accepted, trace_events=sum(len(t) for t in traces),
           selftest_corrupted_rejected=len(muts), exhaustive_up_to_length=maxlen, tunnel_end_to_end=len(plans))
    ck.sample({"outcomes": list(seqs[37]), "trace": traces[37]})
    ck.sample({"target": "tunnel", "plan": list(meta[-1][1]), "trace": traces[-1]})


def replay(ck, path):
    import json

    d = json.loads(open(path).read())["replay"]
    t = run_seq(d["outcomes"], ck.seed) if d["target"] == "heartbeat" else run_tunnel(d["outcomes"], ck.seed)
    res = tlc.batch(ck, "io/Heartbeat_Trace", [t])
    print("trace:", t, "\nrejected at:", res.bad.get(0))
    return 1 if res.bad else 0
