"""C35 - the state updater reads exactly when its tracking policy says.

spec : spec/core/StateUpd.tla (when a read may / must be issued), StateUpd_Trace.tla (trace validation);
       spec/core/StateUpdModel.tla (operational model of the tracker tasks, model-checked; its deviation configuration -
       read slot freed when the tracker is cancelled - must give more than two reads in progress)
code : started XKNX with the real StateUpdater, devices with init / expire / every trackers, a bus that answers reads after
       a delay or not at all; histories of connection loss and return (gaps from 50 ms to minutes), state telegrams,
       device registration and removal under virtual time.  A read is in progress from the moment its GroupValueRead is
       queued until RemoteValue.read_state returns.
"""
from __future__ import annotations

import asyncio
import random
from unittest.mock import AsyncMock, Mock, patch

from .. import tlc
from ..core import MachineryError
from ..vloop import ms, virtual_world

OPTS = [("init", 60000, "init"), ("expire", 60000, "expire 1"), ("expire", 120000, "expire 2"), ("every", 60000, "every 1"),
        ("every", 120000, "every 2"), ("expire", 3600000, True),
        # a number is an expiry in minutes (at least one; 0 is falsy: no tracking at all); True is the default (expire 60)
        ("expire", 60000, 1), ("expire", 60000, 1.0), ("expire", 120000, 2), ("expire", 60000, 0.5), ("expire", 90000, 1.5)]


def run_hist(seed, long=False):
    from xknx import XKNX
    from xknx.core import ValueReader, XknxConnectionState
    from xknx.devices import Switch
    from xknx.dpt import DPTBinary
    from xknx.telegram import GroupAddress, Telegram, TelegramDirection
    from xknx.telegram.apci import GroupValueRead, GroupValueResponse, GroupValueWrite

    rnd = random.Random(seed)
    ev = []
    with virtual_world(seed) as loop:
        now = lambda: ms(loop.time())

        async def main():
            m = Mock()
            m.start = AsyncMock()
            m.stop = AsyncMock()
            with patch("xknx.xknx.knx_interface_factory", return_value=m):
                xknx = XKNX(state_updater=True)
            answer_p = rnd.choice([0.0, 0.5, 0.9, 1.0])

            def bus_answer(k):
                xknx.telegrams.put_nowait(Telegram(destination_address=GroupAddress(f"1/2/{k}"), direction=TelegramDirection.INCOMING,
                                                   payload=GroupValueResponse(DPTBinary(rnd.randrange(2)))))

            async def send_cemi(cemi):
                xknx.cemi_handler._l_data_confirmation_event.set()
                tg = cemi.data.telegram()
                if isinstance(tg.payload, GroupValueRead) and rnd.random() < answer_p:
                    loop.call_later(rnd.choice([0.01, 0.05, 0.4, 1.5]), bus_answer, tg.destination_address.sub)

            m.send_cemi = send_cemi
            n = rnd.randrange(2, 7)
            devs, opts = {}, {}
            for k in range(1, n + 1):
                ty, iv, o = rnd.choice(OPTS)
                opts[k] = (ty, iv)
                devs[k] = Switch(xknx, f"s{k}", group_address=f"1/1/{k}", group_address_state=f"1/2/{k}", sync_state=o)
            rvid = {id(d.switch): k for k, d in devs.items()}
            registered = set()
            orig_read = ValueReader.read

            async def read(self):
                k = self.group_address.sub
                ev.append({"ev": "read_start", "rv": k, "t": now()})
                try:
                    return await orig_read(self)
                finally:
                    ev.append({"ev": "read_end", "rv": k, "t": now()})

            # a state update = a GroupValueWrite / GroupValueResponse for one of the value's addresses reaching its device
            # (observed at the telegram queue, independently of how the value itself notifies the updater)
            def tg_cb(tg):
                if isinstance(tg.payload, (GroupValueWrite, GroupValueResponse)) and isinstance(tg.destination_address, GroupAddress) \
                        and tg.destination_address.main == 1 and tg.destination_address.middle in (1, 2) and tg.destination_address.sub in registered:
                    ev.append({"ev": "update", "rv": tg.destination_address.sub, "t": now()})

            xknx.telegram_queue.register_telegram_received_cb(tg_cb, match_for_outgoing=True)

            def add(k):
                if k not in registered:
                    registered.add(k)
                    ev.append({"ev": "register", "rv": k, "type": opts[k][0], "iv": opts[k][1], "t": now()})
                    xknx.devices.async_add(devs[k])

            def remove(k):
                if k in registered:
                    registered.discard(k)
                    ev.append({"ev": "unregister", "rv": k, "t": now()})
                    xknx.devices.async_remove(devs[k])

            def conn(up):
                ev.append({"ev": "conn", "up": 1 if up else 0, "t": now()})
                xknx.connection_manager.connection_state_changed(
                    XknxConnectionState.CONNECTED if up else XknxConnectionState.DISCONNECTED)

            with patch.object(ValueReader, "read", read):
                for k in devs:
                    if rnd.random() < 0.8:
                        add(k)
                xknx.task_registry.start()
                await xknx.telegram_queue.start()
                xknx.state_updater.start()
                xknx.started.set()
                up = False
                steps = rnd.randrange(4, 14) if not long else rnd.randrange(10, 30)
                for _ in range(steps):
                    r = rnd.random()
                    if not up or r < 0.22:
                        up = not up
                        conn(up)
                    elif r < 0.5:
                        k = rnd.randrange(1, n + 1)      # a state telegram from the bus
                        xknx.telegrams.put_nowait(Telegram(destination_address=GroupAddress(f"1/2/{k}"), direction=TelegramDirection.INCOMING,
                                                           payload=GroupValueWrite(DPTBinary(rnd.randrange(2)))))
                    elif r < 0.6:
                        add(rnd.randrange(1, n + 1))
                    elif r < 0.68:
                        remove(rnd.randrange(1, n + 1))
                    await asyncio.sleep(rnd.choice([0.0, 0.05, 0.1, 0.1, 0.5, 1.0, 2.5, 5.0, 30.0, 59.0, 61.0, 100.0, 130.0, 200.0]))
                if not up:
                    conn(True)
                await asyncio.sleep(rnd.choice([10.0, 70.0, 130.0, 260.0]))
                ev.append({"ev": "end", "t": now()})
                xknx.state_updater.stop()
                xknx.task_registry.stop()
                await asyncio.sleep(3)
                await xknx.telegram_queue.stop()

        loop.run_until_complete(main())
    return ev


def run(ck):
    ck.assume("a read is in progress from the queueing of its GroupValueRead until read_state returns (answer or 2 s timeout)")
    ck.assume("the first read of an 'expire' value is not required when a state telegram arrived first in that connection; "
              "a due read may be delayed by up to 15 s (queueing behind other reads)")
    tlc.mc(ck, "core/StateUpdModel_MC", require_actions=False)
    dev = tlc.mc(ck, "core/StateUpdModel_MC", cfg="core/StateUpdModel_Dev", expect_error=True, record=False, coverage=False)
    ck.add(deviation_model_counterexample=("AtMostTwo" in dev.out))
    n = 500 if ck.tier == "quick" else 8000
    seeds = [ck.seed * 7919 + i for i in range(n)]
    traces = [run_hist(s, long=(i % 5 == 0)) for i, s in enumerate(seeds)]
    res = tlc.batch(ck, "core/StateUpd_Trace", traces, min_per_shard=40)
    for idx, info in sorted(res.bad.items()):
        t = traces[idx]
        l = info if isinstance(info, int) else 0
        e = t[l - 1] if 0 < l <= len(t) else None
        inprog = sum(1 for x in t[:l - 1] if x["ev"] == "read_start") - sum(1 for x in t[:l - 1] if x["ev"] == "read_end")
        conns = [x for x in t[:l] if x["ev"] == "conn"][-3:]
        ck.violation({"rejected": (e or {}).get("ev"), "in_progress_before": inprog,
                      "reconnect_gap_ms": (conns[-1]["t"] - conns[-2]["t"]) if len(conns) >= 2 and conns[-1]["up"] == 1 else None, "seed": seeds[idx]},
                     f"state updater trace rejected at event {l}: {e} ({inprog} reads in progress before); recent: {t[max(0, l - 8):l - 1]}",
                     {"seed": seeds[idx], "long": idx % 5 == 0, "trace": t, "rejected_at": l})
    muts = []
    for i, t in enumerate(traces[:400]):
        if i in res.bad:
            continue
        downs = [k for k, e in enumerate(t) if e["ev"] == "conn" and e["up"] == 0]
        rs = [k for k, e in enumerate(t) if e["ev"] == "read_start"]
        if downs and rs and len(muts) < 100:
            k = downs[0]
            nxt = next((j for j in range(k + 1, len(t)) if t[j]["ev"] == "conn"), len(t) - 1)
            if t[nxt]["t"] - t[k]["t"] >= 1000 and all(e["t"] >= t[k]["t"] + 500 for e in t[k + 1:nxt + 1]):
                a = t[:k + 1] + [{"ev": "read_start", "rv": t[rs[0]]["rv"], "t": t[k]["t"] + 500}] + t[k + 1:]   # a read while disconnected
                muts.append(a)
        rs = [k for k in rs if not any(e["ev"] in ("conn", "unregister") and abs(e["t"] - t[k]["t"]) <= 10 and (e["ev"] == "unregister" or e["up"] == 0) for e in t)]
        if len(rs) >= 1 and len(muts) < 200:
            b = [dict(e) for e in t]
            k = rs[0]
            b.insert(k + 1, {"ev": "read_start", "rv": b[k]["rv"], "t": b[k]["t"]})                       # the same value read twice at once
            b.insert(k + 2, {"ev": "read_end", "rv": b[k]["rv"], "t": b[k]["t"]})
            muts.append(b)
    r2 = tlc.batch(ck, "core/StateUpd_Trace", muts, min_per_shard=40)
    if not muts or len(r2.bad) != len(muts):
        raise MachineryError(f"binding self-test: {len(muts) - len(r2.bad)} of {len(muts)} corrupted traces accepted")
    ck.add(traces_validated_against_impl=res.accepted, trace_events=sum(len(t) for t in traces),
           reads=sum(1 for t in traces for e in t if e["ev"] == "read_start"),
           reconnections=sum(1 for t in traces for e in t if e["ev"] == "conn" and e["up"] == 1), selftest_corrupted_rejected=len(muts))
    ck.sample(traces[1][:25])


def replay(ck, path):
    import json

    d = json.loads(open(path).read())["replay"]
    t = run_hist(d["seed"], d["long"])
    res = tlc.batch(ck, "core/StateUpd_Trace", [t])
    l = res.bad.get(0)
    print("rejected at:", l, t[l - 1] if l else None)
    return 1 if res.bad else 0
