"""C46 - automatic connection never downgrades a secured gateway; the scan filter is exact.

spec : spec/io/AutoConnect.tla (scan loop choosing any allowed method; model-checked over every scan of up to two
       gateways), AutoConnect_Trace.tla (trace validation), AutoConnect_Filter.tla (filter reference)
code : real KNXIPInterface._start_automatic with the GatewayScanner replaced by a generator over real
       GatewayDescriptors built from real DIBs, the four _start_* methods stubbed (succeed / CommunicationError),
       keyring host filter through a stub keyring; real GatewayScanFilter.match.
"""
from __future__ import annotations

import asyncio
import itertools
import random
from unittest.mock import AsyncMock, patch

from .. import tlc
from ..core import MachineryError

HOST_OK, HOST_OTHER = "1.0.1", "1.0.9"


def make_gw(g):
    from xknx.io.gateway_scanner import GatewayDescriptor
    from xknx.knxip import DIBServiceFamily
    from xknx.knxip.dib import DIBSecuredServiceFamilies, DIBSuppSVCFamilies
    from xknx.telegram import IndividualAddress

    d = GatewayDescriptor(ip_addr="10.0.0.2", port=3671)
    fam = DIBSuppSVCFamilies()
    F = DIBSuppSVCFamilies.Family
    fam.families.append(F(DIBServiceFamily.CORE, g.get("core", 1)))
    if g["rout"]:
        fam.families.append(F(DIBServiceFamily.ROUTING, 1))
    if g["tun"]:
        fam.families.append(F(DIBServiceFamily.TUNNELING, g["tun"]))
    dibs = [fam]
    if g.get("secdib", 1) or g["sectun"] or g["secrout"]:
        s = DIBSecuredServiceFamilies()
        if g["sectun"]:
            s.families.append(F(DIBServiceFamily.TUNNELING, 1))
        if g["secrout"]:
            s.families.append(F(DIBServiceFamily.ROUTING, 1))
        dibs.append(s)
    d.parse_dibs(dibs)
    d.individual_address = IndividualAddress(HOST_OK if g["host"] else HOST_OTHER)
    return d


def frames_for(g, k, unknown_family=False):
    """the search responses a gateway like g sends: (plain SearchResponse, SearchResponseExtended or None for a Core-V1 device)"""
    from xknx.knxip import HPAI, DIBServiceFamily, KNXIPFrame, SearchResponse, SearchResponseExtended
    from xknx.knxip.dib import DIBDeviceInformation, DIBSecuredServiceFamilies, DIBSuppSVCFamilies
    from xknx.telegram import IndividualAddress

    F = DIBSuppSVCFamilies.Family
    info = DIBDeviceInformation()
    info.individual_address = IndividualAddress(HOST_OK if g["host"] else HOST_OTHER)
    info.name = f"gw{k}"
    info.serial_number = "00:01:02:03:04:%02x" % k
    info.mac_address = "00:01:02:03:04:%02x" % k
    fam = DIBSuppSVCFamilies()
    # every second Core-V2 device lists the Core family once per version it implements (1 and 2), lower version first
    both = (g["tun"] + g["rout"] + g["sectun"] + g["secrout"] + k) % 2 == 1
    if both and g.get("core", 1) >= 2:
        fam.families.append(F(DIBServiceFamily.CORE, 1))
    fam.families.append(F(DIBServiceFamily.CORE, g.get("core", 1)))
    if g["rout"]:
        fam.families.append(F(DIBServiceFamily.ROUTING, 1))
    if g["tun"]:
        fam.families.append(F(DIBServiceFamily.TUNNELING, g["tun"]))
    ep = HPAI(ip_addr=f"10.0.0.{2 + k}", port=3671)
    plain = SearchResponse(control_endpoint=ep)
    plain.dibs = [info, fam]
    ext = None
    if g.get("core", 1) >= 2:
        ext = SearchResponseExtended(control_endpoint=ep)
        sec = DIBSecuredServiceFamilies()
        if g["sectun"]:
            sec.families.append(F(DIBServiceFamily.TUNNELING, 1))
        if g["secrout"]:
            sec.families.append(F(DIBServiceFamily.ROUTING, 1))
        has_sec = bool(g.get("secdib", 1) or g["sectun"] or g["secrout"])
        # the order of the description blocks is up to the device: secured families before or after the supported ones, device information anywhere
        ext.dibs = [[info, fam] + ([sec] if has_sec else []), ([sec] if has_sec else []) + [fam, info], [info] + ([sec] if has_sec else []) + [fam]][(k + g["tun"] + g["rout"]) % 3]
    rt = lambda b: KNXIPFrame.from_knx(KNXIPFrame.init_from_body(b).to_knx())[0]      # as received from the wire
    if unknown_family and ext is not None:
        # the device lists a service family this library does not know (id 0x0A) in front of the secured ones: whatever the parser makes of
        # the answer, the services listed after it stay secured (an answer that cannot be read is as good as lost)
        raw = bytearray(KNXIPFrame.init_from_body(ext).to_knx())
        dibs, pos = {}, 6 + 8
        while pos < len(raw):
            dibs[raw[pos + 1]] = pos
            pos += raw[pos]
        pos = dibs.get(0x06, dibs.get(0x02))            # the secured service families, else the supported ones
        raw[pos + 2:pos + 2] = bytes([0x0A, 0x01])
        raw[pos] += 2
        raw[4], raw[5] = len(raw) >> 8, len(raw) & 0xFF
        try:
            ext_fr = KNXIPFrame.from_knx(bytes(raw))[0]
        except Exception:  # noqa: BLE001 - not readable: lost
            ext_fr = None
        return rt(plain), ext_fr, ep
    return rt(plain), (rt(ext) if ext is not None else None), ep


class FakeKeyring:
    """keyring whose only tunnelling interface is hosted by HOST_OK"""

    def __init__(self):
        from xknx.secure.keyring import InterfaceType
        from xknx.telegram import IndividualAddress

        class I:  # noqa: E742
            host = IndividualAddress(HOST_OK)
            type = InterfaceType.TUNNELING

        self.interfaces = [I()]

    def get_tunnel_host_by_interface(self, tunnelling_slot):
        from xknx.telegram import IndividualAddress

        return IndividualAddress(HOST_OK)


def run_scan(gws, fails, use_keyring, via_scanner=None, flt=None):
    """gws: list of gateway dicts; fails: set of (index) whose connection attempt raises CommunicationError
    via_scanner: None - the scan yields descriptors built from DIBs; otherwise the search responses of each gateway are fed to the real
    GatewayScanner callback in the order given: "ext_first" | "plain_first" | "ext_lost" (only the plain answer of a Core-V2 device arrives)"""
    from xknx import XKNX
    from xknx.exceptions import CommunicationError
    from xknx.io import ConnectionConfig
    from xknx.io.knxip_interface import KNXIPInterface

    ev = []
    descs = [make_gw(g) for g in gws]
    cur = {"k": -1}

    async def scan(self):
        if via_scanner is None:
            for k, d in enumerate(descs):
                cur["k"] = k
                yield d
            return
        from unittest.mock import Mock  # noqa: PLC0415

        q = asyncio.Queue()
        tr = Mock()
        tr.local_addr = ("10.0.0.1", 0)
        for k, g in enumerate(gws):
            plain, ext, ep = frames_for(g, k, unknown_family=(via_scanner == "ext_unknown"))
            if via_scanner == "ext_unknown":      # (Core-V1 devices have no extended answer)
                order = [plain] if ext is None else [ext, plain]
            else:
                order = [plain] if ext is None else {"ext_first": [ext, plain], "plain_first": [plain, ext], "ext_lost": [plain]}[via_scanner]
            for fr in order:
                self._response_rec_callback(fr, ep, tr, interface="eth0", queue=q)
            while not q.empty():
                cur["k"] = k
                yield q.get_nowait()

    def stub(m):
        async def f(*a, **kw):
            ok = cur["k"] not in fails
            ev.append({"ev": "try", "m": m, "ok": 1 if ok else 0})
            if not ok:
                raise CommunicationError("refused")
        return f

    async def main():
        from xknx.io import GatewayScanFilter  # noqa: PLC0415

        xknx = XKNX(connection_config=ConnectionConfig(scan_filter=GatewayScanFilter(**flt)) if flt else ConnectionConfig())
        iface = xknx.knxip_interface
        with patch("xknx.io.knxip_interface.GatewayScanner.async_scan", scan), \
                patch.object(KNXIPInterface, "_start_secure_tunnelling_tcp", AsyncMock(side_effect=stub("secure_tcp"))), \
                patch.object(KNXIPInterface, "_start_tunnelling_tcp", AsyncMock(side_effect=stub("tcp"))), \
                patch.object(KNXIPInterface, "_start_tunnelling_udp", AsyncMock(side_effect=stub("udp"))), \
                patch.object(KNXIPInterface, "_start_routing", AsyncMock(side_effect=stub("routing"))):
            try:
                await iface._start_automatic(local_ip="10.0.0.1", keyring=FakeKeyring() if use_keyring else None)
                ev.append({"ev": "end", "res": "ok"})
            except CommunicationError:
                ev.append({"ev": "end", "res": "commerr"})

    loop = asyncio.new_event_loop()
    try:
        loop.run_until_complete(main())
    finally:
        loop.close()
    rec = [{"rout": int(g["rout"]), "tun": g["tun"], "sectun": int(g["sectun"]), "secrout": int(g["secrout"]),
            "host": int(g["host"]) if use_keyring else 1} for g in gws]
    if via_scanner is not None:
        # what a scanner may report: a Core-V2 device only through its extended answer (the plain one cannot say what is secured),
        # a Core-V1 device through its plain answer - which cannot announce secured services
        rec = [r for r, g in zip(rec, gws) if not (g.get("core", 1) >= 2 and via_scanner in ("ext_lost", "ext_unknown"))]
    if via_scanner is not None:              # the scan filter (default or configured): only matching gateways are reported (the filter itself is judged separately)
        from xknx.io import GatewayScanFilter  # noqa: PLC0415

        f = GatewayScanFilter(**(flt or {}))
        keep = [bool(f.match(make_gw(g))) for g in gws if not (via_scanner in ("ext_lost", "ext_unknown") and g.get("core", 1) >= 2)]
        rec = [r for r, k_ in zip(rec, keep) if k_]
    return {"t": "scan", "gws": rec, "ev": ev}


def all_gws(hosts=(True,)):
    out = []
    for rout, tun, sectun, secrout, host, core, secdib in itertools.product([0, 1], [0, 1, 2], [0, 1], [0, 1], hosts, [1, 2], [0, 1]):
        out.append(dict(rout=rout, tun=tun, sectun=sectun, secrout=secrout, host=host, core=core, secdib=secdib))
    return out


def run(ck):
    from xknx.io import GatewayScanFilter

    rnd = random.Random(ck.seed)
    tlc.mc(ck, "io/AutoConnect_MC", require_actions=False)
    # --- scans
    scans = []
    single = all_gws()
    for g in single:
        for fail in (set(), {0}):
            scans.append(([g], fail, False))
    pool = all_gws(hosts=(True, False))
    n2 = 600 if ck.tier == "quick" else 6000
    for _ in range(n2):
        k = rnd.choice([2, 2, 3])
        gws = [rnd.choice(pool) for _ in range(k)]
        fails = {j for j in range(k) if rnd.random() < 0.5}
        scans.append((gws, fails, rnd.random() < 0.6))
    # ... and discovered through the real scanner callback from search responses (both answers of a Core-V2 device in either order, the
    # extended one lost), with the default scan filter and with filters that exclude the secure methods
    def expressible(g):
        return g["core"] >= 2 or not (g["sectun"] or g["secrout"])

    FILTERS = [None, {"secure_tunnelling": False, "secure_routing": False}, {"tunnelling": False, "tunnelling_tcp": False, "routing": False},
               {"secure_tunnelling": False}, {"tunnelling_tcp": False, "secure_routing": False}]
    for g in [g for g in single if expressible(g)]:
        for mode in ("ext_first", "plain_first", "ext_lost", "ext_unknown"):
            for flt in FILTERS:
                if flt is None or ck.tier != "quick" or rnd.random() < 0.5:
                    scans.append(([g], set(), False, mode, flt))
                    if rnd.random() < 0.3:
                        scans.append(([g], {0}, False, mode, flt))
    pool2 = [g for g in pool if expressible(g)]
    for _ in range(300 if ck.tier == "quick" else 4000):
        k = rnd.choice([2, 2, 3])
        gws = [rnd.choice(pool2) for _ in range(k)]
        scans.append((gws, {j for j in range(k) if rnd.random() < 0.5}, rnd.random() < 0.5, rnd.choice(("ext_first", "plain_first", "ext_lost", "ext_unknown")), rnd.choice(FILTERS)))
    traces = [run_scan(*s) for s in scans]
    res = tlc.batch(ck, "io/AutoConnect_Trace", traces)
    for idx, info in sorted(res.bad.items()):
        gws, fails, kr = scans[idx][:3]
        t = traces[idx]
        ck.violation({"gws": t["gws"], "ev": t["ev"]},
                     f"automatic connection not allowed by AutoConnect (event {info}): gateways={t['gws']} events={t['ev']}",
                     {"kind": "scan", "gws": gws, "fails": sorted(fails), "keyring": kr, "via_scanner": scans[idx][3] if len(scans[idx]) > 3 else None,
                      "filter": scans[idx][4] if len(scans[idx]) > 4 else None, "trace": t})
    # --- filter exactness
    fcases = []
    for g in single:
        d = make_gw(g)
        for fl in itertools.product([False, True], repeat=5):
            f = GatewayScanFilter(tunnelling=fl[0], tunnelling_tcp=fl[1], routing=fl[2], secure_tunnelling=fl[3], secure_routing=fl[4])
            fcases.append({"f": dict(zip(("tun", "tcp", "rout", "sectun", "secrout"), map(int, fl))),
                           "g": {"rout": g["rout"], "tun": g["tun"], "sectun": g["sectun"], "secrout": g["secrout"]},
                           "core": g["core"], "secdib": g["secdib"], "res": int(bool(f.match(d)))})
    r3 = tlc.judge(ck, "io/AutoConnect_Filter", fcases, key=lambda c: {"filter": c["f"], "g": c["g"], "res": c["res"]},
                   what=lambda c: f"GatewayScanFilter.match disagrees with FilterMatch: {c}")
    # --- binding self-test
    muts = []
    for t in [t for i, t in enumerate(traces) if i not in res.bad]:
        for k, e in enumerate(t["ev"]):
            if e["ev"] == "try" and e["m"] == "secure_tcp" and len(muts) < 40:
                a = {"t": "scan", "gws": t["gws"], "ev": [dict(x) for x in t["ev"]]}
                a["ev"][k]["m"] = "tcp"
                muts.append(a)
                break
        if t["ev"][-1]["res"] == "commerr" and len(t["ev"]) > 1 and len(muts) < 80:
            muts.append({"t": "scan", "gws": t["gws"], "ev": t["ev"][:-1] + [{"ev": "end", "res": "ok"}]})
    r2 = tlc.batch(ck, "io/AutoConnect_Trace", muts)
    fm = [dict(c, res=1 - c["res"]) for c in fcases[:50]]
    r4 = tlc.batch(ck, "io/AutoConnect_Filter", fm)
    if len(r2.bad) != len(muts) or len(r4.bad) != len(fm) or not muts:
        raise MachineryError("binding self-test: corrupted C46 records accepted")
    tried = {(tuple(sorted(g.items())), e["m"]) for t in traces for g in t["gws"][:1] for e in t["ev"] if e["ev"] == "try"}
    ck.add(traces_validated_against_impl=res.accepted, scans=len(scans), filter_cases=len(fcases),
           distinct_nontrivial=len(tried), selftest_corrupted_rejected=len(muts) + len(fm),
           rule="scans: every single gateway (capabilities x secured families x core version x secured-DIB present) with success and "
                "failure, random scans of 2-3 gateways with failures and keyring host filter; filter: all 32 flag sets x all gateways")
    ck.sample(traces[5])
    ck.sample(traces[-1])
    ck.sample(fcases[77])


def replay(ck, path):
    import json

    d = json.loads(open(path).read())["replay"]
    if d.get("kind") == "scan":
        t = run_scan(d["gws"], set(d["fails"]), d["keyring"])
        res = tlc.batch(ck, "io/AutoConnect_Trace", [t])
        print("trace:", t, "\nrejected:", res.bad)
        return 1 if res.bad else 0
    print(d)
    return 1
