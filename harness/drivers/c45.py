"""C45 - MCP tools return JSON-native results and invert each other.

spec : spec/codec/Mcp.tla: the paging protocol of list_dpts (model-checked: every N <= 7, every limit; the deviation "an empty page announces
       a next page" never terminates), laws PagesOk / JsonOk / InverseOk judged per recorded session (Mcp_Judge.tla)
code : the real xknx.mcp.tools: list_dpts followed page by page for every main-number filter, text filters and page sizes; describe_dpt,
       get_connection_status, read_group_value, send_group_value_read / write, encode_dpt_payload / decode_dpt_payload for every DPT
       over its decode image (payload plan of C07 / C10).
"""
from __future__ import annotations

import asyncio
import dataclasses
import json
import math
import random

from .. import tlc
from ..core import MachineryError
from .c07 import classes, payloads


def jsonable(result):
    """json.dumps(dataclasses.asdict(result)) with the standard encoder, and it loads back to the same structure"""
    try:
        d = dataclasses.asdict(result)
        s = json.dumps(d)
        back = json.loads(s)
    except (TypeError, ValueError) as ex:
        return 0, f"{type(ex).__name__}: {ex}"

    def same(a, b):
        if isinstance(a, float) and isinstance(b, float) and math.isnan(a) and math.isnan(b):
            return True
        if isinstance(a, dict) and isinstance(b, dict):
            return a.keys() == b.keys() and all(same(a[k], b[k]) for k in a)
        if isinstance(a, (list, tuple)) and isinstance(b, list):
            return len(a) == len(b) and all(same(x, y) for x, y in zip(a, b))
        return a == b and (type(a) is type(b) or isinstance(a, (int, float)) and isinstance(b, (int, float)))

    return (1, "") if same(d, back) else (0, "loads back differently")


def run(ck):
    from unittest.mock import AsyncMock, Mock, patch

    from xknx import XKNX
    from xknx.dpt import DPTArray, DPTBase, DPTComplex, DPTEnum
    from xknx.exceptions import ConversionError
    from xknx.mcp import tools
    from xknx.mcp.types import DecodeDptPayloadInput, DptFilter, EncodeDptPayloadInput, GroupAddressInput, GroupValueReadInput, GroupValueWriteInput

    rnd = random.Random(ck.seed)
    tlc.mc(ck, "codec/Mcp_MC", "codec/Mcp_MC", require_actions=False)
    dev = tlc.mc(ck, "codec/Mcp_MC", "codec/Mcp_Dev", expect_error=True, record=False, coverage=False)
    ck.add(deviation_model_counterexample="violated" in dev.error)
    loop = asyncio.new_event_loop()
    asyncio.set_event_loop(loop)

    def go(coro):
        """the tools are coroutines that (except read_group_value) never suspend: run them without the event loop"""
        try:
            coro.send(None)
        except StopIteration as stop:
            return stop.value
        coro.close()
        raise MachineryError("tool suspended")
    recs, ex = [], []
    try:
        # ---- (a) paging
        mains = sorted({c.dpt_main_number for c in DPTBase.dpt_class_tree()})
        texts = [None, "", "a", "temp", "TEMP", "9.0", "°c", "percent", "1.", ".001", "zz-no-match", "%", "\n", "m/s", "Ä"]
        limits = [1, 2, 3, 7, 50, 100, 104, 200, 229, 230, 231, 250, -1, -5, 0] if ck.tier == "quick" else list(range(-2, 260))
        combos = [(m, None) for m in [None] + mains] + [(None, t) for t in texts] + [(9, "temp"), (14, "a"), (1, "zz")]
        for main, text in combos:
            ref = go(tools.list_dpts(DptFilter(main=main, text=text, limit=-1)))
            order = {id_: i + 1 for i, id_ in enumerate((s.dpt, s.value_type) for s in ref.dpts)}
            if len(order) != len(ref.dpts):
                raise MachineryError("listing has entries that cannot be told apart")
            for lim in (limits if (main is None or ck.tier != "quick") else [1, 3, 200, 0, -1]):
                pages, off, ended = [], 0, 0
                for _ in range(400):
                    r = go(tools.list_dpts(DptFilter(main=main, text=text, limit=lim, offset=off)))
                    ok, why = jsonable(r)
                    recs.append({"t": "json", "tool": "list_dpts", "ok": ok})
                    ex.append(f"list_dpts(main={main}, text={text!r}, limit={lim}, offset={off}) {why}")
                    pages.append({"off": off, "n": len(r.dpts), "next": -1 if r.next_offset is None else r.next_offset, "reached": 1 if r.limit_reached else 0,
                                  "total": r.total_count, "idx": [order.get((s.dpt, s.value_type), 0) for s in r.dpts]})
                    if r.next_offset is None:
                        ended = 1
                        break
                    off = r.next_offset
                recs.append({"t": "pages", "limit": lim, "total": len(ref.dpts), "ended": ended, "pages": pages})
                ex.append(f"list_dpts(main={main}, text={text!r}) paged with limit {lim}: {len(pages)} page(s), ended={ended}")
        # ---- (a') filters given together: the listing is the intersection of the two listings
        full = go(tools.list_dpts(DptFilter(limit=-1)))
        pos = {(s_.dpt, s_.value_type): i + 1 for i, s_ in enumerate(full.dpts)}

        def listing(**kw):
            return [pos.get((s_.dpt, s_.value_type), 0) for s_ in go(tools.list_dpts(DptFilter(limit=-1, **kw))).dpts]
        for main in mains if ck.tier != "quick" else mains[::3] + [1, 5, 9, 14, 20]:
            for text in texts[2:]:
                recs.append({"t": "conj", "both": listing(main=main, text=text), "a": listing(main=main), "b": listing(text=text)})
                ex.append(f"list_dpts(main={main}, text={text!r}) against list_dpts(main={main}) and list_dpts(text={text!r})")
        # ---- (b) single results
        m = Mock()
        m.start = AsyncMock()
        m.stop = AsyncMock()
        with patch("xknx.xknx.knx_interface_factory", return_value=m):
            xknx = XKNX()
        for name in [c.dpt_number_str() for c in classes()] + [c.value_type for c in classes() if c.value_type] + ["nope", "", "9", "9.999", "1"]:
            r = go(tools.describe_dpt(name))
            ok, why = jsonable(r)
            recs.append({"t": "json", "tool": "describe_dpt", "ok": ok})
            ex.append(f"describe_dpt({name!r}) {why}")
        for tool, r in (("get_connection_status", go(tools.get_connection_status(xknx))), ("send_group_value_read", go(tools.send_group_value_read(xknx, GroupAddressInput("1/2/3")))),
                        ("send_group_value_write", go(tools.send_group_value_write(xknx, GroupValueWriteInput("1/2/3", 21.5, "temperature")))),
                        ("send_group_value_write", go(tools.send_group_value_write(xknx, GroupValueWriteInput("1/2/3", [1, 2], None))))):
            ok, why = jsonable(r)
            recs.append({"t": "json", "tool": tool, "ok": ok})
            ex.append(f"{tool} {why}")
        # read_group_value with a bus answer for every kind of decoded value
        from xknx.tools import group_communication  # noqa: PLC0415

        # ---- encode / decode over the decode image
        agg = {}
        n = 0
        for cls in classes():
            vt = cls.dpt_number_str() if cls.dpt_sub_number is not None else (cls.value_type or cls.dpt_number_str())
            if DPTBase.get_dpt(vt) is not cls:
                vt = cls.value_type
            plan = list(payloads(cls, "quick", rnd, accepted_only=True))
            cap = (400 if issubclass(cls, (DPTComplex, DPTEnum)) else 100) * (1 if ck.tier == "quick" else 12)
            if len(plan) > cap:                  # the deep payload plan is C07-C10's; here the tools are bound to it by a sample
                plan = plan[:64] + rnd.sample(plan[64:], cap - 64)
            for p in plan:
                raw = list(p.value) if isinstance(p, DPTArray) else int(p.value)
                try:
                    d1 = go(tools.decode_dpt_payload(DecodeDptPayloadInput(payload=raw, value_type=vt)))
                except ConversionError:
                    continue
                except Exception as exn:  # noqa: BLE001
                    from xknx.exceptions import CouldNotParseTelegram  # noqa: PLC0415

                    if isinstance(exn, CouldNotParseTelegram):      # a payload of the wrong length is not in the plan (declared shape only)
                        continue
                    # the datapoint class itself accepts this payload (the plan holds accepted payloads only): the tool must decode it
                    r = {"t": "inv", "cls": cls.__name__, "out": "raised:" + type(exn).__name__, "same": 0, "json": 1}
                    k = json.dumps(r, sort_keys=True)
                    agg.setdefault(k, [r, 0, f"{cls.__name__} ({vt}) payload {raw if isinstance(raw, int) else bytes(raw).hex()} -> decode_dpt_payload raised {type(exn).__name__}: {str(exn)[:120]}"])
                    agg[k][1] += 1
                    continue
                n += 1
                ok, why = jsonable(d1)
                r = {"t": "inv", "cls": cls.__name__, "out": "ok", "same": 0, "json": ok}
                note = why
                if not ok:
                    r["out"] = "nojson"
                else:
                    try:
                        value = json.loads(json.dumps(d1.value))
                        e1 = go(tools.encode_dpt_payload(EncodeDptPayloadInput(value=value, value_type=vt)))
                        ok2, why2 = jsonable(e1)
                        d2 = go(tools.decode_dpt_payload(DecodeDptPayloadInput(payload=e1.payload, value_type=vt)))
                        # text types: octets outside the character set decode to U+FFFD, whose nearest representable form is '?' (documented)
                        v1 = d1.value.replace("\ufffd", "?") if isinstance(d1.value, str) else d1.value
                        a, b = json.dumps(v1, sort_keys=True), json.dumps(d2.value, sort_keys=True)
                        r["same"] = 1 if a == b and ok2 else 0
                        note = "" if r["same"] else f"decoded again as {b[:120]} {why2}"
                        if r["same"] and isinstance(value, dict) and len(value) > 1:
                            # a JSON object has no order: the same members listed the other way round encode to the same payload
                            e3 = go(tools.encode_dpt_payload(EncodeDptPayloadInput(value=dict(reversed(list(value.items()))), value_type=vt)))
                            if e3.payload != e1.payload:
                                r["same"], note = 0, f"with its members in reverse order it encodes to {e3.payload} instead of {e1.payload}"
                    except ConversionError as exn:
                        r["out"], note = "encrefused", str(exn)[:150]
                    except Exception as exn:  # noqa: BLE001
                        r["out"], note = "raised:" + type(exn).__name__, str(exn)[:150]
                k = json.dumps(r, sort_keys=True)
                if k not in agg:
                    agg[k] = [r, 0, f"{cls.__name__} ({vt}) payload {raw if isinstance(raw, int) else bytes(raw).hex()} -> {json.dumps(d1.value)[:140]} {note}"]
                agg[k][1] += 1
        for r, cnt, e in agg.values():
            recs.append(dict(r, count=cnt))
            ex.append(e)
    finally:
        loop.close()
        asyncio.set_event_loop(None)
    # identical json records collapse
    uniq, uex = [], []
    seen = set()
    for r, e in zip(recs, ex):
        k = json.dumps(r, sort_keys=True) if r["t"] != "pages" else None
        if k is not None and k in seen:
            continue
        if k:
            seen.add(k)
        uniq.append(r)
        uex.append(e)
    res = tlc.batch(ck, "codec/Mcp_Judge", uniq, min_per_shard=300)
    for idx in sorted(res.bad):
        r = uniq[idx]
        key = {k: v for k, v in r.items() if k in ("t", "tool", "cls", "out", "same", "limit", "ended")}
        if r["t"] == "pages":
            key["pages"] = min(len(r["pages"]), 5)
            key["call"] = uex[idx].split(" paged")[0] if r["limit"] != 0 else "list_dpts(*)"
        ck.violation(key, f"MCP tools: {uex[idx]} -> {json.dumps({k: v for k, v in r.items() if k != 'pages'})}" + (f" first pages {r['pages'][:2]}" if r["t"] == "pages" else ""),
                     {"record": r if r["t"] != "pages" else dict(r, pages=r["pages"][:5]), "example": uex[idx]})
    pg = [r for r in uniq if r["t"] == "pages" and r["ended"] == 1 and len(r["pages"]) >= 2]
    muts = [dict(r, pages=r["pages"][:-1]) for r in pg[:10]] + [dict(r, pages=[dict(r["pages"][0], idx=r["pages"][0]["idx"][::-1])] + r["pages"][1:]) for r in pg[:10] if r["pages"][0]["n"] >= 2] + \
           [dict(r, pages=[r["pages"][0], r["pages"][0]] + r["pages"][1:]) for r in pg[:5]] + [dict(r, same=0) for r in uniq if r["t"] == "inv" and r["same"] == 1][:10] + \
           [dict(r, ok=0) for r in uniq if r["t"] == "json"][:5]
    r2 = tlc.batch(ck, "codec/Mcp_Judge", muts)
    if not muts or len(r2.bad) != len(muts):
        raise MachineryError(f"binding self-test: {len(muts) - len(r2.bad)} of {len(muts)} corrupted cases accepted")
    ck.add(evaluations=len(recs) + n, paging_sessions=sum(1 for r in recs if r["t"] == "pages"), pages=sum(len(r["pages"]) for r in recs if r["t"] == "pages"),
           inverse_sessions=n, distinct_nontrivial=len(uniq), selftest_corrupted_rejected=len(muts), rule="distinct = (kind, outcome) for laws; every paging session is judged")
    ck.sample({"record": {k: v for k, v in uniq[1].items() if k != "pages"}, "example": uex[1]})


def replay(ck, path):
    print(json.loads(open(path).read())["replay"])
    return 1
