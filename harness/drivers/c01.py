"""C01 / C02 - addresses survive text and wire round trips in every notation; group address filters match exactly the
addresses their pattern denotes.

spec : spec/codec/Address.tla (reference reading of canonical address text, wire form, level extraction, filter semantics),
       judged by Address_Judge.tla
code : C01 - all 65 536 raw values x {individual, group} x {LONG, SHORT, FREE} (stride + boundaries in quick): str(), the
             constructors on the rendered text, to_knx / from_knx;  malformed text built from tokens (digit runs incl. overflow widths
             and non-ASCII digits, separators, whitespace, signs) and non-string objects through GroupAddress, IndividualAddress and
             parse_device_group_address.
       C02 - patterns as ASTs (1..3 levels, 1..2 ranges per level, bounds from the boundary set, open ends, reversed ranges, '*'),
             printed in every spelling, matched through AddressFilter.match (address object and text) and the telegram queue's
             callback filter against the addresses at and around every range boundary.
"""
from __future__ import annotations

import itertools
import random

from .. import tlc
from ..core import MachineryError

FMTS = ("LONG", "SHORT", "FREE")


def set_fmt(name):
    from xknx.telegram.address import GroupAddress, GroupAddressType

    GroupAddress.address_format = getattr(GroupAddressType, name)


def run01(ck):
    from xknx.exceptions import CouldNotParseAddress
    from xknx.telegram.address import GroupAddress, GroupAddressType, IndividualAddress, parse_device_group_address

    rnd = random.Random(ck.seed)
    saved = GroupAddress.address_format
    cases, info = [], []
    try:
        if ck.tier == "quick":
            raws = sorted({0, 1, 2, 7, 8, 255, 256, 257, 2047, 2048, 2049, 4095, 4096, 0x7FFF, 0x8000, 65534, 65535} | set(range(0, 65536, 37)) | {rnd.randrange(65536) for _ in range(500)})
        else:
            raws = list(range(65536))
        for raw in raws:
            for fmt in FMTS:
                set_fmt(fmt)
                c = {"t": "rt", "kind": "ga", "fmt": fmt, "raw": raw, "text": [], "reparsed": -2, "wire": [], "unwire": -2}
                try:
                    ga = GroupAddress(raw)
                    txt = str(ga)
                    c["text"] = [ord(ch) for ch in txt]
                    c["reparsed"] = GroupAddress(txt).raw
                    w = ga.to_knx()
                    c["wire"] = list(w)
                    c["unwire"] = GroupAddress.from_knx(w).raw
                except Exception as ex:  # noqa: BLE001
                    c["note"] = type(ex).__name__
                cases.append(c)
                info.append(f"GroupAddress({raw}) under {fmt}")
            c = {"t": "rt", "kind": "ia", "fmt": "-", "raw": raw, "text": [], "reparsed": -2, "wire": [], "unwire": -2}
            try:
                ia = IndividualAddress(raw)
                txt = str(ia)
                c["text"] = [ord(ch) for ch in txt]
                c["reparsed"] = IndividualAddress(txt).raw
                w = ia.to_knx()
                c["wire"] = list(w)
                c["unwire"] = IndividualAddress.from_knx(w).raw
            except Exception as ex:  # noqa: BLE001
                c["note"] = type(ex).__name__
            cases.append(c)
            info.append(f"IndividualAddress({raw})")
        # any other text / object
        toks = ["0", "1", "7", "8", "15", "16", "31", "32", "255", "256", "2047", "2048", "65535", "65536", "00001", "007", "", " ", "/", ".", "-1", "+1", "1 ",
                " 1", "١", "²", "٣٢", "x", "1e1", "0x1", "\n", "i-", "*"]
        texts = set(toks)
        # very long numbers (the interpreter refuses to convert more than 4300 digits)
        texts |= {"1" * 4300, "1" * 4301, "0" * 4400, "1/" + "2" * 4400, "1." + "2" * 4400 + ".3"}
        for n in (2, 3, 4):
            for _ in range(1500 if ck.tier == "quick" else 40000):
                sep = rnd.choice(["/", ".", "/", ".", " ", "-", ""])
                texts.add(sep.join(rnd.choice(toks) for _ in range(n)))
        for a, b, c3 in itertools.product(["0", "15", "16", "31", "32", "²"], ["0", "7", "8", "15", "16", "2047", "2048"], ["0", "255", "256", ""]):
            texts.add(f"{a}/{b}/{c3}")
            texts.add(f"{a}.{b}.{c3}")
            texts.add(f"{a}/{b}")
        objs = list(texts) + [None, b"1/2/3", 1.5, True, (1, 2, 3), [1], -1, 65536, 2**40, object(), float("nan"),
                              10**4299, 10**4300, -(10**4300), 10**5000, 1 << 20000, -(1 << 20000), 1e300, float("inf")]

        class Hostile:
            def __str__(self):
                raise RuntimeError("hostile __str__")

        objs.append(Hostile())
        import sys

        # the interpreter's limit on int <-> str conversion is a setting of the process (PYTHONINTMAXSTRDIGITS): default, disabled, lowest
        lim0 = sys.get_int_max_str_digits()
        short = [o for o in objs if not isinstance(o, str) or len(o) < 8][::3] + ["1" * 639, "1" * 640, "1" * 641, "1" * 4300, "1" * 4301, "0" * 4400, "5", "65535", "65536"]
        for fmt, lim in [(f, lim0) for f in FMTS] + [(f, l_) for f in FMTS for l_ in (0, 640)]:
            set_fmt(fmt)
            sys.set_int_max_str_digits(lim)
            for o in (objs if lim == lim0 else short):
                for name, ctor in (("GroupAddress", GroupAddress), ("IndividualAddress", IndividualAddress), ("parse_device_group_address", parse_device_group_address)):
                    c = {"t": "text", "out": "addr", "fixed": 0, "must": 0}
                    try:
                        a = ctor(o)
                        r1 = str(a)
                        a2 = ctor(r1)
                        c["fixed"] = 1 if (a2 == a and str(a2) == r1) else 0
                    except CouldNotParseAddress:
                        c["out"] = "parse_error"
                    except Exception as ex:  # noqa: BLE001
                        c["out"] = "other:" + type(ex).__name__
                    cases.append(c)
                    info.append(f"{name}({short_repr(o)}) under {fmt}" + ("" if lim == lim0 else f", int_max_str_digits={lim}"))
            if lim != lim0:
                for raw in (0, 5, 255, 2047, 9999, 10000, 65535):
                    for ctor in (GroupAddress, IndividualAddress):
                        c = {"t": "text", "out": "addr", "fixed": 0}
                        try:
                            c["fixed"] = 1 if ctor(str(ctor(raw))).raw == raw else 0
                        except CouldNotParseAddress:
                            c["out"] = "parse_error"
                        except Exception as ex:  # noqa: BLE001
                            c["out"] = "other:" + type(ex).__name__
                        c["must"] = 1
                        cases.append(c)
                        info.append(f"{ctor.__name__}(str({ctor.__name__}({raw}))) under {fmt}, int_max_str_digits={lim}")
        sys.set_int_max_str_digits(lim0)
    finally:
        GroupAddress.address_format = saved
        try:
            sys.set_int_max_str_digits(lim0)
        except Exception:  # noqa: BLE001
            pass
    send = [{k: v for k, v in c.items() if k != "note"} for c in cases]
    res = tlc.batch(ck, "codec/Address_Judge", send, min_per_shard=6000, timeout=1800)
    seen = set()
    for idx in sorted(res.bad):
        c = cases[idx]
        key = {"t": c["t"], "out": c.get("out"), "kind": c.get("kind"), "fmt": c.get("fmt"), "note": c.get("note")} if c["t"] == "text" or c.get("note") else \
            {"t": "rt", "kind": c["kind"], "fmt": c["fmt"], "raw": c["raw"]}
        if c["t"] == "text":
            key["call"] = info[idx][:60]
        if str(key) in seen or len(seen) > 60:
            continue
        seen.add(str(key))
        ck.violation(key, f"{info[idx]} -> {c}", {"call": info[idx], "case": c})
    muts = [dict(c, reparsed=(c["raw"] + 1) % 65536) for c in send[:40:4] if c["t"] == "rt"] + [dict(c, text=c["text"][:-1] + [c["text"][-1] ^ 1]) for c in send[1:40:4] if c["t"] == "rt" and c["text"]]
    r2 = tlc.batch(ck, "codec/Address_Judge", muts)
    if not muts or len(r2.bad) != len(muts):
        raise MachineryError(f"binding self-test: {len(muts) - len(r2.bad)} of {len(muts)} corrupted cases accepted")
    ck.add(evaluations=len(cases), round_trips=sum(1 for c in cases if c["t"] == "rt"), texts=sum(1 for c in cases if c["t"] == "text"),
           distinct_nontrivial=len({(c["t"], c.get("kind"), c.get("fmt"), c.get("out"), c.get("raw", 0) >> 8) for c in cases}),
           exhaustive=(ck.tier != "quick"), selftest_corrupted_rejected=len(muts), rule="distinct = (case type, kind, notation, outcome, raw >> 8)")
    ck.sample(cases[5])


def short_repr(o):
    try:
        r = repr(o)
    except Exception:  # noqa: BLE001 - a number beyond the conversion limit
        r = f"<{type(o).__name__} of {o.bit_length()} bits>" if isinstance(o, int) else f"<{type(o).__name__}>"
    return r if len(r) < 80 else r[:40] + f"...({len(r)} characters)"


def spell(r):
    lo, hi = r
    if lo == -1 and hi == -1:
        return ["*", "-", "0-"]
    if lo == -1:
        return [f"-{hi}", f"0-{hi}"]
    if hi == -1:
        return [f"{lo}-"]
    if lo == hi:
        return [f"{lo}", f"{lo}-{hi}"]
    return [f"{lo}-{hi}"]


def run02(ck):
    from xknx import XKNX
    from xknx.core.telegram_queue import TelegramQueue
    from xknx.telegram import Telegram, TelegramDirection
    from xknx.telegram.address import GroupAddress
    from xknx.telegram.address_filter import AddressFilter
    from xknx.telegram.apci import GroupValueRead

    rnd = random.Random(ck.seed)
    saved = GroupAddress.address_format
    B = {3: [[0, 1, 31, 32], [0, 1, 7, 8], [0, 1, 255, 256]], 2: [[0, 1, 31, 32], [0, 7, 2047, 2048]], 1: [[0, 1, 255, 256, 2047, 2048, 65535, 65536, 99999]]}
    cases, info = [], []
    try:
        pats = []
        for n in (1, 2, 3):
            for _ in range(300 if ck.tier == "quick" else 6000):
                pat = []
                for i in range(n):
                    lvl = []
                    for _k in range(rnd.choice([1, 1, 2])):
                        lo = rnd.choice(B[n][i] + [-1, -1, rnd.randrange(0, 70000)])
                        hi = rnd.choice(B[n][i] + [-1, -1, rnd.randrange(0, 70000)])
                        if rnd.random() < 0.3:
                            hi = lo
                        lvl.append([lo, hi])
                    pat.append(lvl)
                pats.append(pat)
        import asyncio

        loop = asyncio.new_event_loop()
        asyncio.set_event_loop(loop)
        xknx = XKNX()
        for pat in pats:
            n = len(pat)
            set_fmt({3: "LONG", 2: "SHORT", 1: "FREE"}[n])
            text = "/".join(",".join(rnd.choice(spell(r)) for r in lvl) for lvl in pat)
            try:
                flt = AddressFilter(text)
            except Exception as ex:  # noqa: BLE001 - a pattern of the documented grammar must be accepted
                cases.append({"t": "flt", "pat": pat, "raw": 0, "res": -1})
                info.append(f"AddressFilter({text!r}) raised {type(ex).__name__}")
                continue
            cb = TelegramQueue.Callback(lambda t: None, address_filters=[flt])
            # addresses at and around every bound of every level, combined
            per = []
            for i, lvl in enumerate(pat):
                mx = {3: [31, 7, 255], 2: [31, 2047], 1: [65535]}[n][i]
                vals = {0, mx}
                for lo, hi in lvl:
                    for b in (lo, hi):
                        if b >= 0:
                            vals |= {min(max(b + d, 0), mx) for d in (-1, 0, 1)}
                per.append(sorted(vals))
            combos = list(itertools.product(*per))
            rnd.shuffle(combos)
            for lv in combos[:40]:
                raw = {3: lambda v: v[0] * 2048 + v[1] * 256 + v[2], 2: lambda v: v[0] * 2048 + v[1], 1: lambda v: v[0]}[n](lv)
                if raw == 0:
                    continue
                ga = GroupAddress(raw)
                try:
                    r1 = flt.match(ga)
                    r2 = flt.match(str(ga))
                    r3 = cb.is_within_filter(Telegram(destination_address=ga, payload=GroupValueRead(), direction=TelegramDirection.INCOMING))
                    res = 1 if r1 else 0
                    if not (bool(r1) == bool(r2) == bool(r3)):
                        res = 2
                except Exception as ex:  # noqa: BLE001
                    res = 3
                cases.append({"t": "flt", "pat": pat, "raw": raw, "res": res})
                info.append(f"AddressFilter({text!r}).match({ga})")
        # internal addresses: globs over names
        from xknx.telegram.address import InternalGroupAddress  # noqa: PLC0415

        alpha = "ab-i_1"
        for _ in range(600 if ck.tier == "quick" else 20000):
            pat = "i-" + "".join(rnd.choice(alpha + "**??") for _ in range(rnd.randrange(1, 7)))
            if not pat[2:].strip():
                continue
            try:
                flt = AddressFilter(pat)
            except Exception as ex:  # noqa: BLE001
                cases.append({"t": "glob", "p": [ord(c) for c in pat], "s": [], "res": -1})
                info.append(f"AddressFilter({pat!r}) raised {type(ex).__name__}")
                continue
            cb = TelegramQueue.Callback(lambda t: None, address_filters=[flt])
            names = ["".join(rnd.choice(alpha) for _ in range(rnd.randrange(1, 8))) for _ in range(6)]
            # names built from the pattern: each '*' replaced by a short run, each '?' by one character; with a prefix / suffix added
            for _k in range(6):
                nm = "".join(("".join(rnd.choice(alpha) for _ in range(rnd.randrange(0, 3))) if c == "*" else rnd.choice(alpha) if c == "?" else c) for c in pat[2:])
                names += [nm, rnd.choice(alpha) + nm, nm + rnd.choice(alpha), "i-" + nm, nm[:-1], nm.upper()]
            for nm in names:
                if not nm.strip() or nm != nm.strip():
                    continue
                ia = InternalGroupAddress("i-" + nm)
                try:
                    r1 = flt.match(ia)
                    r2 = flt.match(str(ia))
                    r3 = cb.is_within_filter(Telegram(destination_address=ia, payload=GroupValueRead(), direction=TelegramDirection.INCOMING))
                    res_ = 1 if r1 else 0
                    if not (bool(r1) == bool(r2) == bool(r3)):
                        res_ = 2
                except Exception:  # noqa: BLE001
                    res_ = 3
                cases.append({"t": "glob", "p": [ord(c) for c in InternalGroupAddress(pat).raw], "s": [ord(c) for c in ia.raw], "res": res_})
                info.append(f"AddressFilter({pat!r}).match({ia.raw!r})")
        loop.close()
        asyncio.set_event_loop(None)
    finally:
        GroupAddress.address_format = saved
    res = tlc.batch(ck, "codec/Address_Judge", cases, min_per_shard=5000)
    seen = 0
    for idx in sorted(res.bad):
        c = cases[idx]
        if seen < 40:
            ck.violation({"pat": c.get("pat", c.get("p")), "raw": c.get("raw", c.get("s")), "res": c["res"]}, f"{info[idx]} -> {c['res']} (0 no match, 1 match, 2 object / text / queue filter disagree, 3 raised)", {"call": info[idx], "case": c})
        seen += 1
    muts = [dict(c, res=1 - c["res"]) for c in cases[:200:5] if c["res"] in (0, 1)] + [dict(c, res=1 - c["res"]) for c in cases if c["t"] == "glob" and c["res"] in (0, 1)][:40]
    r2 = tlc.batch(ck, "codec/Address_Judge", muts)
    if not muts or len(r2.bad) != len(muts):
        raise MachineryError(f"binding self-test: {len(muts) - len(r2.bad)} of {len(muts)} corrupted cases accepted")
    ck.add(evaluations=len(cases), patterns=len(pats), matches=sum(1 for c in cases if c["res"] == 1),
           distinct_nontrivial=len({str(c.get("pat", c.get("p"))) for c in cases}), internal_glob_cases=sum(1 for c in cases if c["t"] == "glob"), selftest_corrupted_rejected=len(muts), rule="distinct = pattern AST")
    ck.sample({"call": info[0], "case": cases[0]})


def replay(ck, path):
    import json

    print(json.loads(open(path).read())["replay"])
    return 1
