"""C31 - keyrings load exactly what they contain and reject tampering.

spec : spec/secure/Keyring.tla: canonical signed form Canon(tree), sender table, laws; Keyring_MC: Canon is injective on bounded trees
       (the deviation without length octets is not); Keyring_Judge.tla
code : an independent keyring writer (XML text by hand, canonical octets by its own routine - checked against Canon by TLC -, AES-128-CBC /
       PBKDF2 / SHA-256 from the `cryptography` package and hashlib) generates keyrings from random project data; the real
       sync_load_keyring / verify_keyring_signature load them, load single mutations of them and of the ETS exports shipped with the tests.
"""
from __future__ import annotations

import base64
import hashlib
import json
import os
import random
import re
import tempfile
from pathlib import Path
from xml.dom import minidom
from xml.sax.saxutils import quoteattr

from .. import tlc
from ..core import MachineryError, REPO

PWCACHE = {}


def pwhash(password: str) -> bytes:
    if password not in PWCACHE:
        PWCACHE[password] = hashlib.pbkdf2_hmac("sha256", password.encode("utf-8"), b"1.keyring.ets.knx.org", 65536, 16)
    return PWCACHE[password]


def aes_cbc(key: bytes, iv: bytes, data: bytes) -> bytes:
    from cryptography.hazmat.primitives.ciphers import Cipher, algorithms, modes

    enc = Cipher(algorithms.AES(key), modes.CBC(iv)).encryptor()
    return enc.update(data) + enc.finalize()


def enc_key(key16: bytes, kh: bytes, iv: bytes) -> str:
    return base64.b64encode(aes_cbc(kh, iv, key16)).decode()


def enc_password(pw: str, kh: bytes, iv: bytes, rnd) -> str:
    """8 random octets, the password, padding octets each giving the padding length (as ETS writes them)"""
    body = bytes(rnd.randrange(256) for _ in range(8)) + pw.encode("utf-8")
    pad = 16 - len(body) % 16
    return base64.b64encode(aes_cbc(kh, iv, body + bytes([pad]) * pad)).decode()


def ia_str(raw):
    return f"{raw >> 12}.{(raw >> 8) & 15}.{raw & 255}"


def gen_content(rnd, big=False):
    """abstract project content"""
    pool_ia = rnd.sample(range(0x1001, 0xFFFF), 80)
    gas = rnd.sample(range(1, 0xFFFF), rnd.choice((0, 1, 2, 5, 12)))
    c = {"project": rnd.choice(["Test", "Haus & Hof <1>", "Ünïcode \"quoted\"", "p" * 40]), "created": f"20{rnd.randrange(10, 30)}-0{rnd.randrange(1, 10)}-1{rnd.randrange(10)}T0{rnd.randrange(10)}:45:22",
         "password": rnd.choice(["pwd", "test", "pässwörd €", "a" * 33, "x", " pwd", "pwd ", "p w\td", "\tpw\n"]),      # blanks are characters of the password
         "groups": [[g, rkey(rnd)] for g in gas],
         "backbone": rnd.choice([None, {"mc": "224.0.23.12", "latency": rnd.choice((1000, 2000, 1)), "key": rkey(rnd)},
                                 {"mc": "224.0.23.12", "latency": None, "key": None}]),
         "ifaces": [], "devices": []}
    hosts = rnd.sample(pool_ia, 2)
    for k in range(rnd.choice((0, 1, 2, 4, 8))):
        typ = rnd.choice(["Tunneling", "Tunneling", "USB", "Backbone"])
        groups = []
        for g in rnd.sample(gas, min(len(gas), rnd.choice((0, 1, 3)))):
            ns = rnd.choice((0, 1, 2, 5)) if not big else rnd.choice((40, 60))
            groups.append({"ga": g, "senders": rnd.sample(pool_ia, ns)})
        c["ifaces"].append({"type": typ, "ia": pool_ia[k], "host": rnd.choice(hosts) if typ == "Tunneling" else None, "user_id": rnd.randrange(1, 127) if typ == "Tunneling" and rnd.random() < 0.8 else None,
                            "password": rnd.choice([None, "tunnel_pw", "ä" * 5, "p" * 20, ""]) if typ == "Tunneling" else None,
                            "auth": rnd.choice([None, "authcode", "x" * 8]) if typ == "Tunneling" else None, "groups": groups})
    for k in range(rnd.choice((0, 0, 1, 3, 6))):
        c["devices"].append({"ia": rnd.choice(pool_ia[:20]) if rnd.random() < 0.7 else pool_ia[30 + k], "seq": rnd.choice([None, 0, 1, 2**31, 2**48 - 1, rnd.randrange(2**40)]),
                             "toolkey": rkey(rnd), "mgmt": rnd.choice(["commissioning", "m" * 9]), "auth": rnd.choice(["devauth", "z"])})
    return c


def rkey(rnd):
    """a 16-octet key; one in four ends like block padding would (..01, ..0202, ..030303, sixteen times 0x10) or begins / ends with zeros"""
    k = bytes(rnd.randrange(256) for _ in range(16))
    if rnd.random() < 0.25:
        n = rnd.choice([1, 1, 2, 3, 8, 15, 16])
        k = rnd.choice([k[:16 - n] + bytes([n]) * n, k[:16 - n] + bytes(n), bytes(n) + k[n:]])
    return k.hex()


def build_tree(c, rnd):
    """the XML tree [tag, attrs {name: value}, kids] of the content (attribute values encrypted where ETS encrypts)"""
    kh = pwhash(c["password"])
    iv = hashlib.sha256(c["created"].encode()).digest()[:16]
    kids = []
    if c["backbone"] is not None:
        a = {"MulticastAddress": c["backbone"]["mc"]}
        if c["backbone"]["latency"] is not None:
            a["Latency"] = str(c["backbone"]["latency"])
        if c["backbone"]["key"] is not None:
            a["Key"] = enc_key(bytes.fromhex(c["backbone"]["key"]), kh, iv)
        kids.append(["Backbone", a, []])
    for i in c["ifaces"]:
        a = {"IndividualAddress": ia_str(i["ia"]), "Type": i["type"]}
        if i["host"] is not None:
            a["Host"] = ia_str(i["host"])
        if i["user_id"] is not None:
            a["UserID"] = str(i["user_id"])
        if i["password"] is not None:
            a["Password"] = enc_password(i["password"], kh, iv, rnd)
        if i["auth"] is not None:
            a["Authentication"] = enc_password(i["auth"], kh, iv, rnd)
        kids.append(["Interface", a, [["Group", {"Address": str(g["ga"]), "Senders": " ".join(ia_str(s) for s in g["senders"])}, []] for g in i["groups"]]])
    if c["groups"]:
        kids.append(["GroupAddresses", {}, [["Group", {"Address": str(g), "Key": enc_key(bytes.fromhex(k), kh, iv)}, []] for g, k in c["groups"]]])
    if c["devices"]:
        dk = []
        for d in c["devices"]:
            a = {"IndividualAddress": ia_str(d["ia"]), "ToolKey": enc_key(bytes.fromhex(d["toolkey"]), kh, iv), "ManagementPassword": enc_password(d["mgmt"], kh, iv, rnd),
                 "Authentication": enc_password(d["auth"], kh, iv, rnd)}
            if d["seq"] is not None:
                a["SequenceNumber"] = str(d["seq"])
            dk.append(["Device", a, []])
        kids.append(["Devices", {}, dk])
    if rnd.random() < 0.4:          # the sections of the document in another order than ETS writes them: the content is the same
        secs = [[k for k in kids if k[0] == t] for t in ("Backbone", "Interface", "GroupAddresses", "Devices")]
        rnd.shuffle(secs)
        kids = [k for sec in secs for k in sec]
    return ["Keyring", {"Project": c["project"], "CreatedBy": "verif writer", "Created": c["created"]}, kids]


def canon(tree) -> bytes:
    """the signed octets (the harness's own routine; TLC compares it with Canon)"""
    def s(x):
        b = x.encode("utf-8")
        return bytes([len(b) % 256]) + b

    tag, attrs, kids = tree
    out = b"\x01" + s(tag)
    for k in sorted(attrs):
        if k not in ("xmlns", "Signature"):
            out += s(k) + s(attrs[k])
    for kid in kids:
        out += canon(kid)
    return out + b"\x02"


def signature(tree, password) -> str:
    h = base64.b64encode(pwhash(password))
    data = canon(tree) + bytes([len(h)]) + h
    return base64.b64encode(hashlib.sha256(data).digest()[:16]).decode()


def to_xml(tree, sig, rnd=None) -> str:
    def el(t, depth):
        tag, attrs, kids = t
        items = list(attrs.items())
        if rnd is not None:
            rnd.shuffle(items)                       # attribute order in the file does not matter
        a = "".join(f" {k}={quoteattr(v)}" for k, v in items)
        pad = "  " * depth
        if not kids:
            return f"{pad}<{tag}{a} />\n"
        return f"{pad}<{tag}{a}>\n" + "".join(el(k, depth + 1) for k in kids) + f"{pad}</{tag}>\n"

    root = [tree[0], dict(tree[1], Signature=sig, xmlns="http://knx.org/xml/keyring/1"), tree[2]]
    return '<?xml version="1.0" encoding="utf-8"?>\n' + el(root, 0)


def tla_tree(tree):
    tag, attrs, kids = tree
    return {"tag": list(tag.encode()), "attrs": [[list(k.encode()), list(attrs[k].encode())] for k in sorted(attrs) if k not in ("xmlns", "Signature")],
            "kids": [tla_tree(k) for k in kids]}


def load(path, password):
    """-> ("ok", keyring) | ("rejected", None) | ("raised:X", None)"""
    from xknx.exceptions import InvalidSecureConfiguration
    from xknx.secure.keyring import sync_load_keyring

    try:
        return "ok", sync_load_keyring(path, password)
    except InvalidSecureConfiguration:
        return "rejected", None
    except Exception as ex:  # noqa: BLE001
        return "raised:" + type(ex).__name__, None


def tables(kr):
    """everything C31 names, in a canonical JSON form"""
    return {"groups": sorted([ga.raw, key.hex()] for ga, key in kr.get_data_secure_group_keys().items()),
            "senders": sorted([ia.raw, str(seq)] for ia, seq in kr.get_data_secure_senders().items()),
            "backbone": None if kr.backbone is None else [kr.backbone.multicast_address, kr.backbone.latency, kr.backbone.decrypted_key.hex() if kr.backbone.decrypted_key else None],
            "ifaces": [[i.type.value, i.individual_address.raw, i.host.raw if i.host else None, i.user_id, i.decrypted_password, i.decrypted_authentication,
                        sorted([ga.raw, sorted(s.raw for s in snd)] for ga, snd in i.group_addresses.items())] for i in kr.interfaces],
            "devices": [[d.individual_address.raw, d.sequence_number, d.decrypted_tool_key.hex() if d.decrypted_tool_key else None, d.decrypted_management_password,
                         d.decrypted_authentication] for d in kr.devices]}


def expected(c):
    return {"groups": sorted([g, k] for g, k in c["groups"]),
            "backbone": None if c["backbone"] is None else [c["backbone"]["mc"], c["backbone"]["latency"], c["backbone"]["key"]],
            "ifaces": [[i["type"], i["ia"], i["host"], i["user_id"], i["password"], i["auth"], sorted([g["ga"], sorted(g["senders"])] for g in {g["ga"]: g for g in i["groups"]}.values())]
                       for i in c["ifaces"]],
            "devices": [[d["ia"], d["seq"] or 0, d["toolkey"], d["mgmt"], d["auth"]] for d in c["devices"]]}


MUT_RE = re.compile(r'(\w+)="([^"]*)"')


def mutations(xml: str, rnd, n):
    """single changes of the file: (kind, signed_change, text)"""
    out = []
    attrs = [m for m in MUT_RE.finditer(xml) if m.group(1) not in ("version", "encoding")]
    for _ in range(n):
        m = rnd.choice(attrs)
        name, val = m.group(1), m.group(2)
        kind = rnd.choice(["value", "value", "name", "drop_attr", "element", "drop_element", "dup_element", "swap_elements", "add_attr"])
        if name in ("xmlns",) and kind in ("value", "name", "drop_attr"):
            continue
        if kind == "value":
            if name == "Signature":
                nv = base64.b64encode(bytes(b ^ (1 << rnd.randrange(8)) if i == rnd.randrange(16) or i == 0 else b for i, b in enumerate(base64.b64decode(val)))).decode()
            elif val == "":
                nv = "x"
            else:
                k = rnd.randrange(len(val))
                ch = rnd.choice([c for c in "0123456789ABab./ =" if c != val[k]])
                nv = val[:k] + ch + val[k + 1:]
            out.append((f"value of {name}", 1, xml[:m.start(2)] + nv + xml[m.end(2):]))
        elif kind == "name" and name != "Signature":
            out.append((f"attribute {name} renamed", 1, xml[:m.start(1)] + name + "X" + xml[m.end(1):]))
        elif kind == "drop_attr" and name != "Signature":
            out.append((f"attribute {name} removed", 1, xml[:m.start()] + xml[m.end():]))
        elif kind == "add_attr":
            out.append(("attribute added", 1, xml[:m.start()] + 'Extra="1" ' + xml[m.start():]))
        else:
            els = [e for e in re.finditer(r"^( *)<(Interface|Group|Device|Backbone)\b[^>]*/>\n", xml, re.M)]
            if not els:
                continue
            e = rnd.choice(els)
            if kind == "element":
                out.append((f"element {e.group(2)} renamed", 1, xml[:e.start(2)] + e.group(2) + "s" + xml[e.end(2):]))
            elif kind == "drop_element":
                out.append((f"element {e.group(2)} removed", 1, xml[:e.start()] + xml[e.end():]))
            elif kind == "dup_element":
                out.append((f"element {e.group(2)} duplicated", 1, xml[:e.end()] + e.group(0) + xml[e.end():]))
            else:
                sib = [f for f in els if f.start() == e.end() and f.group(1) == e.group(1) and f.group(0) != e.group(0)]
                if sib:
                    f = sib[0]
                    out.append((f"elements {e.group(2)} swapped", 1, xml[:e.start()] + f.group(0) + e.group(0) + xml[f.end():]))
    # the signature itself: emptied, cut to a prefix, removed - alone and together with a change of the content
    sm = re.search(r' Signature="([^"]*)"', xml)
    if sm:
        val = sm.group(1)
        raw = base64.b64decode(val)
        variants = [("signature emptied", xml[:sm.start(1)] + xml[sm.end(1):]), ("signature removed", xml[:sm.start()] + xml[sm.end():]),
                    ("signature cut to 8 octets", xml[:sm.start(1)] + base64.b64encode(raw[:8]).decode() + xml[sm.end(1):]),
                    ("signature cut to 15 octets", xml[:sm.start(1)] + base64.b64encode(raw[:15]).decode() + xml[sm.end(1):]),
                    ("signature extended", xml[:sm.start(1)] + base64.b64encode(raw + b"\x00").decode() + xml[sm.end(1):])]
        for kind, text in variants:
            out.append((kind, 1, text))
            pm = re.search(r' Project="([^"]*)"', text)
            if pm:
                out.append((kind + " and value of Project changed", 1, text[:pm.start(1)] + "x" + text[pm.start(1):]))
    # changes outside the signed content: white space and a comment
    out.append(("white space", 0, xml.replace("\n  <", "\n\t   <")))
    out.append(("comment", 0, xml.replace("?>\n", "?>\n<!-- note -->\n", 1)))
    return out


def run(ck):
    import functools

    from xknx.secure import keyring as kmod

    # PBKDF2 with 65536 iterations runs twice per load; it is a pure function of the password: memoised for the run
    if not hasattr(kmod.hash_keyring_password, "cache_info"):
        kmod.hash_keyring_password = functools.lru_cache(maxsize=None)(kmod.hash_keyring_password)
    rnd = random.Random(ck.seed)
    tlc.mc(ck, "secure/Keyring_MC", "secure/Keyring_MC_quick" if ck.tier == "quick" else "secure/Keyring_MC", require_actions=False, timeout=900)
    dev = tlc.mc(ck, "secure/Keyring_MC", "secure/Keyring_Dev", expect_error=True, record=False, coverage=False)
    ck.add(deviation_model_counterexample="violated" in dev.error)
    recs, ex = [], []
    tmp = Path(tempfile.mkdtemp(prefix="c31-", dir=str(ck.workdir)))
    nfiles = 40 if ck.tier == "quick" else 400

    def tamper_all(name, xml, password, base_tables, nm):
        for kind, signed, text in mutations(xml, rnd, nm):
            try:
                minidom.parseString(text.encode("utf-8"))
            except Exception:  # noqa: BLE001 - the change broke the XML itself (e.g. inside an entity): not a keyring any more
                continue
            # the changed content replaces the genuine file at the same path (which was loaded successfully just before)
            p = tmp / "k.knxkeys" if name.startswith("generated") else tmp / "r.knxkeys"
            if not name.startswith("generated"):
                p.write_text(xml, encoding="utf-8")
                load(p, password)
            p.write_text(text, encoding="utf-8")
            out, kr = load(p, password)
            p.write_text(xml, encoding="utf-8")
            back, _ = load(p, password)                 # ... and the genuine content loads again afterwards
            if back != "ok":
                out = "raised:GenuineRefusedAfterwards"
            same = 0
            if out == "ok":
                try:
                    same = 1 if tables(kr) == base_tables else 0
                except Exception:  # noqa: BLE001
                    same = 0
            recs.append({"t": "tamper", "kind": kind.split(" ")[0], "signed_change": signed, "verdict": "accepted" if out == "ok" else out, "content_same": same})
            ex.append(f"{name}: {kind}")
        emptied = tmp / "e.knxkeys"
        emptied.write_text(re.sub(r' Signature="[^"]*"', ' Signature=""', xml, count=1), encoding="utf-8")
        wrongs = [password + "x", password.upper(), "", password + " ", " " + password, password + "\n", password.strip(), password[:-1]]
        for wrong in [w for k_, w in enumerate(wrongs) if w != password and w not in wrongs[:k_]]:
            out, _ = load(emptied, wrong)
            recs.append({"t": "tamper", "kind": "password", "signed_change": 1, "verdict": "accepted" if out == "ok" else out, "content_same": 0})
            ex.append(f"{name}: signature emptied and password {wrong!r} instead of {password!r}")
            out, _ = load(tmp / "k.knxkeys" if name.startswith("generated") else name, wrong)
            recs.append({"t": "tamper", "kind": "password", "signed_change": 1, "verdict": "accepted" if out == "ok" else out, "content_same": 0})
            ex.append(f"{name}: password {wrong!r} instead of {password!r}")

    for k in range(nfiles):
        c = gen_content(rnd, big=(k % 10 == 9))
        only = {1: "backbone", 2: "groups", 3: "ifaces", 4: "devices"}.get(k)
        if only:                      # keyrings with one kind of content only: no section may depend on another being there
            for sec in ("backbone", "groups", "ifaces", "devices"):
                if sec != only:
                    c[sec] = None if sec == "backbone" else []
            if only == "backbone":
                c["backbone"] = {"mc": "224.0.23.12", "latency": 2000, "key": rkey(rnd)}
            if only == "groups" and not c["groups"]:
                c["groups"] = [[0x0801, rkey(rnd)]]
            for i in c["ifaces"]:
                i["groups"] = [] if only == "ifaces" else i["groups"]
        tree = build_tree(c, rnd)
        xml = to_xml(tree, signature(tree, c["password"]), rnd)
        p = tmp / "k.knxkeys"
        p.write_text(xml, encoding="utf-8")
        out, kr = load(p, c["password"])
        r = {"t": "load", "out": out, "content": {"ifaces": [{"ia": i["ia"], "groups": [{"ga": g["ga"], "senders": g["senders"]} for g in i["groups"]]} for i in c["ifaces"]],
                                                   "devices": [{"ia": d["ia"], "seq": str(d["seq"] or 0)} for d in c["devices"]]},
             "senders": [], "groups_eq": 0, "backbone_eq": 0, "ifaces_eq": 0, "devices_eq": 0}
        base = None
        if out == "ok":
            base = tables(kr)
            e = expected(c)
            r["senders"] = base["senders"]
            for f in ("groups", "backbone", "ifaces", "devices"):
                r[f + "_eq"] = 1 if base[f] == e[f] else 0
        recs.append(r)
        ex.append(f"generated keyring {k}: {len(c['ifaces'])} interfaces, {len(c['groups'])} groups, {len(c['devices'])} devices, longest attribute {max(len(v) for t in [tree] + tree[2] + [x for y in tree[2] for x in y[2]] for v in t[1].values())} chars, password {c['password']!r}"
                  + ("" if out != "ok" else f" differing: {[f for f in ('groups', 'backbone', 'ifaces', 'devices') if not r[f + '_eq']]}"))
        if k < (6 if ck.tier == "quick" else 40):
            recs.append({"t": "canon", "tree": tla_tree(tree), "canon": list(canon(tree))})
            ex.append(f"canonical octets of generated keyring {k} ({len(canon(tree))} octets)")
        if out == "ok":
            tamper_all(f"generated keyring {k}", xml, c["password"], base, 12 if ck.tier == "quick" else 40)
    res_dir = REPO / "test" / "secure_tests" / "resources"
    for fn, pw in (("keyring.knxkeys", "pwd"), ("testcase.knxkeys", "password"), ("special_chars_secure_tunnel.knxkeys", "test"), ("DataSecure_only_one_interface.knxkeys", "test"), ("DataSecure_usb.knxkeys", "test")):
        path = res_dir / fn
        if not path.exists():
            continue
        out, kr = load(path, pw)
        recs.append({"t": "tamper", "kind": "none", "signed_change": 0, "verdict": "accepted" if out == "ok" else out, "content_same": 1 if out == "ok" else 0})
        ex.append(f"{fn} unchanged")
        if out == "ok":
            tamper_all(str(path), path.read_text(encoding="utf-8"), pw, tables(kr), 60 if ck.tier == "quick" else 600)
    res = tlc.batch(ck, "secure/Keyring_Judge", recs, min_per_shard=100, timeout=1200)
    seen = set()
    for idx in sorted(res.bad):
        r = recs[idx]
        key = {k: v for k, v in r.items() if k in ("t", "kind", "signed_change", "verdict", "content_same", "out", "groups_eq", "backbone_eq", "ifaces_eq", "devices_eq")}
        if r["t"] == "load":
            key["long_attribute"] = "longest attribute" in ex[idx] and int(ex[idx].split("longest attribute ")[1].split(" ")[0]) > 255
        ks = json.dumps(key, sort_keys=True)
        if ks in seen:
            continue
        seen.add(ks)
        ck.violation(key, f"keyring: {ex[idx]} -> {json.dumps({k: v for k, v in r.items() if k not in ('content', 'tree', 'canon', 'senders')})}", {"record": {k: v for k, v in r.items() if k not in ("tree", "canon")}, "example": ex[idx]})
    good = [r for r in recs if r["t"] == "tamper" and r["verdict"] == "rejected"]
    loads = [r for r in recs if r["t"] == "load" and r["out"] == "ok" and r["senders"]]
    cans = [r for r in recs if r["t"] == "canon"]
    muts = [dict(r, verdict="accepted") for r in good[:10]] + [dict(r, senders=r["senders"][1:]) for r in loads[:5]] + [dict(r, senders=[[r["senders"][0][0], r["senders"][0][1] + "1"]] + r["senders"][1:]) for r in loads[:5]] + \
           [dict(r, groups_eq=0) for r in loads[:3]] + [dict(r, canon=r["canon"][:-3] + [r["canon"][-3] ^ 1] + r["canon"][-2:]) for r in cans[:2]]
    r2 = tlc.batch(ck, "secure/Keyring_Judge", muts, timeout=1200)
    if not muts or len(r2.bad) != len(muts):
        raise MachineryError(f"binding self-test: {len(muts) - len(r2.bad)} of {len(muts)} corrupted cases accepted")
    import collections

    ck.add(evaluations=len(recs), generated_keyrings=nfiles, loaded=sum(1 for r in recs if r["t"] == "load" and r["out"] == "ok"), tamper_cases=sum(1 for r in recs if r["t"] == "tamper"),
           tamper_kinds=dict(collections.Counter(r["kind"] for r in recs if r["t"] == "tamper")), canon_checked_by_tlc=len(cans),
           distinct_nontrivial=len({json.dumps({k: v for k, v in r.items() if k not in ("content", "tree", "canon", "senders")}, sort_keys=True) for r in recs}),
           selftest_corrupted_rejected=len(muts), rule="distinct = (kind of case, verdict)")
    ck.sample({"record": {k: v for k, v in recs[0].items() if k != "content"}, "example": ex[0]})
    for f in tmp.glob("*"):
        f.unlink()
    tmp.rmdir()


def replay(ck, path):
    print(json.loads(open(path).read())["replay"])
    return 1
