"""C37 - the device registry dispatches each telegram to exactly the right devices.

spec : spec/dev/DevReg.tla (naive scan in registration order; model-checked), DevReg_Trace.tla
code : real xknx.devices.Devices with real devices of many types sharing group addresses (incl. passive and internal
       addresses); add / remove / re-add / duplicate add / remove of unregistered / process histories.
"""
from __future__ import annotations

import asyncio
import random

from .. import tlc
from ..core import MachineryError

POOL = ["1/1/1", "1/1/2", "1/1/3", "2/0/7", "i-verif-a", "i-verif-b", "0/0/1", "31/7/255"]


def factories():
    from xknx.devices import (BinarySensor, Climate, ClimateMode, Cover, ExposeSensor, Fan, Light, Notification, NumericValue,
                              RawValue, Scene, Sensor, Switch)

    def climate_with_mode(x, a, b, c):
        mode = ClimateMode(x, "cm", group_address_operation_mode=c)
        return [(Climate(x, "clm", group_address_temperature=a, group_address_target_temperature=b, mode=mode), {a, b, c}),
                (mode, {c})]                      # the mode is a device of its own and may be registered as well

    simple = [
        ("Switch", lambda x, a, b: Switch(x, "sw", group_address=a, group_address_state=b)),
        ("SwitchPassive", lambda x, a, b: Switch(x, "swp", group_address=[a, b])),
        ("Light", lambda x, a, b: Light(x, "li", group_address_switch=a, group_address_brightness=b)),
        ("Sensor", lambda x, a, b: Sensor(x, "se", group_address_state=[a, b], value_type="temperature")),
        ("BinarySensor", lambda x, a, b: BinarySensor(x, "bs", group_address_state=a)),
        ("Cover", lambda x, a, b: Cover(x, "co", group_address_long=a, group_address_position_state=b)),
        ("NumericValue", lambda x, a, b: NumericValue(x, "nv", group_address=a, group_address_state=b, value_type="percent")),
        ("RawValue", lambda x, a, b: RawValue(x, "rv", payload_length=1, group_address=a)),
        ("ExposeSensor", lambda x, a, b: ExposeSensor(x, "ex", group_address=a, value_type="temperature")),
        ("Fan", lambda x, a, b: Fan(x, "fa", group_address_speed=a, group_address_speed_state=b)),
        ("Scene", lambda x, a, b: Scene(x, "sc", group_address=a, scene_number=3)),
        ("Notification", lambda x, a, b: Notification(x, "no", group_address=a, group_address_state=b)),
        ("Climate", lambda x, a, b: Climate(x, "cl", group_address_temperature=a, group_address_target_temperature=b)),
    ]
    one = {"BinarySensor", "RawValue", "ExposeSensor", "Scene"}      # factories that use address a only
    # the addresses a device uses are those given to its constructor - not what the device itself reports
    out = [(n, (lambda x, a, b, c, f=f, n=n: [(f(x, a, b), {a} if n in one else {a, b})])) for n, f in simple]
    out.append(("ClimateWithMode", climate_with_mode))
    # devices configured without any group address (legal: they are driven by the application only): registered, counted, never dispatched to
    out.append(("SwitchNoAddress", lambda x, a, b, c: [(Switch(x, "sw0"), set())]))
    out.append(("LightNoAddress", lambda x, a, b, c: [(Light(x, "li0"), set())]))
    out.append(("ClimateNoAddress", lambda x, a, b, c: [(Climate(x, "cl0"), set())]))
    return out


def run_hist(seed, nops):
    from xknx import XKNX
    from xknx.telegram import GroupAddress, Telegram
    from xknx.telegram.address import parse_device_group_address
    from xknx.telegram.apci import GroupValueRead

    rnd = random.Random(seed)
    loop = asyncio.new_event_loop()
    asyncio.set_event_loop(loop)
    try:
        xknx = XKNX()
        fs = factories()
        ndev = rnd.randrange(2, 9)
        devs, uses, names = [], [], []
        npool = rnd.choice([2, 3, 8])
        for k in range(ndev):
            name, f = rnd.choice(fs)
            a, b, c = rnd.choice(POOL[:npool]), rnd.choice(POOL[:npool]), rnd.choice(POOL[:npool])
            for d, addrs in f(xknx, a, b, c):
                devs.append(d)
                names.append(name if len(names) == 0 or names[-1] != name or name != "ClimateWithMode" else "ClimateMode")
                uses.append(sorted({POOL.index(g) + 1 for g in addrs}))
        ndev = len(devs)
        got = []
        for k, d in enumerate(devs):
            d.process = (lambda t, k=k: got.append(k + 1))
        reg = xknx.devices
        ev = []
        for _ in range(nops):
            r = rnd.random()
            if r < 0.35:
                k = rnd.randrange(ndev)
                try:
                    reg.async_add(devs[k])
                    res = "ok"
                except ValueError:
                    res = "error"
                except Exception as ex:  # noqa: BLE001 - recorded; the spec knows "ok" and "error" only
                    res = "raised:" + type(ex).__name__
                ev.append({"op": "add", "d": k + 1, "res": res, "n": len(reg)})
            elif r < 0.6:
                k = rnd.randrange(ndev)
                try:
                    reg.async_remove(devs[k])
                    res = "ok"
                except ValueError:
                    res = "error"
                except Exception as ex:  # noqa: BLE001
                    res = "raised:" + type(ex).__name__
                ev.append({"op": "remove", "d": k + 1, "res": res, "n": len(reg)})
            else:
                g = rnd.randrange(npool)
                got.clear()
                dst = parse_device_group_address(POOL[g])
                reg.process(Telegram(destination_address=dst, payload=GroupValueRead()))
                byga = [devs.index(d) + 1 for d in reg.devices_by_group_address(dst)]
                ev.append({"op": "process", "ga": g + 1, "got": list(got), "byga": byga})
        for d in list(reg):
            try:
                reg.async_remove(d)
            except Exception:  # noqa: BLE001 - clean-up only
                pass
        return {"uses": uses, "types": names, "ev": ev}
    finally:
        loop.close()
        asyncio.set_event_loop(None)


def run(ck):
    tlc.mc(ck, "dev/DevReg_MC", require_actions=False)
    n = 1500 if ck.tier == "quick" else 20000
    traces = [run_hist(ck.seed * 1000003 + i, 12 if i % 3 else 40) for i in range(n)]
    res = tlc.batch(ck, "dev/DevReg_Trace", traces)
    for idx, info in sorted(res.bad.items()):
        t = traces[idx]
        l = info if isinstance(info, int) else 0
        ev = t["ev"][l - 1] if 0 < l <= len(t["ev"]) else None
        ck.violation({"types": t["types"], "uses": t["uses"], "ops": t["ev"][:l]},
                     f"device registry trace rejected at event {l}: {ev}; devices={t['types']} uses={t['uses']}",
                     {"seed": ck.seed * 1000003 + idx, "nops": 12 if idx % 3 else 40, "trace": t, "rejected_at": l})
    muts = []
    for t in [t for i, t in enumerate(traces[:300]) if i not in res.bad]:
        for k, e in enumerate(t["ev"]):
            if e["op"] == "process" and len(e["got"]) >= 2:
                a = {"uses": t["uses"], "ev": [dict(x) for x in t["ev"]]}
                a["ev"][k]["got"] = list(reversed(e["got"]))
                muts.append(a)
                b = {"uses": t["uses"], "ev": [dict(x) for x in t["ev"]]}
                b["ev"][k]["got"] = e["got"][:-1]
                b["ev"][k]["byga"] = e["got"][:-1]
                muts.append(b)
                break
    r2 = tlc.batch(ck, "dev/DevReg_Trace", muts)
    if len(r2.bad) != len(muts) or not muts:
        raise MachineryError(f"binding self-test: {len(muts) - len(r2.bad)} of {len(muts)} corrupted traces accepted")
    multi = sum(1 for t in traces for e in t["ev"] if e["op"] == "process" and len(e["got"]) >= 2)
    errs = sum(1 for t in traces for e in t["ev"] if e.get("res") == "error")
    ck.add(traces_validated_against_impl=res.accepted, trace_events=sum(len(t["ev"]) for t in traces),
           dispatches_to_several_devices=multi, rejected_operations=errs, selftest_corrupted_rejected=len(muts),
           device_types=len(factories()))
    ck.sample(traces[0])
    ck.sample(traces[2])


def replay(ck, path):
    import json

    d = json.loads(open(path).read())["replay"]
    t = run_hist(d["seed"], d["nops"])
    res = tlc.batch(ck, "dev/DevReg_Trace", [t])
    print("trace:", t, "\nrejected at:", res.bad.get(0))
    return 1 if res.bad else 0
