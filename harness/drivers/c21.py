"""C21 - KNX/IP bodies round-trip exactly.

spec : spec/io/KnxIpFrame.tla (RoundTripOk: announced length, header length, parse leaves nothing over, equal body),
       judged by KnxIpFrame_Judge.tla
code : every body of the corpus (all body classes; HPAI UDP/TCP/route-back, CRI/CRD variants, DIB lists of 0..5 DIBs of every
       kind, SRP lists, every ErrorCode / TunnellingFeatureType / session status, raw cEMI of 0..254 octets, SecureWrapper payloads)
       through KNXIPFrame.init_from_body(...).to_knx(), calculated_length(), KNXIPFrame.from_knx and library equality; the parsed
       body is serialised once more and must give the same octets.
"""
from __future__ import annotations

import random

from .. import tlc
from ..core import MachineryError
from ..knxip_corpus import frames


def run(ck):
    from xknx.knxip import KNXIPFrame

    rnd = random.Random(ck.seed)
    cases, raws = [], []
    for name, raw, body in frames(rnd, 60 if ck.tier == "quick" else 3000):
        c = {"t": "rt", "cls": name, "len": -1, "total": -1, "calc": -1, "parsed": 0, "rest": -1, "equal": 0, "total2": -1, "note": ""}
        if raw is None:
            c["note"] = "to_knx raised " + repr(body[1])[:80]
            cases.append(c)
            raws.append("")
            continue
        try:
            fr = KNXIPFrame.init_from_body(body)
            c["len"], c["total"], c["calc"] = len(raw), fr.header.total_length, body.calculated_length()
            f2, rest = KNXIPFrame.from_knx(raw)
            c["parsed"], c["rest"], c["total2"] = 1, len(rest), f2.header.total_length
            again = KNXIPFrame.init_from_body(f2.body).to_knx()
            c["equal"] = 1 if (f2.body == body and again == raw) else 0
            if not c["equal"]:
                c["note"] = f"body {'==' if f2.body == body else '!='}; reserialised {'==' if again == raw else '!= ' + again.hex()[:80]}"
        except Exception as ex:  # noqa: BLE001 - recorded: the law then fails
            c["note"] = "raised " + type(ex).__name__ + ": " + str(ex)[:80]
        cases.append(c)
        raws.append(raw.hex())
    send = [{k: v for k, v in c.items() if k != "note"} for c in cases]
    res = tlc.batch(ck, "io/KnxIpFrame_Judge", send, min_per_shard=4000)
    for idx in sorted(res.bad):
        c = cases[idx]
        ck.violation({"cls": c["cls"], "parsed": c["parsed"], "equal": c["equal"], "len_ok": c["len"] == c["total"]},
                     f"{c['cls']} does not round-trip: {c} frame={raws[idx][:120]}", {"case": c, "hex": raws[idx]})
    muts = [dict(send[i], rest=1) for i in range(0, min(len(send), 40), 4)] + [dict(send[i], total=send[i]["total"] + 1) for i in range(1, min(len(send), 40), 4)]
    r2 = tlc.batch(ck, "io/KnxIpFrame_Judge", muts, min_per_shard=4000)
    if not muts or len(r2.bad) != len(muts):
        raise MachineryError(f"binding self-test: {len(muts) - len(r2.bad)} of {len(muts)} corrupted cases accepted")
    ck.add(evaluations=len(cases), distinct_nontrivial=len({(c["cls"], c["len"]) for c in cases}), body_classes=len({c["cls"] for c in cases}),
           selftest_corrupted_rejected=len(muts), rule="distinct = (body class, frame length)")
    ck.sample(cases[0])


def replay(ck, path):
    import json

    print(json.loads(open(path).read())["replay"])
    return 1
