"""C15 / C16 / C18 - Data Secure frames: decrypt to what was sent, tampering is never delivered, secured addresses never take
plain data and bad frames never crash.

spec : spec/secure/DataSecure.tla (bit map of a secured L_Data frame with the verdict per field, laws), DataSecure_MC (symbolic
       protocol with an attacker), judged by DataSecure_Judge.tla
code : two real XKNX instances (sender / receiver, each with DataSecure(group_key_table, individual_address_table)); the sender's
       CEMIHandler.send_telegram output is captured at the mocked interface, turned into an L_Data.ind, optionally mutated and fed
       to the receiver's handle_raw_cemi.  Observed: the receiver's telegram queue, device, telegram callback, key-issue callback,
       exceptions.
"""
from __future__ import annotations

import asyncio
import random
from unittest.mock import AsyncMock, Mock, patch

from .. import tlc
from ..core import MachineryError
from ..vloop import virtual_world

GA, GA_PLAIN = "0/4/0", "0/4/1"


_KEYRINGS: dict = {}


def keyring_for(key, senders):
    """a loaded Keyring with the group key of GA and one interface whose group entry lists the senders (none: no interface group entry)"""
    import tempfile
    from pathlib import Path

    from xknx.secure.keyring import sync_load_keyring
    from xknx.telegram import GroupAddress, IndividualAddress

    from . import c31

    k = (key, senders)
    if k not in _KEYRINGS:
        rnd = random.Random(1)
        c = {"project": "verif", "created": "2024-01-01T00:00:00", "password": "pw", "groups": [[GroupAddress(GA).raw, key.hex()]], "backbone": None,
             "ifaces": [{"type": "Tunneling", "ia": IndividualAddress("1.1.1").raw, "host": IndividualAddress("1.1.0").raw, "user_id": 2, "password": "tunnel", "auth": "auth",
                         "groups": [{"ga": GroupAddress(GA).raw, "senders": [IndividualAddress(s).raw for s in senders]}] if senders else []}], "devices": []}
        tree = c31.build_tree(c, rnd)
        with tempfile.TemporaryDirectory() as d:
            p = Path(d) / "k.knxkeys"
            p.write_text(c31.to_xml(tree, c31.signature(tree, "pw")), encoding="utf-8")
            _KEYRINGS[k] = sync_load_keyring(p, "pw")
    return _KEYRINGS[k]


def make_node(key, senders, loop):
    """a started-enough XKNX with Data Secure tables, a recording interface, a Switch on both addresses"""
    from xknx import XKNX
    from xknx.devices import Switch
    from xknx.secure.data_secure import DataSecure
    from xknx.telegram import GroupAddress, IndividualAddress

    m = Mock()
    m.start = AsyncMock()
    m.stop = AsyncMock()
    with patch("xknx.xknx.knx_interface_factory", return_value=m):
        xknx = XKNX()
    xknx.current_address = IndividualAddress("1.1.1")
    # the real initialisation path: a keyring (written by the independent writer of C31) -> CEMIHandler.data_secure_init
    xknx.cemi_handler.data_secure_init(keyring_for(key, tuple(senders)))
    if xknx.cemi_handler.data_secure is not None:
        xknx.cemi_handler.data_secure._sequence_number_sending = 5
    wire = []

    async def send_cemi(cemi):
        wire.append(cemi)
        xknx.cemi_handler._l_data_confirmation_event.set()

    m.send_cemi = send_cemi
    obs = {"device": 0, "cb": 0, "keyissue": 0}
    for ga in (GA, GA_PLAIN):
        sw = Switch(xknx, "sw" + ga, group_address=ga)
        orig = sw.process

        def proc(t, orig=orig):
            obs["device"] += 1
            return orig(t)

        sw.process = proc
        xknx.devices.async_add(sw)
    xknx.telegram_queue.register_telegram_received_cb(lambda t: obs.__setitem__("cb", obs["cb"] + 1))
    xknx.telegram_queue.register_data_secure_group_key_issue_cb(lambda t: obs.__setitem__("keyissue", obs["keyissue"] + 1))
    return xknx, wire, obs


def secure_frame(key, src, dst, tpci_kind, seq, apdu_raw, alg_enc=True, scf_extra=0):
    """an L_Data.ind carrying a secure APDU, built with the library's SecureData (its octets are checked by C19)"""
    from xknx.cemi import CEMIFrame, CEMILData, CEMIMessageCode
    from xknx.secure.data_secure_asdu import SecureData, SecurityAlgorithmIdentifier, SecurityALService, SecurityControlField
    from xknx.telegram import GroupAddress, IndividualAddress, Telegram, apci
    from xknx.telegram import tpci as T
    from xknx.telegram.apci import SecureAPDU

    tp = T.TDataGroup() if tpci_kind == "group" else T.TDataTagGroup()
    data = CEMILData.init_from_telegram(Telegram(GroupAddress(dst), tpci=tp, payload=apci.GroupValueRead()), src_addr=IndividualAddress(src))
    scf = SecurityControlField(algorithm=SecurityAlgorithmIdentifier.CCM_ENCRYPTION if alg_enc else SecurityAlgorithmIdentifier.CCM_AUTHENTICATION,
                               service=SecurityALService.S_A_DATA, system_broadcast=False, tool_access=False)
    sd = SecureData.init_from_plain_apdu(key=key, apdu=apdu_raw, scf=scf, sequence_number=seq,
                                         address_fields_raw=data.src_addr.to_knx() + data.dst_addr.to_knx(),
                                         address_type=data.address_type, frame_format=data.flags.frame_format, tpci=data.tpci)
    data.payload = SecureAPDU(scf=scf, secured_data=sd)
    return CEMIFrame(code=CEMIMessageCode.L_DATA_IND, data=data).to_knx()


def receive(loop, node, raw):
    """feed one frame; returns outcome record"""
    xknx, _wire, obs = node
    for k in obs:
        obs[k] = 0
    while not xknx.telegrams.empty():
        xknx.telegrams.get_nowait()
    out = "discarded"
    from xknx.management.management import Management  # noqa: PLC0415

    mgmt = []
    orig = Management.process

    def counted(self, telegram):
        mgmt.append(telegram)
        return orig(self, telegram)

    try:
        with patch.object(Management, "process", counted):
            xknx.cemi_handler.handle_raw_cemi(raw)
    except Exception as ex:  # noqa: BLE001 - the receive path must not raise
        return {"out": "raised", "exc": type(ex).__name__, "tg": None}
    tg = None
    if mgmt:                                    # handed to the management layer (point-to-point, broadcast and tag-group telegrams)
        out = "delivered"
        tg = mgmt[0]
    if not xknx.telegrams.empty():
        tg = xknx.telegrams.get_nowait()
        out = "delivered"
        try:                                    # what devices and callbacks see
            loop.run_until_complete(xknx.telegram_queue.process_telegram_incoming(tg))
        except Exception:  # noqa: BLE001
            pass
    return {"out": out, "tg": tg}


def _sync(coro, loop):
    return loop.run_until_complete(coro)


def cases15(ck, rnd, loop):
    from xknx.dpt import DPTArray, DPTBinary
    from xknx.telegram import GroupAddress, Telegram, apci

    out = []
    lens = [1, 2, 3, 14, 15, 16, 17, 50, 100, 200, 240] if ck.tier == "quick" else list(range(1, 241))
    for ln in lens:
        for rep in range(2 if ck.tier == "quick" else 1):
            key = bytes(rnd.randrange(256) for _ in range(16))
            sender = make_node(key, [], loop)
            receiver = make_node(key, ["1.1.1"], loop)
            if ln == 1:
                pl = apci.GroupValueWrite(DPTBinary(rnd.randrange(2))) if rep else apci.GroupValueRead()
            else:
                pl = (apci.GroupValueWrite if rep == 0 else apci.GroupValueResponse)(DPTArray(tuple(rnd.randrange(256) for _ in range(ln - 1))))
            tg = Telegram(GroupAddress(GA), payload=pl)
            _sync(sender[0].cemi_handler.send_telegram(tg), loop)
            cemi = sender[1][-1]
            raw = bytearray(cemi.to_knx())
            raw[0] = 0x29
            if rep == 1 or rnd.random() < 0.3:              # a corrupted copy (one flipped bit in payload or MAC) reaches the receiver first
                bad = bytearray(raw)
                bad[rnd.randrange(18, len(bad))] ^= 1 << rnd.randrange(8)
                receive(loop, receiver, bytes(bad))
            r = receive(loop, receiver, bytes(raw))
            got = r["tg"]
            out.append(({"p": "C15", "n": ln, "out": r["out"], "same": 1 if got is not None and got.payload == pl else 0,
                         "secure": 1 if got is not None and got.data_secure else 0, "keyissue": receiver[2]["keyissue"]}, bytes(raw).hex()))
    # tag-group telegrams (T_Data_Tag_Group on a keyed group address) through the real sending path: the receiver hands them to the management
    # layer - the same APDU, marked Data Secure
    from xknx.telegram import tpci as T  # noqa: PLC0415

    for ln in (1, 2, 3, 15, 16, 100, 240):
        key = bytes(rnd.randrange(256) for _ in range(16))
        sender = make_node(key, [], loop)
        receiver = make_node(key, ["1.1.1"], loop)
        pl = apci.GroupValueRead() if ln == 1 else apci.GroupValueWrite(DPTArray(tuple(rnd.randrange(256) for _ in range(ln - 1))))
        _sync(sender[0].cemi_handler.send_telegram(Telegram(GroupAddress(GA), tpci=T.TDataTagGroup(), payload=pl)), loop)
        raw = bytearray(sender[1][-1].to_knx())
        raw[0] = 0x29
        r = receive(loop, receiver, bytes(raw))
        got = r["tg"]
        out.append(({"p": "C15", "n": ln, "out": r["out"], "same": 1 if got is not None and got.payload == pl and isinstance(got.tpci, T.TDataTagGroup) else 0,
                     "secure": 1 if got is not None and got.data_secure else 0, "keyissue": receiver[2]["keyissue"]}, bytes(raw).hex()))
    # authentication-only frames and tag-group frames are built with SecureData directly (outgoing_cemi always encrypts)
    for alg_enc, tpk in ((False, "group"), (True, "taggroup"), (False, "taggroup")):
        for ln in (2, 3, 15, 16, 100):
            key = bytes(rnd.randrange(256) for _ in range(16))
            receiver = make_node(key, ["1.1.7"], loop)
            pl = apci.GroupValueWrite(DPTArray(tuple(rnd.randrange(256) for _ in range(ln - 1))))
            raw = secure_frame(key, "1.1.7", GA, tpk, rnd.randrange(1, 2**48), pl.to_knx(), alg_enc)
            if tpk == "taggroup":
                continue            # tag-group frames are not telegrams for the queue: no claim here
            r = receive(loop, receiver, raw)
            got = r["tg"]
            out.append(({"p": "C15", "n": ln, "out": r["out"], "same": 1 if got is not None and got.payload == pl else 0,
                         "secure": 1 if got is not None and got.data_secure else 0, "keyissue": receiver[2]["keyissue"]}, raw.hex()))
    return out


def cases16(ck, rnd, loop):
    from xknx.dpt import DPTArray
    from xknx.telegram import apci

    out = []
    lens = [1, 2, 3, 15, 16] if ck.tier == "quick" else [1, 2, 3, 8, 15, 16, 40]
    for ln in lens:
        for alg_enc in (True, False):
            key = bytes(rnd.randrange(256) for _ in range(16))
            pl = apci.GroupValueWrite(DPTArray(tuple(rnd.randrange(256) for _ in range(ln - 1)))) if ln > 1 else apci.GroupValueRead()
            seq = rnd.randrange(1, 2**47)
            raw = secure_frame(key, "1.1.7", GA, "group", seq, pl.to_knx(), alg_enc)
            if ln >= 3:                                          # a payload ending in zero octets, which are then stripped (MAC kept, length adjusted)
                plz = apci.GroupValueWrite(DPTArray(tuple([rnd.randrange(1, 256)] * (ln - 2) + [0] if ln > 2 else [0])))
                rawz = secure_frame(key, "1.1.7", GA, "group", seq, plz.to_knx(), alg_enc)
                tz = bytearray(rawz[:-5] + rawz[-4:])
                tz[8] = (tz[8] - 1) % 256
                receiver = make_node(key, ["1.1.7"], loop)
                rz = receive(loop, receiver, bytes(tz))
                out.append(({"p": "C16", "mut": "resized", "n": ln, "bit": -1, "out": rz["out"], "same": 0}, bytes(tz).hex()))

            def try_frame(mutated, mut, bit=-1, key2=None, senders=("1.1.7",)):
                receiver = make_node(key2 or key, list(senders), loop)
                r = receive(loop, receiver, mutated)
                got = r["tg"]
                out.append(({"p": "C16", "mut": mut, "n": ln, "bit": bit, "out": r["out"],
                             "same": 1 if got is not None and got.payload == pl and got.data_secure else 0}, mutated.hex()))

            for bit in range(len(raw) * 8):
                m = bytearray(raw)
                m[bit // 8] ^= 1 << (7 - bit % 8)
                try_frame(bytes(m), "bit", bit)
            try_frame(raw, "wrongkey", key2=bytes(16))
            # the interface is restarted with a keyring holding another key for the address: the old key is not accepted any more, the new one is
            key_new = bytes(b ^ 0x5A for b in key)
            receiver = make_node(key, ["1.1.7"], loop)
            receiver[0].cemi_handler.data_secure_init(keyring_for(key_new, ("1.1.7",)))
            r = receive(loop, receiver, raw)
            out.append(({"p": "C16", "mut": "wrongkey", "n": ln, "bit": -1, "out": r["out"], "same": 0}, raw.hex() + " (old key after re-initialisation)"))
            raw_new = secure_frame(key_new, "1.1.7", GA, "group", seq, pl.to_knx(), alg_enc)
            r = receive(loop, receiver, raw_new)
            out.append(({"p": "C16", "mut": "genuine", "n": ln, "bit": -1, "out": r["out"], "same": 1 if r["tg"] is not None and r["tg"].payload == pl and r["tg"].data_secure else 0},
                        raw_new.hex() + " (new key after re-initialisation)"))
            for cut in range(1, 6):
                t = bytearray(raw[:-cut])
                t[8] = (t[8] - cut) % 256                   # keep the NPDU length consistent with the shorter frame
                try_frame(bytes(t), "truncated")
            try_frame(raw, "othersrc", senders=("1.1.8",))     # the sender is not in the receiver's table
            for k in (1, 2, 3):                                  # zero octets appended to the secured APDU, MAC kept, NPDU length adjusted
                t = bytearray(raw[:-4] + bytes(k) + raw[-4:])
                t[8] = (t[8] + k) % 256
                try_frame(bytes(t), "resized")
            z = bytearray(raw)
            while len(z) > 23 and z[-5] == 0 and False:
                pass
    return out


def cases18(ck, rnd, loop):
    from xknx.cemi import CEMIFrame, CEMILData, CEMIMessageCode
    from xknx.dpt import DPTArray, DPTBinary
    from xknx.telegram import GroupAddress, IndividualAddress, Telegram, apci

    out = []
    key = bytes(range(16))
    # plain frames to a keyed and to an unkeyed address
    for ga, keyed in ((GA, 1), (GA_PLAIN, 0)):
        for pl in (apci.GroupValueWrite(DPTBinary(1)), apci.GroupValueResponse(DPTBinary(0)), apci.GroupValueRead(), apci.GroupValueWrite(DPTArray((1, 2, 3)))):
            receiver = make_node(key, ["1.1.7"], loop)
            raw = CEMIFrame(code=CEMIMessageCode.L_DATA_IND, data=CEMILData.init_from_telegram(Telegram(GroupAddress(ga), payload=pl), src_addr=IndividualAddress("1.1.7"))).to_knx()
            r = receive(loop, receiver, raw)
            out.append(({"p": "C18", "kind": "plain_in", "keyed": keyed, "out": r["out"], "keyissue": receiver[2]["keyissue"], "device": receiver[2]["device"],
                         "cb": receiver[2]["cb"], "secure": 1 if r["tg"] is not None and r["tg"].data_secure else 0}, raw.hex()))
    # outgoing telegrams
    for ga, keyed in ((GA, 1), (GA_PLAIN, 0)):
        for pl in (apci.GroupValueWrite(DPTBinary(1)), apci.GroupValueRead(), apci.GroupValueResponse(DPTArray((9, 9)))):
            node = make_node(key, [], loop)
            _sync(node[0].cemi_handler.send_telegram(Telegram(GroupAddress(ga), payload=pl)), loop)
            raw = node[1][-1].to_knx()
            out.append(({"p": "C18", "kind": "out", "keyed": keyed, "onwire_secure": 1 if (raw[9] & 0x03) == 0x03 and raw[10] == 0xF1 else 0}, raw.hex()))
    # the keyring is loaded again while the system clock is wrong (before 2018: no valid initial sequence number can be derived): the
    # re-initialisation fails, the application handles the error - the addresses stay secured with what was loaded before
    def failed_reinit(node, senders):
        with patch("time.time", return_value=1514900000.0):
            try:
                node[0].cemi_handler.data_secure_init(keyring_for(key, tuple(senders)))
            except Exception:  # noqa: BLE001 - DataSecureError: handled by the application
                pass

    for pl in (apci.GroupValueWrite(DPTBinary(1)), apci.GroupValueRead(), apci.GroupValueWrite(DPTArray((1, 2, 3)))):
        receiver = make_node(key, ["1.1.7"], loop)
        failed_reinit(receiver, ["1.1.7"])
        raw = CEMIFrame(code=CEMIMessageCode.L_DATA_IND, data=CEMILData.init_from_telegram(Telegram(GroupAddress(GA), payload=pl), src_addr=IndividualAddress("1.1.7"))).to_knx()
        r = receive(loop, receiver, raw)
        out.append(({"p": "C18", "kind": "plain_in", "keyed": 1, "out": r["out"], "keyissue": receiver[2]["keyissue"], "device": receiver[2]["device"],
                     "cb": receiver[2]["cb"], "secure": 1 if r["tg"] is not None and r["tg"].data_secure else 0}, raw.hex() + " (after a failed re-initialisation)"))
        node = make_node(key, [], loop)
        failed_reinit(node, [])
        before = len(node[1])
        try:
            _sync(node[0].cemi_handler.send_telegram(Telegram(GroupAddress(GA), payload=pl)), loop)
        except Exception:  # noqa: BLE001 - any refusal at the call
            pass
        if len(node[1]) > before:
            raw = node[1][-1].to_knx()
            out.append(({"p": "C18", "kind": "out", "keyed": 1, "onwire_secure": 1 if (raw[9] & 0x03) == 0x03 and raw[10] == 0xF1 else 0}, raw.hex() + " (after a failed re-initialisation)"))
        else:
            out.append(({"p": "C18", "kind": "out", "keyed": 1, "onwire_secure": -1}, "nothing sent (after a failed re-initialisation)"))
    # the sending sequence number runs out: telegrams to a secured address are refused, never sent plain
    from xknx.exceptions import DataSecureError

    node = make_node(key, [], loop)
    if node[0].cemi_handler.data_secure is None:
        out.append(({"p": "C18", "kind": "out", "keyed": 1, "onwire_secure": 0}, "Data Secure is not active although the keyring holds a key for the address"))
    else:
        node[0].cemi_handler.data_secure._sequence_number_sending = 2**48 - 2
    for i in range(5 if node[0].cemi_handler.data_secure is not None else 0):
        before = len(node[1])
        try:
            _sync(node[0].cemi_handler.send_telegram(Telegram(GroupAddress(GA), payload=apci.GroupValueWrite(DPTBinary(i % 2)))), loop)
        except DataSecureError:
            pass
        except Exception as ex:  # noqa: BLE001 - any refusal at the call
            pass
        if len(node[1]) > before:
            raw = node[1][-1].to_knx()
            out.append(({"p": "C18", "kind": "out", "keyed": 1, "onwire_secure": 1 if (raw[9] & 0x03) == 0x03 and raw[10] == 0xF1 else 0}, raw.hex()))
        else:
            out.append(({"p": "C18", "kind": "out", "keyed": 1, "onwire_secure": -1}, "nothing sent"))
    # correctly authenticated frames whose decrypted content is malformed
    bad_apdus = [b"", b"\x00", b"\x03", b"\x00\x80\x01" * 1 + b"", b"\x03\xD5", b"\x03\xD7\x01", b"\x02\xC0", b"\x03\xF1\x00\x00", b"\x07", b"\xFF\xFF", b"\x03\xE1", b"\x00\x3F" * 40]
    for apdu in bad_apdus + [bytes(rnd.randrange(256) for _ in range(rnd.randrange(1, 12))) for _ in range(40 if ck.tier == "quick" else 600)]:
        for alg_enc in (True, False):
            receiver = make_node(key, ["1.1.7"], loop)
            try:
                raw = secure_frame(key, "1.1.7", GA, "group", rnd.randrange(1, 2**40), apdu, alg_enc)
            except Exception:  # noqa: BLE001 - cannot be built with the library's writer
                continue
            from xknx.telegram.apci import APCI
            try:
                APCI.from_knx(apdu)
                continue                    # well-formed after all: not a case of this family
            except Exception:  # noqa: BLE001
                pass
            r = receive(loop, receiver, raw)
            out.append(({"p": "C18", "kind": "malformed", "out": r["out"]}, raw.hex()))
    for _ in range(200 if ck.tier == "quick" else 5000):
        receiver = make_node(key, ["1.1.7"], loop)
        raw = bytes([0x29, 0, 0xBC, 0xD0, 0x11, 0x07, 0x04, 0x00]) + bytes([rnd.randrange(20)]) + bytes(rnd.randrange(256) for _ in range(rnd.randrange(0, 30)))
        r = receive(loop, receiver, raw)
        out.append(({"p": "C18", "kind": "garbage", "out": r["out"]}, raw.hex()))
    return out


def _run(ck, pid, gen):
    rnd = random.Random(ck.seed)
    tlc.mc(ck, "secure/DataSecure_MC", require_actions=False)
    with virtual_world(ck.seed) as loop:
        pairs = gen(ck, rnd, loop)
    cases = [c for c, _ in pairs]
    res = tlc.batch(ck, "secure/DataSecure_Judge", cases, min_per_shard=3000)
    seen = set()
    for idx in sorted(res.bad):
        c = cases[idx]
        key = dict(c)
        if c.get("mut") == "bit":
            key = {"p": pid, "mut": "bit", "octet": c["bit"] // 8 if c["bit"] // 8 < 18 else ("payload" if c["bit"] // 8 < 18 + c["n"] else "mac"), "out": c["out"], "same": c["same"]}
        k = str(key)
        if k in seen:
            continue
        seen.add(k)
        ck.violation(key, f"Data Secure case not allowed by the specification: {c} frame={pairs[idx][1][:160]}", {"case": c, "hex": pairs[idx][1]})
    muts = []
    for c in cases[:4000]:
        if len(muts) >= 40:
            break
        if pid == "C15":
            muts.append(dict(c, same=0))
        elif pid == "C16" and c["mut"] == "bit" and c["out"] == "discarded":
            muts.append(dict(c, out="delivered", same=0))
        elif pid == "C18" and c["kind"] == "plain_in" and c["keyed"] == 1:
            muts.append(dict(c, out="delivered"))
        elif pid == "C18" and c["kind"] == "out" and c["keyed"] == 1:
            muts.append(dict(c, onwire_secure=0))
    r2 = tlc.batch(ck, "secure/DataSecure_Judge", muts, min_per_shard=3000)
    if not muts or len(r2.bad) != len(muts):
        raise MachineryError(f"binding self-test: {len(muts) - len(r2.bad)} of {len(muts)} corrupted cases accepted")
    import collections

    ck.add(evaluations=len(cases), distinct_nontrivial=len({str({k: v for k, v in c.items() if k not in ("bit",)}) for c in cases}),
           outcomes=dict(collections.Counter(c.get("out", "-") for c in cases)), selftest_corrupted_rejected=len(muts),
           rule="distinct = case record without the bit index")
    ck.sample(cases[0])


def run15(ck):
    _run(ck, "C15", cases15)


def run16(ck):
    ck.assume("a change of the message code, additional-info length, NPDU length, APCI bits or the reserved / system-broadcast / acknowledge / confirm bits gets no verdict on acceptance: only 'does not raise, never delivers a different APDU'")
    _run(ck, "C16", cases16)


def run18(ck):
    _run(ck, "C18", cases18)


def replay(ck, path):
    import json

    d = json.loads(open(path).read())["replay"]
    print(d)
    res = tlc.batch(ck, "secure/DataSecure_Judge", [d["case"]])
    return 1 if res.bad else 0
