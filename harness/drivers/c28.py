"""C28 - IP Secure wrapping is correct, tamper-evident and standard-conformant.

spec : spec/lib/AES.tla, spec/secure/Ccm.tla, spec/secure/IpSecure.tla (reference written from the specification), IpSecure_Judge.tla
code : real _IPSecureTransportLayer.encrypt_frame / decrypt_frame (through transport objects with chosen key, session id, sequence
       information, serial number, message tag), SecureSequenceTimer.send_timer_notify / verify_timer_notify_mac,
       SecureSession.handshake (SessionResponse verdict, SessionAuthenticate MAC).
anchor: the KNX specification examples carried by the repository's tests (AN159 routing indication wrapper, session response and
       session authenticate MACs) must be reproduced by the TLA+ reference first - otherwise the reference is wrong (machinery failure).
"""
from __future__ import annotations

import random
from unittest.mock import patch

from .. import tlc
from ..core import MachineryError

hx = lambda s: list(bytes.fromhex(s))
XOR = bytes(a ^ b for a, b in zip(bytes.fromhex("0aa227b4fd7a32319ba9960ac036ce0e5c4507b5ae55161f1078b1dcfb3cb631"),
                                  bytes.fromhex("bdf099909923143ef0a5de0b3be3687bc5bd3cf5f9e6f901699cd870ec1ff824")))
ANCHORS = [
    # AN159: RoutingIndication in a secure wrapper, backbone key 00..0F
    {"t": "wrap", "key": hx("000102030405060708090a0b0c0d0e0f"), "header": hx("061009500037"), "sid": hx("0000"), "seq": hx("c0c1c2c3c4c5"),
     "serial": hx("00fa12345678"), "tag": hx("affe"), "payload": hx("0610053000112900bcd011590ade010081"),
     "out": hx("0000" "c0c1c2c3c4c5" "00fa12345678" "affe" "b7ee7e8a1c2f7bbabec775fd6e10d0bc4b" "7212a03aaae49da85689774c1d2b4da4"), "unwrapped": 1},
    # AN159: SessionResponse MAC, device authentication code of "trustme"
    {"t": "sresp", "key": hx("e158e4012047bd6cc41aafbc5c04c1fc"), "header": hx("061009520038"), "sid": hx("0001"), "xor": list(XOR),
     "mac": hx("a922505aaa436163570bd5494c2df2a3"), "accepted": 1},
    # AN159: SessionAuthenticate MAC, user password key of "secret", user id 1
    {"t": "sauth", "key": hx("03fcedb66660251ec81a1a716901696a"), "header": hx("061009530018"), "userid": 1, "xor": list(XOR),
     "mac": hx("1f1d59ea9f12a152e5d9727f08462cde")},
]


def run(ck):
    import asyncio

    import xknx.knxip as k
    from xknx.exceptions import CouldNotParseKNXIP
    from xknx.io import ip_secure
    from xknx.io.ip_secure import SecureSequenceTimer, SecureSession, _IPSecureTransportLayer
    from xknx.knxip import KNXIPFrame

    from ..knxip_corpus import bodies

    rnd = random.Random(ck.seed)
    ra = tlc.batch(ck, "secure/IpSecure_Judge", ANCHORS, shards=1)
    if ra.bad:
        raise MachineryError(f"the TLA+ IP Secure reference does not reproduce the specification examples {sorted(ra.bad)}")

    class TL(_IPSecureTransportLayer):
        def __init__(self, key, sid, seq, tag):
            self._key, self.session_id, self.seq, self.tag = key, sid, seq, tag

        def get_sequence_information(self):
            return self.seq.to_bytes(6, "big")

        def get_message_tag(self):
            # as in secure routing, where every call draws a new random tag: the first call gives the tag of this frame, later calls others
            self.tag_calls = getattr(self, "tag_calls", 0) + 1
            return self.tag if self.tag_calls == 1 else bytes(b ^ (0x10 + self.tag_calls) for b in self.tag)

    cases = []
    loop = asyncio.new_event_loop()
    asyncio.set_event_loop(loop)
    try:
        pool = [b for b in bodies(rnd, 10) if type(b).__name__ not in ("SecureWrapper",)]
        nwrap = 40 if ck.tier == "quick" else 600
        for i in range(nwrap):
            body = pool[(i * 7) % len(pool)]
            try:
                frame = KNXIPFrame.init_from_body(body)
                plain = frame.to_knx()
            except Exception:  # noqa: BLE001
                continue
            if len(plain) > 120 and ck.tier == "quick":
                continue
            key, sid = rnd.randbytes(16), rnd.choice([0, 1, 0xFFFF, rnd.randrange(65536)])
            seq = rnd.choice([0, 1, 2**24 - 1, 2**24, 2**48 - 1, rnd.randrange(2**48)])
            serial, tag = rnd.randbytes(6), rnd.randbytes(2)
            tl = TL(key, sid, seq, tag)
            with patch.object(ip_secure, "XKNX_SERIAL_NUMBER", serial):
                try:
                    w = tl.encrypt_frame(frame)
                    raw = w.to_knx()
                    back = TL(key, sid, 0, tag).decrypt_frame(KNXIPFrame.from_knx(raw)[0])
                    same = 1 if back.to_knx() == plain else 0
                except Exception as ex:  # noqa: BLE001 - recorded as a mismatch
                    raw, same = bytes(6), 0
            cases.append({"t": "wrap", "key": list(key), "header": list(raw[:6]), "sid": list(sid.to_bytes(2, "big")), "seq": list(seq.to_bytes(6, "big")),
                          "serial": list(serial), "tag": list(tag), "payload": list(plain), "out": list(raw[6:]), "unwrapped": same})
            if i % (4 if ck.tier == "quick" else 2) == 0 and len(raw) > 6:
                rx = TL(key, sid, 0, tag)

                def accepted(octets, rcv=rx):
                    try:
                        f, _ = KNXIPFrame.from_knx(bytes(octets))
                        rcv.decrypt_frame(f)
                        return 1
                    except Exception:  # noqa: BLE001 - any rejection
                        return 0

                for bit in range(len(raw) * 8):
                    m = bytearray(raw)
                    m[bit // 8] ^= 1 << (7 - bit % 8)
                    o = bit // 8
                    what = "header" if o < 6 else "sid" if o < 8 else "seq" if o < 14 else "serial" if o < 20 else "tag" if o < 22 else "ciphertext" if o < len(raw) - 16 else "mac"
                    cases.append({"t": "tamper", "what": what, "accepted": accepted(m)})
                cases.append({"t": "tamper", "what": "wrongkey", "accepted": accepted(raw, TL(rnd.randbytes(16), sid, 0, tag))})
                cases.append({"t": "tamper", "what": "wrongsession", "accepted": accepted(raw, TL(key, (sid + 1) % 65536, 0, tag))})
        # timer notifies
        for i in range(20 if ck.tier == "quick" else 300):
            key = rnd.randbytes(16)
            cap = []

            async def mk():
                return SecureSequenceTimer(backbone_key=key, latency_ms=1000, transport_send=lambda f, a: cap.append(f))

            st = loop.run_until_complete(mk())
            timer = rnd.choice([0, 1, 2**32, 2**48 - 1, rnd.randrange(2**48)])
            st._clock_difference = timer - st._monotonic_ms()
            serial, tag = rnd.randbytes(6), rnd.randbytes(2)
            st.send_timer_notify(message_tag=tag, serial_number=serial)
            tn = cap[0].body
            raw = cap[0].to_knx()
            cases.append({"t": "notify", "key": list(key), "header": list(raw[:6]), "timer": list(tn.timer_value.to_bytes(6, "big")), "serial": list(tn.serial_number),
                          "tag": list(tn.message_tag), "mac": list(tn.message_authentication_code)})
            for mut in ("none", "timer", "serial", "tag", "mac"):
                t2 = k.TimerNotify(timer_value=tn.timer_value ^ (1 if mut == "timer" else 0), serial_number=bytes([tn.serial_number[0] ^ (1 if mut == "serial" else 0)]) + tn.serial_number[1:],
                                   message_tag=bytes([tn.message_tag[0] ^ (1 if mut == "tag" else 0)]) + tn.message_tag[1:],
                                   message_authentication_code=bytes([tn.message_authentication_code[0] ^ (1 if mut == "mac" else 0)]) + tn.message_authentication_code[1:])
                try:
                    st.verify_timer_notify_mac(t2)
                    acc = 1
                except Exception:  # noqa: BLE001
                    acc = 0
                cases.append({"t": "notifyv", "key": list(key), "header": list(raw[:6]), "timer": list(t2.timer_value.to_bytes(6, "big")), "serial": list(t2.serial_number),
                              "tag": list(t2.message_tag), "mac": list(t2.message_authentication_code), "accepted": acc})
        # session handshake
        from cryptography.hazmat.primitives import serialization
        from cryptography.hazmat.primitives.asymmetric.x25519 import X25519PrivateKey
        from xknx.secure.security_primitives import calculate_message_authentication_code_cbc, encrypt_data_ctr

        for i in range(6 if ck.tier == "quick" else 40):
            pw_dev, pw_user, uid = f"dev{i}", f"user{i}", rnd.randrange(1, 128)

            async def mks():
                return SecureSession(("10.0.0.2", 3671), user_id=uid, user_password=pw_user, device_authentication_password=pw_dev)

            sess = loop.run_until_complete(mks())
            sess._private_key = X25519PrivateKey.generate()
            sess.public_key = sess._private_key.public_key().public_bytes(serialization.Encoding.Raw, serialization.PublicFormat.Raw)
            spriv = X25519PrivateKey.generate()
            spub = spriv.public_key().public_bytes(serialization.Encoding.Raw, serialization.PublicFormat.Raw)
            sid = rnd.randrange(1, 65536)
            xor = bytes(a ^ b for a, b in zip(sess.public_key, spub))
            dk = sess._device_authentication_code
            header = bytes.fromhex("061009520038")
            mac_cbc = calculate_message_authentication_code_cbc(key=dk, additional_data=header + sid.to_bytes(2, "big") + xor)
            _, good = encrypt_data_ctr(key=dk, counter_0=ip_secure.COUNTER_0_HANDSHAKE, mac_cbc=mac_cbc)
            for mut in ("none", "mac", "sid", "key"):
                mac = bytes([good[0] ^ (1 if mut == "mac" else 0)]) + good[1:]
                sid2 = sid ^ (1 if mut == "sid" else 0)
                pub2 = bytes([spub[0] ^ (1 if mut == "key" else 0)]) + spub[1:]
                try:
                    amac = sess.handshake(k.SessionResponse(secure_session_id=sid2, ecdh_server_public_key=pub2, message_authentication_code=mac))
                    acc = 1
                except Exception:  # noqa: BLE001
                    acc, amac = 0, None
                xor2 = bytes(a ^ b for a, b in zip(sess.public_key, pub2))
                cases.append({"t": "sresp", "key": list(dk), "header": list(header), "sid": list(sid2.to_bytes(2, "big")), "xor": list(xor2), "mac": list(mac), "accepted": acc})
                if amac is not None:
                    cases.append({"t": "sauth", "key": list(sess._user_password), "header": hx("061009530018"), "userid": uid, "xor": list(xor2), "mac": list(amac)})
    finally:
        loop.close()
        asyncio.set_event_loop(None)
    heavy = [c for c in cases if c["t"] != "tamper"]
    light = [c for c in cases if c["t"] == "tamper"]
    res = tlc.batch(ck, "secure/IpSecure_Judge", heavy, shards=16, timeout=3000, min_per_shard=1)
    for idx in sorted(res.bad):
        c = heavy[idx]
        ck.violation({"t": c["t"], "len": len(c.get("payload", [])), "accepted": c.get("accepted"), "unwrapped": c.get("unwrapped")},
                     f"IP Secure {c['t']} case differs from the KNX reference: " + str({kk: (bytes(v).hex() if isinstance(v, list) else v) for kk, v in c.items()})[:400],
                     {kk: (bytes(v).hex() if isinstance(v, list) else v) for kk, v in c.items()})
    res2 = tlc.batch(ck, "secure/IpSecure_Judge", light, min_per_shard=5000)
    seen = set()
    for idx in sorted(res2.bad):
        c = light[idx]
        if c["what"] not in seen:
            seen.add(c["what"])
            ck.violation({"t": "tamper", "what": c["what"]}, f"a wrapper with a changed {c['what']} was accepted by decrypt_frame", c)
    muts = []
    for c in heavy[:60]:
        if c["t"] == "wrap" and c["out"]:
            m = dict(c, out=list(c["out"]))
            m["out"][-1] ^= 1
            muts.append(m)
        elif c["t"] in ("notify", "sauth"):
            m = dict(c, mac=list(c["mac"]))
            m["mac"][3] ^= 4
            muts.append(m)
    muts = muts[:16]
    r3 = tlc.batch(ck, "secure/IpSecure_Judge", muts, shards=8, min_per_shard=1)
    if not muts or len(r3.bad) != len(muts):
        raise MachineryError(f"binding self-test: {len(muts) - len(r3.bad)} of {len(muts)} corrupted cases accepted")
    import collections

    ck.add(evaluations=len(cases), by_type=dict(collections.Counter(c["t"] for c in cases)), anchors_reproduced=len(ANCHORS),
           distinct_nontrivial=len({(c["t"], len(c.get("payload", [])), c.get("what"), c.get("accepted")) for c in cases}), selftest_corrupted_rejected=len(muts),
           rule="distinct = (case type, payload length, changed field, verdict)")
    ck.sample({kk: (bytes(v).hex() if isinstance(v, list) else v) for kk, v in heavy[0].items()})


def replay(ck, path):
    import json

    print(json.loads(open(path).read())["replay"])
    return 1
