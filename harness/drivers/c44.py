"""C44 - address programming never creates an address conflict.

spec : spec/mgmt/AddrWriteClauses.tla (clauses), AddrWrite.tla (operational model of NM_IndividualAddress_Write, model-checked
       over every population of three devices), AddrWrite_Trace.tla (trace validation), Procs_Judge.tla (serial-number
       procedures, two-step authorization)
code : the real procedures over a real XKNX (management, P2P connections, cEMI handler, confirmations) on a simulated KNX bus
       under virtual time: every population of up to three devices over {target, two other addresses} x programming mode x
       {answers, refuses connections, silent}; the simulated devices apply address writes and restarts themselves, so the bus
       after the procedure is observed.  A device reacts 20 ms after the frame that causes the reaction (bus time).
"""
from __future__ import annotations

import asyncio
import itertools
import random

from .. import tlc
from ..core import MachineryError
from ..vloop import virtual_world

BEH = ("answers", "refuses", "silent")


class Bus:
    def __init__(self, loop, xknx, devs, latency=0.02):
        self.loop, self.xknx, self.devs, self.latency, self.ev = loop, xknx, devs, latency, []
        self.serial_plan = None      # responses to IndividualAddressSerialRead: list of (serial, addr)
        self.auth = None             # (free level, client level)
        self.lostcon, self.nsent = None, 0   # lostcon = k: the k-th frame handed over is lost on our own side (no L_Data.con, nobody hears it)

    def inject(self, data):
        from xknx.cemi import CEMIFrame, CEMIMessageCode

        raw = CEMIFrame(code=CEMIMessageCode.L_DATA_IND, data=data).to_knx()

        def go():
            try:
                self.xknx.cemi_handler.handle_raw_cemi(raw)
            except Exception as ex:  # noqa: BLE001
                self.ev.append({"ev": "raised", "what": "rx:" + type(ex).__name__})

        if self.latency:
            self.loop.call_later(self.latency, lambda: self.loop.inject(go))
        else:
            self.loop.inject(go)

    def tg(self, src, dst, tp, payload=None):
        from xknx.cemi import CEMILData

        self.inject(CEMILData(src_addr=src, dst_addr=dst, tpci=tp, payload=payload))

    async def send_cemi(self, cemi):
        from xknx.cemi import CEMIFrame, CEMIMessageCode

        d = cemi.data
        self.nsent += 1
        if self.nsent == self.lostcon:
            return
        con = CEMIFrame(code=CEMIMessageCode.L_DATA_CON, data=d).to_knx()
        self.loop.inject(self.xknx.cemi_handler.handle_raw_cemi, con)
        self.observe(d)
        for dev in list(self.devs):
            self.react(dev, d)

    def observe(self, d):
        from xknx.telegram import apci, tpci

        p = d.payload
        if isinstance(d.tpci, tpci.TDataBroadcast) and isinstance(p, apci.IndividualAddressWrite):
            self.ev.append({"ev": "write", "addr": p.address.raw})
        elif isinstance(p, apci.Restart):
            self.ev.append({"ev": "restart", "dst": d.dst_addr.raw - 0x1100})

    def react(self, dev, d):
        from xknx.telegram import GroupAddress, apci, tpci

        p = d.payload
        if isinstance(d.tpci, tpci.TDataBroadcast):
            if isinstance(p, apci.IndividualAddressRead) and dev["prog"]:
                self.tg(dev["ia"], GroupAddress(0), tpci.TDataBroadcast(), apci.IndividualAddressResponse())
            elif isinstance(p, apci.IndividualAddressWrite) and dev["prog"]:
                dev["ia"] = p.address
            return
        if d.dst_addr != dev["ia"] or dev["beh"] == "silent":
            return
        if isinstance(d.tpci, tpci.TConnect):
            if dev["beh"] == "refuses":
                self.tg(dev["ia"], d.src_addr, tpci.TDisconnect())
            else:
                dev["peer"], dev["seq"] = d.src_addr, 0
                dev["lost"] = False
        elif isinstance(d.tpci, tpci.TDisconnect):
            dev["peer"] = None
        elif isinstance(d.tpci, tpci.TDataConnected) and dev.get("peer") == d.src_addr:
            if dev["beh"] == "lossy" and not dev.get("lost"):        # the first data frame of a connection does not reach the device
                dev["lost"] = True
                return
            self.tg(dev["ia"], d.src_addr, tpci.TAck(d.tpci.sequence_number))
            if isinstance(p, apci.DeviceDescriptorRead):
                self.tg(dev["ia"], d.src_addr, tpci.TDataConnected(dev["seq"]), apci.DeviceDescriptorResponse(descriptor=0, value=0x07B0))
                dev["seq"] = (dev["seq"] + 1) % 16
            elif isinstance(p, apci.Restart):
                dev["prog"] = False
            elif isinstance(p, apci.AuthorizeRequest) and self.auth is not None:
                lvl = self.auth[0] if p.key == 0xFFFFFFFF else self.auth[1]
                self.auth_calls.append("free" if p.key == 0xFFFFFFFF else "client")
                if lvl >= 0:
                    self.tg(dev["ia"], d.src_addr, tpci.TDataConnected(dev["seq"]), apci.AuthorizeResponse(level=lvl))
                    dev["seq"] = (dev["seq"] + 1) % 16


def ia(n):
    from xknx.telegram import IndividualAddress

    return IndividualAddress(0x1100 + n)       # 1.1.n


def make(loop, pop, latency=0.02):
    from xknx import XKNX

    xknx = XKNX()
    xknx.current_address = ia(250)
    devs = [{"ia": ia(a), "prog": bool(p), "beh": b, "peer": None, "seq": 0} for a, p, b in pop]
    bus = Bus(loop, xknx, devs, latency)
    xknx.knxip_interface._interface = bus
    return xknx, bus


def popjson(devs):
    # ("lossy": a device that answers, but the first data frame of every connection is lost on the way to it - to the specification it answers)
    return [{"addr": d["ia"].raw - 0x1100, "prog": 1 if d["prog"] else 0, "beh": "answers" if d["beh"] == "lossy" else d["beh"]} for d in devs]


def run_write(pop, latency=0.02, seed=0, lostcon=None):
    from xknx.exceptions import CommunicationError, ManagementConnectionError
    from xknx.management import procedures

    with virtual_world(seed) as loop:
        async def main():
            xknx, bus = make(loop, pop, latency)
            bus.lostcon = lostcon
            xknx.task_registry.start()
            before = popjson(bus.devs)
            try:
                await procedures.nm_individual_address_write(xknx, ia(1))
                bus.ev.append({"ev": "result", "out": "ok"})
            except ManagementConnectionError:
                bus.ev.append({"ev": "result", "out": "err"})
            except CommunicationError as ex:       # the interface could not send (a lost L_Data.con): the procedure ends with the transport's error
                bus.ev.append({"ev": "result", "out": "err"} if lostcon else {"ev": "raised", "what": type(ex).__name__})
            except (Exception, asyncio.CancelledError) as ex:  # noqa: BLE001 - recorded; nothing explains it
                bus.ev.append({"ev": "raised", "what": type(ex).__name__})
            await asyncio.sleep(10)
            bus.ev.append({"ev": "after", "pop": popjson(bus.devs)})
            xknx.task_registry.stop()
            return {"pop": before, "ev": bus.ev}

        return loop.run_until_complete(main())


def run_serial(kind, responses, req, new=None, seed=0):
    """responses: list of (serial id, address) sent as answers to IndividualAddressSerialRead"""
    from xknx.exceptions import ManagementConnectionError
    from xknx.management import procedures
    from xknx.telegram import GroupAddress, apci, tpci

    ser = lambda i: bytes([0, 0, 0, 0, 0, i])
    with virtual_world(seed) as loop:
        async def main():
            xknx, bus = make(loop, [])
            xknx.task_registry.start()
            orig = bus.send_cemi

            async def send(cemi):
                await orig(cemi)
                if isinstance(cemi.data.payload, apci.IndividualAddressSerialRead):
                    for s, a in responses:
                        bus.tg(ia(a), GroupAddress(0), tpci.TDataBroadcast(), apci.IndividualAddressSerialResponse(serial=ser(s), address=ia(a)))

            bus.send_cemi = send
            case = {"t": kind, "req": req, "resp": [{"serial": s, "addr": a} for s, a in responses]}
            try:
                if kind == "sread":
                    r = await procedures.nm_individual_address_serial_number_read(xknx, ser(req))
                    case["res"] = -1 if r is None else r.raw - 0x1100
                else:
                    case["new"] = new
                    await procedures.nm_individual_address_serial_number_write(xknx, ser(req), ia(new))
                    case["out"] = "ok"
            except ManagementConnectionError:
                case["out"] = "err"
            except Exception as ex:  # noqa: BLE001
                case["out"] = "raised:" + type(ex).__name__
                case["res"] = -99
            xknx.task_registry.stop()
            return case

        return loop.run_until_complete(main())


def run_auth(free, client, seed=0):
    from xknx.exceptions import ManagementConnectionError
    from xknx.management.procedures.device.dm_authorize import dmp_authorize2_r_co

    with virtual_world(seed) as loop:
        async def main():
            xknx, bus = make(loop, [(1, 0, "answers")])
            xknx.task_registry.start()
            bus.auth, bus.auth_calls = (free, client), []
            case = {"t": "auth2", "free": free, "client": client, "res": -1}
            try:
                async with xknx.management.connection(ia(1)) as conn:
                    case["res"] = await dmp_authorize2_r_co(conn, 0x12345678)
                    case["out"] = "ok"
            except ManagementConnectionError:
                case["out"] = "err"
            except Exception as ex:  # noqa: BLE001
                case["out"] = "raised:" + type(ex).__name__
            case["calls"] = bus.auth_calls
            xknx.task_registry.stop()
            return case

        return loop.run_until_complete(main())


def populations(ck):
    rnd = random.Random(ck.seed)
    one = list(itertools.product((1, 2, 3), (0, 1), BEH))
    out = []
    for k in range(0, 4):
        for pop in itertools.product(one, repeat=k):
            if k < 3 or ck.tier == "thorough" or rnd.random() < 0.12:
                out.append(list(pop))
    return out


def run(ck):
    ck.assume("a device reacts 20 ms after the frame that causes its reaction; silent devices cannot be detected by any procedure and are outside the clauses")
    tlc.mc(ck, "mgmt/AddrWrite_MC", require_actions=False)
    pops = populations(ck)
    # second schedule: a reaction delivered in the same I/O batch as the L_Data.con of the frame that caused it (what a TCP
    # segment carrying both frames, or a routing interface confirming locally, produces) - for the populations of <= 2 devices
    lat = [0.02] * len(pops) + [0.0] * sum(1 for p in pops if len(p) <= 2)
    pops = pops + [p for p in pops if len(p) <= 2]
    # a device at the target address that only hears the repetition of the first data frame (acknowledged after the 3 s timeout), both schedules
    for extra in ([(1, 0, "lossy")], [(1, 1, "lossy")], [(1, 0, "lossy"), (2, 1, "answers")], [(1, 0, "lossy"), (3, 1, "answers")], [(2, 1, "lossy")],
                  [(1, 0, "lossy"), (2, 1, "lossy")], [(1, 0, "lossy"), (2, 1, "refuses")], [(1, 0, "lossy"), (2, 1, "silent")]):
        for la in (0.02, 0.0):
            pops.append(list(extra))
            lat.append(la)
    lost = [None] * len(pops)
    # a transmission fault on our own side at every position of the procedure: the k-th frame gets no L_Data.con and reaches nobody
    for p in ([(1, 0, "answers"), (2, 1, "answers")], [(2, 1, "answers")], [(1, 0, "answers"), (1, 1, "answers")], [(1, 1, "answers")],
              [(1, 0, "refuses"), (2, 1, "answers")], [(1, 0, "lossy"), (3, 1, "answers")], [(1, 0, "answers"), (2, 1, "answers"), (3, 1, "answers")]):
        for k in range(1, 13):
            pops.append(list(p))
            lat.append(0.02)
            lost.append(k)
    traces = [run_write(p, latency=la, seed=ck.seed, lostcon=lc) for p, la, lc in zip(pops, lat, lost)]
    res = tlc.batch(ck, "mgmt/AddrWrite_Trace", traces, min_per_shard=100)
    for idx, info in sorted(res.bad.items()):
        t = traces[idx]["ev"]
        l = info if isinstance(info, int) else 0
        e = t[l - 1] if 0 < l <= len(t) else None
        ck.violation({"population": [list(x) for x in pops[idx]], "rejected": (e or {}).get("ev"), "latency": lat[idx], "lost_frame": lost[idx]},
                     f"address write on population {pops[idx]} (addr, prog, behaviour; target 1" + (f"; our frame {lost[idx]} lost" if lost[idx] else "") + f") rejected at event {l}: {e}; events {t}",
                     {"kind": "write", "population": pops[idx], "latency": lat[idx], "lostcon": lost[idx], "trace": traces[idx], "rejected_at": l})
    cases = []
    for resp in itertools.chain.from_iterable(itertools.product(list(itertools.product((1, 2), (2, 3))), repeat=k) for k in range(0, 3)):
        for req in (1, 2):
            cases.append(run_serial("sread", list(resp), req, seed=ck.seed))
            cases.append(run_serial("swrite", list(resp), req, new=3, seed=ck.seed))
    for free, client in itertools.product((-1, 0, 1, 3, 15), (-1, 0, 2, 3, 15)):
        cases.append(run_auth(free, client, ck.seed))
    jr = tlc.judge(ck, "mgmt/Procs_Judge", cases, key=lambda c: {k: v for k, v in c.items()},
                   what=lambda c: f"management procedure result not allowed by the reference: {c}")
    muts = []
    for i, tr in enumerate(traces):
        if i in res.bad or len(muts) >= 120:
            continue
        t = tr["ev"]
        if any(e["ev"] == "write" for e in t) and len(tr["pop"]) >= 2:
            a = {"pop": [dict(d) for d in tr["pop"]], "ev": t}
            k = next(j for j, d in enumerate(a["pop"]) if not d["prog"])
            a["pop"][k] = {"addr": 1, "prog": 0, "beh": "answers"}     # the address was in use after all
            muts.append(a)
        rs = [k for k, e in enumerate(t) if e["ev"] == "restart"]
        if rs:
            b = {"pop": tr["pop"], "ev": [dict(e) for e in t]}
            b["ev"][rs[0]]["dst"] = 2                                   # another device restarted
            muts.append(b)
    r2 = tlc.batch(ck, "mgmt/AddrWrite_Trace", muts, min_per_shard=100)
    if not muts or len(r2.bad) != len(muts):
        raise MachineryError(f"binding self-test: {len(muts) - len(r2.bad)} of {len(muts)} corrupted traces accepted")
    ck.add(traces_validated_against_impl=res.accepted, populations=len(pops), writes=sum(1 for t in traces for e in t["ev"] if e["ev"] == "write"),
           procedure_cases=len(cases), selftest_corrupted_rejected=len(muts), exhaustive_up_to_devices=2 if ck.tier == "quick" else 3)
    ck.sample({"population": pops[30], "trace": traces[30]["ev"]})


def replay(ck, path):
    import json

    d = json.loads(open(path).read())["replay"]
    if d.get("kind") == "write":
        t = run_write([tuple(x) for x in d["population"]], latency=d.get("latency", 0.02), seed=ck.seed, lostcon=d.get("lostcon"))
        res = tlc.batch(ck, "mgmt/AddrWrite_Trace", [t])
        print("trace:", t, "\nrejected at:", res.bad.get(0))
        return 1 if res.bad else 0
    print("recorded case:", d)
    return 1
