"""C32 - device management requests get only their own answer.

spec : spec/io/DevMgmt.tla (+ DevMgmt_MC: client automaton against every server reaction), DevMgmt_Trace.tla
code : real UDPDeviceManagementConnection / TCPDeviceManagementConnection against a scripted server under virtual time:
       every pair of server reactions (ack / no ack / error ack / duplicate ack, answer now / twice / late / for another
       property / instance / of the other type / with an error code, indication, DisconnectRequest) for three sequential
       requests, concurrent requests, user disconnect() and TCP connection loss at chosen instants.
"""
from __future__ import annotations

import asyncio
import itertools
import random

from .. import tlc
from ..core import MachineryError
from ..vloop import ms, virtual_world

GW = ("10.0.0.2", 3671)
ACTS = [("ack", "ans"), ("ans",), ("ack",), (), ("nack",), ("ack", "late"), ("ack", "other", "ans"), ("ack", "otherinst", "ans"),
        ("ack", "wrongtype", "ans"), ("ack", "ind", "ans"), ("ack", "ans2"), ("dupack", "ans"), ("ack", "errans"),
        ("ack", "close"), ("close",), ("ind",), ("other",)]


def run_script(udp, script, reqs, user_close=None, tcp_lost=None, seed=0, disc_delay=0.0, with_cb=True, other=False):
    """script: reactions to the k-th DeviceConfigurationRequest; reqs: list of (start_time, id, kind, pid)"""
    from xknx.cemi import (CEMIFrame, CEMIMessageCode, CEMIMPropInfo, CEMIMPropReadResponse, CEMIMPropWriteResponse)
    from xknx.exceptions import CommunicationError
    from xknx.io.device_management_connection import TCPDeviceManagementConnection, UDPDeviceManagementConnection
    from xknx.knxip import (HPAI, ConnectionStateRequest, ConnectionStateResponse, ConnectRequest, ConnectResponse,
                            ConnectResponseData, DeviceConfigurationAck, DeviceConfigurationRequest, DisconnectRequest,
                            DisconnectResponse, ErrorCode, KNXIPFrame)
    from xknx.knxip.knxip_enum import ConnectRequestType
    from xknx.profile.const import ResourceObjectType

    OT = ResourceObjectType.OBJECT_KNXNETIP_PARAMETER
    ev = []
    st = {"srvseq": 0, "k": 0, "serial": 0}
    with virtual_world(seed) as loop:
        now = lambda: ms(loop.time())

        async def main():
            def ind_cb(c):
                pi = c.data.property_info
                ev.append({"ev": "ind_cb", "ot": int(pi.object_type), "inst": pi.object_instance, "pid": int(pi.property_id)})
                if with_cb == "raise":        # the application's callback fails: the indication was handed over all the same, and is no answer
                    raise RuntimeError("indication callback failed")

            # (without a callback an indication is dropped: the harness then writes the "handed to the callback" event itself, see `log`)
            if udp:
                conn = UDPDeviceManagementConnection(GW[0], GW[1], "10.0.0.1", indication_callback=ind_cb if with_cb else None)
            else:
                conn = TCPDeviceManagementConnection(GW[0], GW[1], indication_callback=ind_cb if with_cb else None)

            def deliver(body, delay=0.0, log=None):
                def go():
                    tr = conn.transport.transport
                    if tr is None or tr.is_closing():
                        return
                    raw = KNXIPFrame.init_from_body(body() if callable(body) else body).to_knx()
                    if log is not None:
                        e_ = log() if callable(log) else log
                        ev.append(e_)
                        if not with_cb and e_.get("ev") == "rx_cemi" and e_.get("type") == "ind" and conn.communication_channel is not None:
                            ev.append({"ev": "ind_cb", "ot": e_["ot"], "inst": e_["inst"], "pid": e_["pid"]})
                    if udp:
                        tr.deliver(raw, GW)
                    else:
                        tr.deliver(raw)

                if delay:
                    loop.inject_later(delay, go)
                else:
                    loop.inject(go)

            def answer(kind, pid, inst=1, delay=0.0, err=False):
                st["serial"] = (st["serial"] + 1) % 120
                val = st["serial"]
                pi = CEMIMPropInfo(object_type=OT, object_instance=inst, property_id=pid, number_of_elements=0 if err else 1)
                if kind == "read":
                    fr = CEMIFrame(code=CEMIMessageCode.M_PROP_READ_CON,
                                   data=CEMIMPropReadResponse(property_info=pi, data=b"\x07" if err else bytes([val])))
                elif kind == "write":
                    fr = CEMIFrame(code=CEMIMessageCode.M_PROP_WRITE_CON,
                                   data=CEMIMPropWriteResponse(property_info=pi, error_code=7 if err else None) if err
                                   else CEMIMPropWriteResponse(property_info=pi))
                    val = -1
                else:
                    fr = CEMIFrame(code=CEMIMessageCode.M_PROP_INFO_IND, data=CEMIMPropReadResponse(property_info=pi, data=b"\x7f"))
                    val = 127
                raw = fr.to_knx()

                def log():
                    # the server numbers its frames when they leave, so that the client always sees the expected counter
                    return {"ev": "rx_cemi", "type": kind, "ot": int(OT), "inst": inst, "pid": pid, "val": val, "err": 1 if err else 0}

                def body():
                    s = st["srvseq"]
                    st["srvseq"] = (s + 1) % 256
                    return DeviceConfigurationRequest(communication_channel_id=5, sequence_counter=s, raw_cemi=raw)

                deliver(body, delay, log)

            # other: a second management connection of the same process (another device) is opened, used and reopened meanwhile;
            # it has its own server, channel and counters - only the first connection is observed
            conn2 = UDPDeviceManagementConnection("10.0.0.7", 3671, "10.0.0.1") if other else None
            st2 = {"seq": 0}

            def gw2(data):
                f, _ = KNXIPFrame.from_knx(data)
                b = f.body

                def d2(body):
                    def go():
                        tr2 = conn2.transport.transport
                        if tr2 is not None and not tr2.is_closing():
                            tr2.deliver(KNXIPFrame.init_from_body(body() if callable(body) else body).to_knx(), ("10.0.0.7", 3671))
                    loop.inject(go)

                if isinstance(b, ConnectRequest):
                    st2["seq"] = 0
                    d2(ConnectResponse(communication_channel=9, data_endpoint=HPAI("10.0.0.7", 3671),
                                       crd=ConnectResponseData(request_type=ConnectRequestType.DEVICE_MGMT_CONNECTION)))
                elif isinstance(b, DisconnectRequest):
                    d2(DisconnectResponse(communication_channel_id=9))
                elif isinstance(b, ConnectionStateRequest):
                    d2(ConnectionStateResponse(communication_channel_id=9))
                elif isinstance(b, DeviceConfigurationRequest):
                    d2(DeviceConfigurationAck(communication_channel_id=9, sequence_counter=b.sequence_counter))
                    req = CEMIFrame.from_knx(b.raw_cemi)
                    fr = CEMIFrame(code=CEMIMessageCode.M_PROP_READ_CON, data=CEMIMPropReadResponse(property_info=req.data.property_info, data=b"\x63"))

                    def body2():
                        s2 = st2["seq"]
                        st2["seq"] = (s2 + 1) % 256
                        return DeviceConfigurationRequest(communication_channel_id=9, sequence_counter=s2, raw_cemi=fr.to_knx())
                    d2(body2)

            async def others():
                for rounds in range(2):
                    await asyncio.sleep(0.35)
                    try:
                        await conn2.connect()
                        for k in range(3):
                            await asyncio.sleep(0.45)
                            await conn2.read_property(OT, 60 + k)
                        await asyncio.sleep(1.3)
                        await conn2.disconnect()
                    except (CommunicationError, asyncio.CancelledError):
                        return

            def gw(tr, data, addr):
                if conn2 is not None and tr is getattr(conn2.transport, "transport", None):
                    return gw2(data)
                f, _ = KNXIPFrame.from_knx(data)
                b = f.body
                if isinstance(b, ConnectRequest):
                    st["srvseq"] = 0
                    deliver(ConnectResponse(communication_channel=5, data_endpoint=HPAI(*GW) if udp else HPAI(protocol=b.control_endpoint.protocol),
                                            crd=ConnectResponseData(request_type=ConnectRequestType.DEVICE_MGMT_CONNECTION)))
                elif isinstance(b, DisconnectRequest):
                    ev.append({"ev": "close", "by": "client", "t": now()})
                    deliver(DisconnectResponse(communication_channel_id=5), delay=disc_delay)
                elif isinstance(b, ConnectionStateRequest):
                    deliver(ConnectionStateResponse(communication_channel_id=5))
                elif isinstance(b, DeviceConfigurationRequest):
                    req = CEMIFrame.from_knx(b.raw_cemi)
                    pid = int(req.data.property_info.property_id)
                    kind = "read" if req.code is CEMIMessageCode.M_PROP_READ_REQ else "write"
                    cands = [i for i, (k_, p_) in outstanding.items() if (k_, p_) == (kind, pid)]
                    ev.append({"ev": "tx_req", "id": cands[0] if cands else 0, "seq": b.sequence_counter, "t": now()})
                    acts = script[st["k"]] if st["k"] < len(script) else ("ack", "ans")
                    st["k"] += 1
                    ackb = lambda code=ErrorCode.E_NO_ERROR: DeviceConfigurationAck(communication_channel_id=5, sequence_counter=b.sequence_counter, status_code=code)
                    acklog = lambda s=0: {"ev": "rx_ack", "seq": b.sequence_counter, "st": s}
                    for a in acts:
                        if a == "ack" and udp:
                            deliver(ackb(), log=acklog())
                        elif a == "dupack" and udp:
                            deliver(ackb(), log=acklog())
                            deliver(ackb(), log=acklog())
                        elif a == "nack" and udp:
                            deliver(ackb(ErrorCode.E_CONNECTION_ID), log=acklog(ErrorCode.E_CONNECTION_ID.value))
                        elif a == "ans":
                            answer(kind, pid)
                        elif a == "ans2":
                            answer(kind, pid)
                            answer(kind, pid)
                        elif a == "late":
                            answer(kind, pid, delay=12.0)
                        elif a == "other":
                            answer(kind, pid + 1)
                        elif a == "otherinst":
                            answer(kind, pid, inst=2)
                        elif a == "wrongtype":
                            answer("write" if kind == "read" else "read", pid)
                        elif a == "errans":
                            answer(kind, pid, err=True)
                        elif a == "ind":
                            answer("ind", pid)
                        elif a == "close":
                            deliver(DisconnectRequest(communication_channel_id=5, control_endpoint=HPAI(*GW)),
                                    log=lambda: {"ev": "close", "by": "server", "t": now()})

            loop.on_send = gw
            await conn.connect()
            outstanding = {}      # id -> (kind, pid): the lock of the connection is FIFO, the oldest caller transmits first

            async def one(t0, i, kind, pid):
                await asyncio.sleep(t0)
                ev.append({"ev": "call", "id": i, "kind": kind, "ot": int(OT), "inst": 1, "pid": pid})
                outstanding[i] = (kind, pid)
                try:
                    if kind == "read":
                        d = await conn.read_property(OT, pid)
                        ev.append({"ev": "ret", "id": i, "out": "ok", "val": d[0] if d else -2, "t": now()})
                    else:
                        await conn.write_property(OT, pid, b"\x01")
                        ev.append({"ev": "ret", "id": i, "out": "ok", "val": -1, "t": now()})
                except CommunicationError:
                    ev.append({"ev": "ret", "id": i, "out": "err", "val": -1, "t": now()})
                except (Exception, asyncio.CancelledError) as ex:  # noqa: BLE001 - recorded: nothing in the spec explains it
                    ev.append({"ev": "ret", "id": i, "out": "exc:" + type(ex).__name__, "val": -1, "t": now()})
                finally:
                    outstanding.pop(i, None)

            async def closer():
                await asyncio.sleep(user_close)
                ev.append({"ev": "close", "by": "user", "t": now()})
                try:
                    await conn.disconnect()
                except (Exception, asyncio.CancelledError) as ex:  # noqa: BLE001
                    ev.append({"ev": "disconnect_raised:" + type(ex).__name__})

            def lose():
                tr = conn.transport.transport
                if tr is not None and not tr.is_closing():
                    ev.append({"ev": "close", "by": "tcp", "t": now()})
                    tr.lose(ConnectionResetError("reset"))

            tasks = [asyncio.ensure_future(one(*r)) for r in reqs]
            bg = asyncio.ensure_future(others()) if other else None
            if user_close is not None:
                tasks.append(asyncio.ensure_future(closer()))
            if tcp_lost is not None and not udp:
                loop.call_later(tcp_lost, loop.inject, lose)
            await asyncio.wait(tasks, timeout=400)
            await asyncio.sleep(30)
            ev.append({"ev": "end"})
            try:
                await conn.disconnect()
            except Exception:  # noqa: BLE001
                pass
            if bg is not None:
                bg.cancel()
                try:
                    await conn2.disconnect()
                except Exception:  # noqa: BLE001
                    pass

        loop.run_until_complete(main())
    return {"udp": 1 if udp else 0, "ev": ev}


def seq_reqs(n=3, gap=0.0):
    """n sequential-ish requests (started together: the connection serialises them), alternating read / write"""
    return [(gap * i, i + 1, "read" if i % 2 == 0 else "write", 51 + i) for i in range(n)]


def plans(ck):
    rnd = random.Random(ck.seed)
    out = []
    for udp in (True, False):
        acts = ACTS if udp else [a for a in ACTS if a not in (("ack",), ("nack",), ("dupack", "ans"))]
        for s in itertools.product(acts, repeat=2):
            out.append(dict(udp=udp, script=list(s), reqs=seq_reqs(3, 40.0)))
        # concurrent requests: the second is called while the first is outstanding
        for s in itertools.product(acts, repeat=2):
            if rnd.random() < (0.5 if ck.tier == "quick" else 1.0):
                out.append(dict(udp=udp, script=list(s), reqs=[(0.0, 1, "read", 51), (0.0, 2, "read", 52), (0.5, 3, "write", 51)]))
        # user disconnect / connection loss at chosen instants of a slow exchange
        for a, t in itertools.product(((), ("ack",), ("ack", "late"), ("ack", "ans"), ("other",), ("ans",), ("ind",), ("wrongtype",), ("ack", "other"), ("ack", "ind")),
                                      (0.0, 0.001, 3.0, 5.0, 9.999, 10.0, 10.001, 15.0, 25.0, 39.0)):
            out.append(dict(udp=udp, script=[a, a], reqs=seq_reqs(2, 0.0), user_close=t))
            if not udp:
                out.append(dict(udp=udp, script=[a, a], reqs=seq_reqs(2, 0.0), tcp_lost=t))
            if t in (3.0, 9.999):      # the server takes 0.9 s to answer the DisconnectRequest: the close overlaps the waits
                out.append(dict(udp=udp, script=[a, a], reqs=seq_reqs(2, 0.0), user_close=t - 0.5, disc_delay=0.9))
        # no indication callback registered: indications (also for the very property being read) are dropped, never taken for an answer
        for s_ in ((("ack", "ind", "ans"),), (("ind",), ("ack", "ans")), (("ack", "ind"), ("ack", "ind", "ans")), (("ind", "ind"),), (("ack", "ind", "late"),)):
            out.append(dict(udp=udp, script=[tuple(x) for x in s_] * 2, reqs=seq_reqs(3, 40.0), with_cb=False))
            out.append(dict(udp=udp, script=[tuple(x) for x in s_] * 2, reqs=[(0.0, 1, "read", 51), (0.0, 2, "read", 51), (0.5, 3, "write", 51)], with_cb=False))
            out.append(dict(udp=udp, script=[tuple(x) for x in s_] * 2, reqs=seq_reqs(3, 40.0), with_cb="raise"))
            out.append(dict(udp=udp, script=[tuple(x) for x in s_] * 2, reqs=[(0.0, 1, "read", 51), (0.0, 2, "read", 51), (0.5, 3, "write", 51)], with_cb="raise"))
        for _ in range(60 if ck.tier == "quick" else 1500):
            n = rnd.randrange(2, 6)
            out.append(dict(udp=udp, script=[rnd.choice(acts) for _ in range(n + 3)],
                            reqs=[(rnd.choice([0.0, 0.0, 0.3, 11.0, 45.0]), i + 1, rnd.choice(["read", "write"]), 51 + rnd.randrange(3)) for i in range(n)],
                            user_close=rnd.choice([None, None, None, 0.0, 5.0, 12.0, 50.0]), with_cb=rnd.choice([True, True, True, False, "raise"])))
    return out


def run(ck):
    ck.assume("the scripted server numbers its own frames correctly (the counter rule for received frames is C23)")
    ck.assume("'promptly': a request outstanding when the connection closes fails no later than the acknowledgement wait already running (10 s), immediately otherwise, and nothing more is transmitted")
    tlc.mc(ck, "io/DevMgmt_MC", require_actions=False)
    ps = plans(ck)
    for i, p in enumerate(ps):           # every fourth UDP plan with a second management connection at work in the same process
        if p["udp"] and i % 4 == 1:
            p["other"] = True
    traces = [run_script(p["udp"], p["script"], p["reqs"], p.get("user_close"), p.get("tcp_lost"), ck.seed, p.get("disc_delay", 0.0), p.get("with_cb", True),
                         p.get("other", False)) for p in ps]
    res = tlc.batch(ck, "io/DevMgmt_Trace", traces, min_per_shard=60)
    for idx, info in sorted(res.bad.items()):
        t = traces[idx]["ev"]
        l = info if isinstance(info, int) else 0
        e = t[l - 1] if 0 < l <= len(t) else None
        ek = {k: v for k, v in (e or {}).items() if k not in ("t", "val")}
        p = ps[idx]
        ck.violation({"udp": p["udp"], "script": [list(a) for a in p["script"]], "reqs": [list(r) for r in p["reqs"]],
                      "user_close": p.get("user_close"), "tcp_lost": p.get("tcp_lost"), "disc_delay": p.get("disc_delay", 0.0), "event": ek},
                     f"device management trace rejected at event {l}: {e}; before: {t[max(0, l - 6):l - 1]} (plan {p})",
                     {"plan": p, "trace": t, "rejected_at": l})
    muts = []
    for i, tr in enumerate(traces[:500]):
        if i in res.bad:
            continue
        t = tr["ev"]
        oks = [k for k, e in enumerate(t) if e["ev"] == "ret" and e["out"] == "ok" and e["val"] >= 0]
        if oks and len(muts) < 150:
            a = [dict(e) for e in t]
            a[oks[0]]["val"] = (a[oks[0]]["val"] + 1) % 250          # a value no eligible answer carried
            muts.append({"udp": tr["udp"], "ev": a})
            rx = [k for k in range(oks[0]) if t[k]["ev"] == "rx_cemi" and t[k]["val"] == t[oks[0]]["val"]]
            if rx:
                b = [dict(e) for e in t]
                b[rx[-1]]["pid"] += 1                                 # the answer was for another property
                muts.append({"udp": tr["udp"], "ev": b})
        txs = [k for k, e in enumerate(t) if e["ev"] == "tx_req"]
        if len(txs) >= 2 and t[txs[1]]["seq"] != t[txs[0]]["seq"] and len(muts) < 300:
            c = [dict(e) for e in t]
            c[txs[1]]["seq"] = c[txs[0]]["seq"]                       # the counter did not advance
            muts.append({"udp": tr["udp"], "ev": c})
    r2 = tlc.batch(ck, "io/DevMgmt_Trace", muts, min_per_shard=60)
    if not muts or len(r2.bad) != len(muts):
        raise MachineryError(f"binding self-test: {len(muts) - len(r2.bad)} of {len(muts)} corrupted traces accepted")
    ck.add(traces_validated_against_impl=res.accepted, trace_events=sum(len(t["ev"]) for t in traces), plans=len(ps),
           requests=sum(1 for t in traces for e in t["ev"] if e["ev"] == "call"), selftest_corrupted_rejected=len(muts))
    ck.sample({"plan": ps[5], "trace": traces[5]["ev"][:20]})


def replay(ck, path):
    import json

    d = json.loads(open(path).read())["replay"]
    p = d["plan"]
    t = run_script(p["udp"], [tuple(a) for a in p["script"]], [tuple(r) for r in p["reqs"]], p.get("user_close"), p.get("tcp_lost"), ck.seed, p.get("disc_delay", 0.0), p.get("with_cb", True), p.get("other", False))
    res = tlc.batch(ck, "io/DevMgmt_Trace", [t])
    l = res.bad.get(0)
    print("rejected at:", l, t["ev"][l - 1] if l else None)
    return 1 if res.bad else 0
