"""C19 - Data Secure output conforms to the KNX CCM construction.

spec : spec/lib/AES.tla, spec/secure/Ccm.tla (reference written from the specification), Ccm_Judge.tla
code : xknx.secure.data_secure_asdu.SecureData.init_from_plain_apdu / to_knx over random keys, addresses, address types,
       frame formats, TPCI values, sequence numbers, SCF values, APDU lengths 0..240, both algorithms.
anchor: two frames not produced by xknx (captured group frame from the repo's tests, AN158 Annex A example) must be
       reproduced by the TLA+ reference - otherwise the reference itself is wrong (machinery failure, not a verdict).
"""
from __future__ import annotations

import random

from .. import tlc
from ..core import MachineryError

ANCHORS = [
    # captured frame 29003ce0400904001103f110002446cfef4ac085e7092ab062b44d (src 4.0.9, dst 0/4/0), GroupValueResponse (116,41,41)
    dict(key="dfdf23a59fbb40404091d1c162087e8b", seq="002446cfef4a", addr="40090400", at=1, eff=0, tpci=0, scf=0x10, alg=1,
         apdu="0040742929", out="002446cfef4ac085e7092ab062b44d"),
    # AN158 v07 Annex A example: PropertyValueWrite PID_GRP_KEY_TABLE, tool key 00..0F
    dict(key="000102030405060708090a0b0c0d0e0f", seq="000000000004", addr="ff67ff00", at=0, eff=0, tpci=0, scf=0x90, alg=1,
         apdu="03d705351001202122232425262728292a2b2c2d2e2f",
         out="00000000000467672a2308ca76a11774214ee4cf5d94909f743d050d8fc168".replace("67672a", "6767242a")),
]


def hx(s):
    return list(bytes.fromhex(s))


def gen(rnd, n, lengths):
    from xknx.cemi.flags import CEMIAddressType, CEMIFrameFormat
    from xknx.secure.data_secure_asdu import SecureData, SecurityAlgorithmIdentifier, SecurityALService, SecurityControlField
    from xknx.telegram import tpci as T

    tp = [T.TDataGroup(), T.TDataBroadcast(), T.TDataTagGroup(), T.TDataIndividual()] + [T.TDataConnected(s) for s in (0, 5, 15)]
    out = []
    for i in range(n):
        ln = lengths[i % len(lengths)]
        key = rnd.randbytes(16)
        apdu = rnd.randbytes(ln)
        alg = rnd.choice([0, 1])
        scf = SecurityControlField(tool_access=rnd.random() < 0.3, algorithm=SecurityAlgorithmIdentifier(alg),
                                   system_broadcast=rnd.random() < 0.2, service=SecurityALService.S_A_DATA)
        seq = rnd.choice([0, 1, 2**48 - 1, rnd.randrange(2**48), rnd.randrange(2**20)])
        addr = rnd.randbytes(4)
        at = rnd.choice([CEMIAddressType.INDIVIDUAL, CEMIAddressType.GROUP])
        ff = rnd.choice([CEMIFrameFormat.STANDARD] * 3 + [f for f in CEMIFrameFormat])
        t = rnd.choice(tp)
        try:
            res = list(SecureData.init_from_plain_apdu(key=key, apdu=apdu, scf=scf, sequence_number=seq, address_fields_raw=addr,
                                                       address_type=at, frame_format=ff, tpci=t).to_knx())
        except Exception:  # noqa: BLE001 - an exception is not the reference output: judged as a mismatch
            res = []
        out.append({"anchor": 0, "key": list(key), "seq": list(seq.to_bytes(6, "big")), "addr": list(addr),
                    "at": 1 if at == CEMIAddressType.GROUP else 0, "eff": int(ff), "tpci": t.to_knx() >> 2,
                    "scf": scf.to_knx()[0], "alg": alg, "apdu": list(apdu), "out": res})
    # ... and through DataSecure.outgoing_cemi: the frame's own address type, frame format and TPCI must be the ones that are authenticated
    from xknx.cemi import CEMILData
    from xknx.cemi.flags import CEMIFlags
    from xknx.secure.data_secure import DataSecure
    from xknx.telegram import GroupAddress, IndividualAddress
    from xknx.telegram.apci import GroupValueRead, GroupValueWrite
    from xknx.dpt import DPTArray

    for i in range(max(n // 5, 12)):
        key = rnd.randbytes(16)
        ga, src = GroupAddress(rnd.randrange(1, 65536)), IndividualAddress(rnd.randrange(1, 65536))
        seq = rnd.choice([1, 2**48 - 1, rnd.randrange(1, 2**48)])
        ds = DataSecure(group_key_table={ga: key}, individual_address_table={}, last_sequence_number_sending=seq)
        ff = [CEMIFrameFormat.STANDARD, CEMIFrameFormat.LTE_HEE][i % 2]
        t = [T.TDataGroup(), T.TDataTagGroup()][(i // 2) % 2]
        pl = GroupValueRead() if i % 5 == 0 else GroupValueWrite(DPTArray(tuple(rnd.randbytes(lengths[i % len(lengths)] % 200 + 1))))
        data = CEMILData(flags=CEMIFlags(frame_format=ff), src_addr=src, dst_addr=ga, tpci=t, payload=pl)
        try:
            sec = ds.outgoing_cemi(data)
            res = list(sec.payload.secured_data.to_knx())
            scf = sec.payload.scf.to_knx()[0]
            ff_out, t_out = sec.flags.frame_format, sec.tpci          # what will be written on the wire
        except Exception:  # noqa: BLE001
            res, scf, ff_out, t_out = [], 0x10, ff, t
        out.append({"anchor": 0, "key": list(key), "seq": list(seq.to_bytes(6, "big")), "addr": list(src.to_knx() + ga.to_knx()),
                    "at": 1, "eff": int(ff_out), "tpci": t_out.to_knx() >> 2, "scf": scf, "alg": 1, "apdu": list(pl.to_knx()), "out": res})
    return out


def run(ck):
    rnd = random.Random(ck.seed)
    anchors = [dict(a, anchor=1, key=hx(a["key"]), seq=hx(a["seq"]), addr=hx(a["addr"]), apdu=hx(a["apdu"]), out=hx(a["out"])) for a in ANCHORS]
    ra = tlc.batch(ck, "secure/Ccm_Judge", anchors, shards=1)
    if ra.bad:
        raise MachineryError(f"the TLA+ CCM reference does not reproduce the external anchor frames {sorted(ra.bad)}")
    if ck.tier == "quick":
        # block boundaries of the CBC-MAC input (B0, 2 length octets, SCF, APDU: aligned at 16k - 3) and of the CTR
        # keystream (4 MAC octets + payload: aligned at 16k - 4), both with their neighbours
        lengths = [0, 1, 2, 5, 11, 12, 13, 14, 15, 16, 17, 27, 28, 29, 30, 31, 32, 33, 44, 45, 46, 64, 100, 237, 240]
        cases = gen(rnd, 200, lengths)
    else:
        cases = gen(rnd, 241 * 6, list(range(241)))
    tlc.judge(ck, "secure/Ccm_Judge", cases, shards=16, timeout=3000,
              key=lambda c: {"alg": c["alg"], "len": len(c["apdu"]), "at": c["at"], "eff": c["eff"], "tpci": c["tpci"], "scf": c["scf"]},
              what=lambda c: f"SecureData output differs from the KNX CCM reference: alg={c['alg']} len={len(c['apdu'])} at={c['at']} eff={c['eff']} tpci={c['tpci']} scf={c['scf']:#x}")
    muts = []
    for c in [c for c in cases if c["out"]][:12]:
        m = dict(c, out=list(c["out"]))
        m["out"][-1] ^= 1
        muts.append(m)
    r2 = tlc.batch(ck, "secure/Ccm_Judge", muts, shards=4)
    if len(r2.bad) != len(muts):
        raise MachineryError("binding self-test: corrupted MACs accepted")
    ck.add(distinct_nontrivial=len({(c["alg"], len(c["apdu"]), c["at"], c["eff"], c["tpci"]) for c in cases}), anchors_reproduced=len(anchors),
           selftest_corrupted_rejected=len(muts),
           rule="random key/addresses/address type/frame format/TPCI/SCF/sequence number, APDU lengths cycling through "
                + ("a boundary set" if ck.tier == "quick" else "0..240") + ", both algorithms; distinct = (alg, length, address type, format, tpci)")
    ck.sample({k: (bytes(v).hex() if isinstance(v, list) else v) for k, v in cases[3].items()})
    ck.sample({k: (bytes(v).hex() if isinstance(v, list) else v) for k, v in anchors[0].items()})


def replay(ck, path):
    import json

    c = json.loads(open(path).read())["replay"]
    res = tlc.batch(ck, "secure/Ccm_Judge", [c], shards=1)
    print("recorded case rejected by the reference:", bool(res.bad))
    return 1 if res.bad else 0
