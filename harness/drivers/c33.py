"""C33 - outgoing telegrams go out in order, one at a time, and never stall the queue.

spec : spec/core/TgQueue.tla (model-checked), TgQueue_Trace.tla
code : started XKNX with the real TelegramQueue / CEMIHandler and a fault-injecting interface under virtual time: mixes of
       incoming / outgoing / internal telegrams, send errors (CommunicationError, ConversionError, unexpected), slow sends,
       missing confirmations, raising callbacks and device errors, rate limits 0 / 3 / 5 / 7 / 20 / 30 / 1500; xknx.join() and stop must return.
"""
from __future__ import annotations

import asyncio
import random
from unittest.mock import AsyncMock, Mock, patch

from .. import tlc
from ..core import MachineryError
from ..vloop import ms, virtual_world

# ok: confirmed inside the interface call; async: the L_Data.con arrives 40 ms after the call returned (a real gateway); latecon: it arrives
# after the confirmation timeout (3.4 s), when nobody waits for it; dupcon: twice
FAULTS = ["ok", "ok", "async", "async", "slow", "comm", "conv", "crash", "noconf", "latecon", "dupcon"]


def run_hist(seed, n):
    from xknx import XKNX
    from xknx.core import XknxConnectionState
    from xknx.devices import Switch
    from xknx.dpt import DPTArray
    from xknx.exceptions import CommunicationError, ConversionError, XKNXException
    from xknx.telegram import Telegram, TelegramDirection
    from xknx.telegram.address import parse_device_group_address
    from xknx.telegram import IndividualAddress
    from xknx.telegram.apci import GroupValueRead, GroupValueResponse, GroupValueWrite

    rnd = random.Random(seed)
    rate = rnd.choice([0, 5, 20, 3, 7, 30, 1500])
    ev = []
    with virtual_world(seed) as loop:
        async def main():
            m = Mock()
            m.start = AsyncMock()
            m.stop = AsyncMock()
            with patch("xknx.xknx.knx_interface_factory", return_value=m):
                xknx = XKNX(rate_limit=rate)
            plan = {}

            async def send_cemi(cemi):
                tid_ = cemi.data.src_addr.raw - 0x1000        # the telegram's number travels in its source address (reads carry no value)
                f = plan.get(tid_, "ok")
                ev.append({"ev": "send_start", "id": tid_, "t": ms(loop.time()), "tu": int(round(loop.time() * 1e6)), "kind": ""})
                ok = 0

                def con():
                    ev.append({"ev": "con", "id": 0, "kind": "", "t": ms(loop.time())})
                    xknx.cemi_handler._l_data_confirmation_event.set()

                try:
                    if f == "slow":
                        await asyncio.sleep(0.7)
                    if f == "comm":
                        raise CommunicationError("not connected")
                    if f == "conv":
                        raise ConversionError("bad frame")
                    if f == "crash":
                        raise ValueError("unexpected")
                    if f in ("ok", "slow"):
                        con()
                    elif f == "async":
                        loop.call_later(0.04, con)
                    elif f == "latecon":
                        loop.call_later(3.4, con)
                    elif f == "dupcon":
                        con()
                        loop.call_later(0.03, con)
                    ok = 1
                finally:
                    ev.append({"ev": "send_end", "id": tid_, "ok": ok, "t": ms(loop.time()), "kind": ""})

            m.send_cemi = send_cemi
            xknx.task_registry.start()
            await xknx.telegram_queue.start()
            xknx.started.set()
            xknx.connection_manager.connection_state_changed(XknxConnectionState.CONNECTED)

            def dev_process(t):
                i = t.source_address.raw - 0x1000
                ev.append({"ev": "proc", "id": i, "t": ms(loop.time()), "kind": ""})
                if dev_fault.get(i) == "xknx":
                    raise XKNXException("device error")
                if dev_fault.get(i) == "crash":
                    raise RuntimeError("device crash")

            # half of the histories: the application listed datapoint types (one of them does not fit the payloads: a logged decoding
            # error, nothing more), and a second XKNX instance of the same process is at work on its own telegrams
            busy = rnd.random() < 0.5
            x2 = None
            if busy:
                xknx.group_address_dpt.set({"1/1/1": "9.001", "1/1/2": "5.001", "i-verif-q": "5.010"})
                m2 = Mock()
                m2.start = AsyncMock()
                m2.stop = AsyncMock()
                with patch("xknx.xknx.knx_interface_factory", return_value=m2):
                    x2 = XKNX(rate_limit=50)

                async def send2(cemi):
                    x2.cemi_handler._l_data_confirmation_event.set()

                m2.send_cemi = send2
                x2.task_registry.start()
                await x2.telegram_queue.start()
                x2.started.set()
                x2.connection_manager.connection_state_changed(XknxConnectionState.CONNECTED)
            dev_fault = {}
            for a in ("1/1/1", "1/1/2", "i-verif-q"):
                sw = Switch(xknx, "sw" + a, group_address=a, sync_state=False)
                sw.process = dev_process
                xknx.devices.async_add(sw)
            xknx.telegram_queue.register_telegram_received_cb(lambda t: (_ for _ in ()).throw(RuntimeError("cb")), match_for_outgoing=True)
            i = 0
            for _ in range(n):
                r = rnd.random()
                if r < 0.75:
                    i += 1
                    kind = rnd.choices(["out", "internal", "in"], weights=[5, 2, 2])[0]
                    plan[i] = rnd.choice(FAULTS)
                    if rnd.random() < 0.2:
                        dev_fault[i] = rnd.choice(["xknx", "crash"])
                    dst = parse_device_group_address("i-verif-q" if kind == "internal" else rnd.choice(["1/1/1", "1/1/1", "1/1/2"]))
                    if x2 is not None and rnd.random() < 0.4:
                        x2.telegrams.put_nowait(Telegram(destination_address=parse_device_group_address("3/3/3"), payload=GroupValueWrite(DPTArray((200,))),
                                                         direction=rnd.choice([TelegramDirection.INCOMING, TelegramDirection.OUTGOING])))
                    pay = rnd.choices([GroupValueWrite(DPTArray((i % 256,))), GroupValueRead(), GroupValueResponse(DPTArray((i % 256,)))], weights=[6, 2, 1])[0]
                    xknx.telegrams.put_nowait(Telegram(destination_address=dst, payload=pay, source_address=IndividualAddress(0x1000 + i),
                                                       direction=TelegramDirection.INCOMING if kind == "in" else TelegramDirection.OUTGOING))
                    ev.append({"ev": "put", "id": i, "kind": kind, "t": ms(loop.time())})
                    if rnd.random() < 0.5:
                        await asyncio.sleep(rnd.choice([0, 0.01, 0.06, 0.3]))
                elif r < 0.9:
                    try:
                        await asyncio.wait_for(xknx.join(), 600)
                        ev.append({"ev": "joined", "id": 0, "kind": "", "t": ms(loop.time())})
                    except (Exception, asyncio.CancelledError) as ex:  # noqa: BLE001 - join() must return: a timeout or an escaping error is recorded
                        ev.append({"ev": "join_failed:" + type(ex).__name__, "id": 0, "kind": "", "t": ms(loop.time())})
                        return
                else:
                    await asyncio.sleep(rnd.choice([0.05, 1.0, 4.0]))
            try:
                await asyncio.wait_for(xknx.telegram_queue.stop(), 600)
                ev.append({"ev": "stopped", "id": 0, "kind": "", "t": ms(loop.time())})
            except (Exception, asyncio.CancelledError) as ex:  # noqa: BLE001 - stop() must return normally
                ev.append({"ev": "stop_failed:" + type(ex).__name__, "id": 0, "kind": "", "t": ms(loop.time())})
            xknx.task_registry.stop()
            xknx.started.clear()
            if x2 is not None:
                await asyncio.wait_for(x2.telegram_queue.stop(), 600)
                x2.task_registry.stop()
                x2.started.clear()

        loop.run_until_complete(main())
    return {"rate": rate, "ev": ev}


def run(ck):
    ck.assume("telegram ids travel in the one-octet payload; the interface mock confirms (L_Data.con) unless the fault plan says otherwise")
    tlc.mc(ck, "core/TgQueue_MC", require_actions=False)
    n = 500 if ck.tier == "quick" else 8000
    seeds = [ck.seed * 32452843 + i for i in range(n)]
    traces = [run_hist(s, 30) for s in seeds]
    res = tlc.batch(ck, "core/TgQueue_Trace", traces)
    for idx, info in sorted(res.bad.items()):
        t = traces[idx]
        l = info if isinstance(info, int) else 0
        ev = t["ev"][l - 1] if 0 < l <= len(t["ev"]) else None
        ck.violation({"seed": seeds[idx], "event": ev}, f"telegram queue trace (rate {t['rate']}) rejected at event {l}: {ev}; before: {t['ev'][max(0, l - 5):l - 1]}",
                     {"seed": seeds[idx], "n": 30, "trace": t, "rejected_at": l})
    muts = []
    for i, t in enumerate(traces[:300]):
        if i in res.bad:
            continue
        st = [k for k, e in enumerate(t["ev"]) if e["ev"] == "send_start"]
        if len(st) >= 2:
            a = {"rate": t["rate"], "ev": [dict(x) for x in t["ev"]]}
            a["ev"][st[0]]["id"], a["ev"][st[1]]["id"] = a["ev"][st[1]]["id"], a["ev"][st[0]]["id"]
            muts.append(a)
            if t["rate"]:
                b = {"rate": t["rate"], "ev": [dict(x) for x in t["ev"]]}
                b["ev"][st[1]]["t"] = b["ev"][st[0]]["t"] + 1
                b["ev"][st[1]]["tu"] = b["ev"][st[0]]["tu"] + min(1000, 900000 // t["rate"])
                muts.append(b)
    r2 = tlc.batch(ck, "core/TgQueue_Trace", muts)
    if len(r2.bad) != len(muts) or not muts:
        raise MachineryError(f"binding self-test: {len(muts) - len(r2.bad)} of {len(muts)} corrupted traces accepted")
    ck.add(traces_validated_against_impl=res.accepted, trace_events=sum(len(t["ev"]) for t in traces),
           sends=sum(1 for t in traces for e in t["ev"] if e["ev"] == "send_start"),
           joins=sum(1 for t in traces for e in t["ev"] if e["ev"] == "joined"), selftest_corrupted_rejected=len(muts))
    ck.sample({"rate": traces[0]["rate"], "ev": traces[0]["ev"][:14]})


def replay(ck, path):
    import json

    d = json.loads(open(path).read())["replay"]
    t = run_hist(d["seed"], d["n"])
    res = tlc.batch(ck, "core/TgQueue_Trace", [t])
    l = res.bad.get(0)
    print("rejected at:", l, t["ev"][l - 1] if l else None)
    return 1 if res.bad else 0
