"""C27 - routing honours busy flow control and the indication spacing.

spec : spec/io/Routing.tla (flow-control automaton + when an indication may be transmitted), Routing_MC (exhaustive,
       serialised throttle) and Routing_Dev (unserialised throttle: TLC must find two indications closer than 20 ms),
       Routing_Trace.tla (trace validation, microseconds)
code : real xknx.io.routing.Routing on a fake multicast socket under virtual time; RoutingBusy datagrams and concurrent
       send_cemi calls at generated instants (grid schedules around the 10 ms cooldown / 20 ms pacing / pause ends,
       random bursts); random.random is wrapped so that every drawn extension is part of the trace.
"""
from __future__ import annotations

import asyncio
import itertools
import random
from unittest.mock import patch

from .. import tlc
from ..core import MachineryError
from ..vloop import virtual_world


def us(t: float) -> int:
    return int(round(t * 1_000_000))


def run_schedule(sched, seed=0):
    """sched: list of (t_us, "busy", wait_ms) | (t_us, "send", id).  Returns the event list."""
    from xknx import XKNX
    from xknx.cemi import CEMIFrame, CEMILData, CEMIMessageCode
    from xknx.dpt import DPTArray
    from xknx.io.routing import Routing
    from xknx.io.transport import UDPTransport
    from xknx.knxip import KNXIPFrame, RoutingBusy
    from xknx.telegram import GroupAddress, IndividualAddress, Telegram
    from xknx.telegram.apci import GroupValueWrite

    ev = []
    rnd = random.Random(seed)
    with virtual_world(seed) as loop, patch.object(UDPTransport, "create_multicast_sock", staticmethod(lambda a, b: None)):
        real_random = random.random

        def drawn():
            v = rnd.choice([0.0, 0.25, 0.5, 0.999]) if rnd.random() < 0.5 else rnd.random()
            ev.append({"ev": "rand", "r": int(round(v * 50000))})
            return v

        async def main():
            xknx = XKNX()

            def cemi_cb(raw):
                ev.append({"ev": "con" if raw[0] == 0x2E else "up", "id": raw[-1]})

            r = Routing(xknx, IndividualAddress("1.1.1"), cemi_cb, "10.0.0.1")
            # every second schedule: another routing connection of the same process (its own XKNX) sends frames of its own meanwhile
            r2 = Routing(XKNX(), IndividualAddress("1.1.2"), lambda raw: None, "10.0.0.1") if len(sched) % 2 else None

            def on_send(tr, data, addr):
                if tr is not r.transport.transport:
                    return
                fr, _ = KNXIPFrame.from_knx(data)
                if type(fr.body).__name__ == "RoutingIndication":
                    ev.append({"ev": "tx", "id": data[-1], "t": us(loop.time())})

            loop.on_send = on_send
            await r.connect()
            if r2 is not None:
                await r2.connect()
            random.random = drawn
            tasks = []
            by_id = {}

            async def others():
                c2 = CEMIFrame(code=CEMIMessageCode.L_DATA_REQ, data=CEMILData.init_from_telegram(
                    Telegram(GroupAddress("7/7/7"), payload=GroupValueWrite(DPTArray((200,)))), src_addr=IndividualAddress("1.1.2")))
                for gap in (0.0007, 0.0041, 0.009, 0.013, 0.021, 0.05, 0.11, 0.3):
                    await asyncio.sleep(gap)
                    try:
                        await r2.send_cemi(c2)
                    except Exception:  # noqa: BLE001 - the other connection's business
                        pass

            if r2 is not None:
                tasks.append(loop.create_task(others()))

            async def sender(i):
                cemi = CEMIFrame(code=CEMIMessageCode.L_DATA_REQ, data=CEMILData.init_from_telegram(
                    Telegram(GroupAddress("1/2/3"), payload=GroupValueWrite(DPTArray((i,)))), src_addr=IndividualAddress("1.1.1")))
                ev.append({"ev": "call", "id": i, "t": us(loop.time())})
                try:
                    await r.send_cemi(cemi)
                    ev.append({"ev": "ret", "id": i})
                except asyncio.CancelledError:
                    ev.append({"ev": "cancelled", "id": i})
                    raise
                except Exception as ex:  # noqa: BLE001 - recorded, the spec has no such event
                    ev.append({"ev": "raised:" + type(ex).__name__, "id": i})

            def busy(w):
                raw = KNXIPFrame.init_from_body(RoutingBusy(wait_time=w)).to_knx()
                ev.append({"ev": "busy", "t": us(loop.time()), "w": w * 1000})
                r.transport.data_received_callback(raw, ("10.0.0.9", 3671))

            base = loop.time()
            for t, kind, arg in sorted(sched, key=lambda x: x[0]):
                if kind == "busy":
                    loop.call_at(base + t / 1e6, loop.inject, busy, arg)
                elif kind == "cancel":        # the caller of send_cemi(frame arg) gives up, if it is still inside
                    loop.call_at(base + t / 1e6, lambda a=arg: by_id[a].cancel() if a in by_id and not by_id[a].done() else None)
                else:
                    def start(a=arg):
                        by_id[a] = loop.create_task(sender(a))
                        tasks.append(by_id[a])

                    loop.call_at(base + t / 1e6, start)
            last = max([t for t, _, _ in sched] + [0]) / 1e6
            await asyncio.sleep(last + 12.0)
            ev.append({"ev": "end", "t": us(loop.time())})
            for t in tasks:
                t.cancel()
            random.random = real_random
            await r.disconnect()
            if r2 is not None:
                await r2.disconnect()

        try:
            loop.run_until_complete(main())
        finally:
            random.random = real_random
    # the busy event is logged before the handler runs; rand is drawn one iteration later: order in `ev` is already causal
    return ev


def grid_schedules(tier):
    """senders around a previous transmission, busy frames around the cooldown and the pause end"""
    out = []
    G = 5000
    # (1) concurrent senders after a first transmission (the pacing race), no busy frame
    for k, gap in itertools.product((2, 3, 4), (0, 1, 3, 4, 5)):
        for offs in itertools.product((0, 1, 2), repeat=k - 1):
            s = [(1000, "send", 1)] + [(1000 + gap * G + o * 1000, "send", 2 + j) for j, o in enumerate(offs)]
            out.append(s)
    # (1b) three or four callers queue up behind a transmission; one of those waiting gives up before its turn
    for k, c, at in itertools.product((3, 4), (2, 3, 4), (1, 7, 19, 21, 39)):
        if c <= k:
            out.append([(1000, "send", 1)] + [(2000 + j * 100, "send", 2 + j) for j in range(k - 1)] + [(2000 + at * 1000, "cancel", c)])
    # (2) one or two busy frames with one or two senders at every grid offset
    waits = (0, 20, 100)
    offs = range(0, 9) if tier == "quick" else range(0, 13)
    for w1, b2, w2, s1, s2 in itertools.product(waits, (None, 1, 2, 3, 5, 9), waits, offs, (None, 0, 2, 5, 21)):
        if b2 is None and w2 != 0:
            continue
        s = [(2000, "busy", w1), (2000 + s1 * G + 137, "send", 1)]
        if b2 is not None:
            s.append((2000 + b2 * G, "busy", w2))
        if s2 is not None:
            s.append((2000 + s2 * G + 137, "send", 2))
        out.append(s)
    return out


def random_schedule(rnd):
    s = []
    t = 1000
    nid = 1
    for _ in range(rnd.randint(3, 14)):
        t += rnd.choice([0, 0, 300, 2500, 5000, 9900, 10000, 10100, 19000, 20000, 20500, 50000, 100000, 250000, 700000])
        if rnd.random() < 0.45:
            s.append((t, "busy", rnd.choice([0, 1, 10, 20, 20, 50, 100, 100, 300])))
        else:
            for _ in range(rnd.choice([1, 1, 2, 3])):
                s.append((t + rnd.choice([0, 0, 1, 50, 999]), "send", nid))
                if rnd.random() < 0.15:
                    s.append((t + rnd.choice([1, 5000, 15000, 25000, 45000]), "cancel", nid))
                nid += 1
    return s


def report(ck, scheds, traces, res, label):
    for idx, info in sorted(res.bad.items()):
        t = traces[idx]
        l = info if isinstance(info, int) else 0
        e = t[l - 1] if 0 < l <= len(t) else None
        conc = sum(1 for x in scheds[idx] if x[1] == "send")
        nb = sum(1 for x in scheds[idx] if x[1] == "busy")
        ck.violation({"kind": label, "rejected": (e or {}).get("ev"), "senders": conc, "busy": nb, "schedule": scheds[idx]},
                     f"routing trace rejected at event {l}: {e}; before: {t[max(0, l - 6):l - 1]}",
                     {"schedule": scheds[idx], "trace": t, "rejected_at": l})


def run(ck):
    ck.assume("virtual time; RoutingBusy datagrams enter as selector events; random.random is wrapped (values logged)")
    ck.assume("instants closer than 30 us are regarded as simultaneous (either order allowed); a waiting sender has 25 ms slack")
    tlc.mc(ck, "io/Routing_MC", cfg="io/Routing_MC" if ck.tier == "quick" else "io/Routing_MC_thorough", require_actions=False, timeout=3000)
    dev = tlc.mc(ck, "io/Routing_MC", cfg="io/Routing_Dev", expect_error=True, record=False, coverage=False)
    ck.add(deviation_model_counterexample=("NeverBad" in dev.out))
    rnd = random.Random(ck.seed)
    scheds = grid_schedules(ck.tier)
    for _ in range(400 if ck.tier == "quick" else 6000):
        scheds.append(random_schedule(rnd))
    traces = [run_schedule(s, ck.seed + i) for i, s in enumerate(scheds)]
    res = tlc.batch(ck, "io/Routing_Trace", traces, min_per_shard=50)
    report(ck, scheds, traces, res, "schedule")
    # binding self-test on accepted traces
    muts = []
    for i, t in enumerate(traces):
        if i in res.bad or len(muts) >= 150:
            continue
        txs = [k for k, e in enumerate(t) if e["ev"] == "tx"]
        busy = [k for k, e in enumerate(t) if e["ev"] == "busy" and e["w"] >= 20000]
        if busy and any(k > busy[0] for k in txs):
            k = next(k for k in txs if k > busy[0])
            if t[k]["t"] - t[busy[0]]["t"] >= 20000:      # a transmission that waited for the pause: move it into the pause
                a = [dict(e) for e in t]
                a[k]["t"] = t[busy[0]]["t"] + 10000
                if all(a[j].get("t", 0) <= a[k]["t"] for j in range(k) if "t" in a[j]):
                    muts.append(a)
        cons = [k for k, e in enumerate(t) if e["ev"] == "con"]
        if cons:
            muts.append([e for k, e in enumerate(t) if k != cons[0]])           # confirmation dropped
            muts.append(t[:cons[0]] + [t[cons[0]]] + t[cons[0]:])               # confirmation duplicated
        if len(txs) >= 2 and t[txs[1]]["t"] - t[txs[0]]["t"] <= 25000:
            b = [dict(e) for e in t]
            b[txs[1]]["t"] = b[txs[0]]["t"] + 19000                              # spacing 19 ms
            if all(b[j].get("t", 0) <= b[txs[1]]["t"] or j > txs[1] for j in range(len(b)) if "t" in b[j]) and \
               all(b[j].get("t", 10**12) >= b[txs[1]]["t"] for j in range(txs[1] + 1, len(b)) if "t" in b[j]):
                muts.append(b)
    r2 = tlc.batch(ck, "io/Routing_Trace", muts, min_per_shard=50)
    if not muts or len(r2.bad) != len(muts):
        raise MachineryError(f"binding self-test: {len(muts) - len(r2.bad)} of {len(muts)} corrupted routing traces accepted")
    ck.add(traces_validated_against_impl=res.accepted, trace_events=sum(len(t) for t in traces),
           indications=sum(1 for t in traces for e in t if e["ev"] == "tx"),
           busy_frames=sum(1 for t in traces for e in t if e["ev"] == "busy"), selftest_corrupted_rejected=len(muts))
    ck.sample({"schedule": scheds[-1], "trace": traces[-1][:16]})


def replay(ck, path):
    import json

    d = json.loads(open(path).read())["replay"]
    t = run_schedule([tuple(x) for x in d["schedule"]], ck.seed)
    res = tlc.batch(ck, "io/Routing_Trace", [t])
    print("trace:", t, "\nrejected at:", res.bad.get(0))
    return 1 if res.bad else 0
