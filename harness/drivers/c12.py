"""C12 / C13 - cEMI frame parsing is total with declared errors only; link frames round-trip and carry the correct frame type.

spec : spec/cemi/CemiLData.tla (grammar of an L_Data frame, what a parser may answer, frame-type / address-type / length rules,
       what re-serialising may change), judged by CemiLData_Judge.tla
code : real CEMIFrame.from_knx / to_knx, CEMILData.init_from_telegram, CEMIHandler.handle_raw_cemi and the device management
       _cemi_received path (with the loggers' last-resort `exception` calls counted):
       C12 - every message code, additional-info lengths, truncations, octet substitutions, inconsistent NPDU lengths, M_Prop frames,
             all octet strings up to 2 octets, random strings; 1 s watchdog.
       C13 - telegrams of every transport PDU x destination kind x APDU length 1..255 (256 is refused) x priority / repeat /
             acknowledge / hop counts -1..8; every frame accepted in C12 is serialised again and compared bit by bit.
"""
from __future__ import annotations

import dataclasses
import itertools
import random
import signal
from unittest.mock import patch

from .. import tlc
from ..core import MachineryError


class _Hang(BaseException):
    pass


def _alarm(signum, frame):
    raise _Hang()


def parse(raw: bytes):
    from xknx.cemi import CEMIFrame
    from xknx.exceptions import CouldNotParseCEMI, UnsupportedCEMIMessage

    signal.setitimer(signal.ITIMER_VIRTUAL, 2.0)   # CPU time of this process: a busy machine does not trip the watchdog
    try:
        return "frame", CEMIFrame.from_knx(raw)
    except CouldNotParseCEMI:
        return "parse", None
    except UnsupportedCEMIMessage:
        return "unsupported", None
    except _Hang:
        return "hang", None
    except Exception as ex:  # noqa: BLE001 - undeclared
        return "other:" + type(ex).__name__, None
    finally:
        signal.setitimer(signal.ITIMER_VIRTUAL, 0)


def telegrams(rnd, lengths):
    """(telegram, description) over transport PDU x destination kind x APDU length"""
    from xknx.dpt import DPTArray, DPTBinary
    from xknx.telegram import GroupAddress, IndividualAddress, Telegram, apci, tpci

    out = []
    for ln in lengths:
        if ln == 1:
            pls = [apci.GroupValueWrite(DPTBinary(rnd.randrange(64))), apci.GroupValueRead()]
        else:
            pls = [apci.GroupValueWrite(DPTArray(tuple(rnd.randrange(256) for _ in range(ln - 1))))]
        for pl in pls:
            out.append((Telegram(GroupAddress(rnd.randrange(1, 65536)), payload=pl), "group"))
            out.append((Telegram(GroupAddress(rnd.randrange(1, 65536)), tpci=tpci.TDataTagGroup(), payload=pl), "taggroup"))
        if ln >= 4:
            mem = apci.MemoryWrite(address=0x1234, data=bytes(rnd.randrange(256) for _ in range(max(ln - 3, 1)))) if ln - 3 <= 63 else \
                apci.MemoryExtendedWrite(address=0x123456, data=bytes(rnd.randrange(256) for _ in range(ln - 5))) if ln - 5 <= 250 and ln >= 6 else None
            if mem is not None:
                out.append((Telegram(IndividualAddress(rnd.randrange(1, 65536)), tpci=tpci.TDataConnected(rnd.randrange(16)), payload=mem), "connected"))
                out.append((Telegram(IndividualAddress(rnd.randrange(1, 65536)), tpci=tpci.TDataIndividual(), payload=mem), "individual"))
    out.append((Telegram(GroupAddress(0), tpci=tpci.TDataBroadcast(), payload=apci.IndividualAddressRead()), "broadcast"))
    # every transport PDU on the broadcast address, too
    for pl in (apci.GroupValueRead(), apci.GroupValueWrite(DPTBinary(1)), apci.GroupValueWrite(DPTArray((1, 2, 3))), apci.IndividualAddressWrite(IndividualAddress(0x1203))):
        out.append((Telegram(GroupAddress(0), tpci=tpci.TDataTagGroup(), payload=pl), "taggroup"))
        out.append((Telegram(GroupAddress(0), tpci=tpci.TDataBroadcast(), payload=pl), "broadcast"))
    for t in (tpci.TConnect(), tpci.TDisconnect(), tpci.TAck(5), tpci.TNak(15)):
        out.append((Telegram(IndividualAddress(0x1105), tpci=t), "control"))
    return out


def inputs12(ck, rnd):
    from xknx.cemi import CEMIFrame, CEMILData, CEMIMessageCode
    from xknx.telegram import IndividualAddress

    quick = ck.tier == "quick"
    out = []
    lens = [1, 2, 3, 4, 7, 15, 16, 17, 60, 254] if quick else list(range(1, 255))
    valid = []
    for tg, kind in telegrams(rnd, lens):
        for code in (CEMIMessageCode.L_DATA_IND, CEMIMessageCode.L_DATA_CON, CEMIMessageCode.L_DATA_REQ):
            try:
                valid.append((kind, CEMIFrame(code=code, data=CEMILData.init_from_telegram(tg, src_addr=IndividualAddress(0x1109))).to_knx()))
            except Exception:  # noqa: BLE001 - the library refuses this telegram (judged by C13)
                pass
            if quick:
                break
    # property service frames (device management): request / confirmation with data, with an error code, indication
    for code in (0xFC, 0xFB, 0xF6, 0xF5, 0xF7):
        for tail in (bytes([0x10, 0x01]), bytes([0x10, 0x01, 0x07]), bytes([0x20, 0x01, 0xAA, 0xBB]), bytes([0x00, 0x01, 0x07]), bytes([0x00, 0x01])):
            valid.append(("mprop", bytes([code, 0x00, 0x0B, 0x01, 0x34]) + tail))
            valid.append(("mprop", bytes([code, 0x00, 0x00, 0x01, 0x0B]) + tail))
    for kind, raw in valid:
        out.append((kind, "valid", raw))
        n = len(raw)
        for cut in range(n):
            if not quick or cut < 12 or cut == n - 1 or cut % 9 == 0:
                out.append((kind, "truncated", raw[:cut]))
        for pos in range(min(n, 14 if quick else n)):
            for v in {0, 1, 2, 0x7F, 0x80, 0xFF, (raw[pos] + 1) % 256, (raw[pos] - 1) % 256} - {raw[pos]}:
                out.append((kind, f"octet{pos}", raw[:pos] + bytes([v]) + raw[pos + 1:]))
        for info in (1, 2, 4, 255):
            out.append((kind, "addinfo", raw[:1] + bytes([info]) + bytes(range(min(info, 8))) + raw[2:]))
            out.append((kind, "addinfo-short", raw[:1] + bytes([info]) + raw[2:]))
        out.append((kind, "trailing", raw + b"\x00"))
    # every application service inside a well-formed link frame (group and individual destination): the application layer's errors must
    # come out of the frame parser as declared errors, too
    for v in range(1024):
        for ln in ((2, 3, 6, 13, 14, 29) if quick else (2, 3, 4, 5, 6, 7, 9, 11, 13, 14, 15, 16, 23, 29, 30, 60)):
            for fill in ((0, 0xFF, None) if quick else (0, 0xFF, 0x20, 0x55, None, None)):
                apdu = bytes([v >> 8, v & 0xFF]) + (bytes([fill]) * (ln - 2) if fill is not None else bytes(rnd.randrange(256) for _ in range(ln - 2)))
                for ctrl2, dst in ((0xE0, b"\x09\x01"), (0x60, b"\x11\x02")):
                    out.append(("apdu", f"apci{ln}", bytes([0x29, 0x00, 0xBC, ctrl2, 0x11, 0x05]) + dst + bytes([ln - 1]) + apdu))
    for scf in range(256):                                   # A_SecureData: every security control field
        for ln in (13, 14, 20):
            apdu = bytes([0x03, 0xF1, scf]) + bytes(rnd.randrange(256) for _ in range(ln - 3))
            out.append(("apdu", "secure", bytes([0x29, 0x00, 0xBC, 0xE0, 0x11, 0x05, 0x09, 0x01, ln - 1]) + apdu))
            out.append(("apdu", "secure", bytes([0x29, 0x00, 0xBC, 0x60, 0x11, 0x05, 0x11, 0x02, ln - 1]) + apdu))
    for code in range(256):
        for body in (b"", b"\x00", b"\x00\x00", bytes(7), bytes(8), bytes([0, 0xBC, 0xE0, 0x11, 0x09, 0x00, 0x01, 0x01, 0x00, 0x80]),
                     bytes([0, 0x0B, 1, 0x34, 0x10, 0x01, 0x07]), bytes([0, 0x0B, 1, 0x34, 0x00, 0x01, 0x07]), bytes([0xFF] * 12)):
            out.append(("code", f"code{len(body)}", bytes([code]) + body))
    for a in range(256):
        out.append(("short", "len1", bytes([a])))
        if not quick:
            for b in range(256):
                out.append(("short", "len2", bytes([a, b])))
    out.append(("short", "empty", b""))
    for _ in range(800 if quick else 30000):
        out.append(("random", "random", bytes([rnd.choice([0x11, 0x29, 0x2E, 0xFC, 0xFB, 0xF6, 0xF5, 0xF7, rnd.randrange(256)])]) +
                    bytes(rnd.randrange(256) for _ in range(rnd.choice([0, 1, 2, 6, 8, 9, 10, 12, 20])))))
    return out


def run12(ck):
    from xknx import XKNX
    from xknx.cemi import cemi_handler as chm
    from xknx.io import device_management_connection as dmc

    rnd = random.Random(ck.seed)
    ck.assume("reaching a last-resort `except Exception` of the receive handlers (logged with logger.exception) counts as an undeclared error")
    old = signal.signal(signal.SIGVTALRM, _alarm)
    cases, ins = [], inputs12(ck, rnd)
    fallback = []
    try:
        import asyncio

        loop = asyncio.new_event_loop()
        asyncio.set_event_loop(loop)
        xknx = XKNX()
        conn = dmc.UDPDeviceManagementConnection("10.0.0.2", 3671, "10.0.0.1")
        async def feed():
          # (inside a running loop, as in production: the management layer starts tasks for point-to-point frames addressed to this device)
          with patch.object(chm.logger, "exception", lambda *a, **k: fallback.append("cemi_handler")), \
                patch.object(dmc.logger, "exception", lambda *a, **k: fallback.append("devmgmt")):
            for k_, (kind, mk, raw) in enumerate(ins):
                if k_ % 2000 == 0:
                    await asyncio.sleep(0)
                    for tk in asyncio.all_tasks() - {asyncio.current_task()}:
                        tk.cancel()
                out, _f = parse(raw)
                fallback.clear()
                esc = ""
                for fn in (xknx.cemi_handler.handle_raw_cemi, conn._cemi_received):
                    try:
                        fn(raw)
                    except Exception as ex:  # noqa: BLE001
                        esc = "escaped:" + type(ex).__name__
                if out in ("frame", "parse", "unsupported") and (fallback or esc):
                    out = esc or ("fallback:" + fallback[0])
                cases.append({"t": "parse", "b": list(raw), "out": out, "src": kind, "kind": mk})
                while not xknx.telegrams.empty():
                    xknx.telegrams.get_nowait()
            for tk in asyncio.all_tasks() - {asyncio.current_task()}:
                tk.cancel()
            await asyncio.sleep(0)

        loop.run_until_complete(feed())
        loop.close()
        asyncio.set_event_loop(None)
    finally:
        signal.signal(signal.SIGVTALRM, old)
    send = [{k: v for k, v in c.items() if k in ("t", "b", "out")} for c in cases]
    res = tlc.batch(ck, "cemi/CemiLData_Judge", send, min_per_shard=3000)
    seen = set()
    for idx in sorted(res.bad):
        c = cases[idx]
        key = {"src": c["src"], "kind": c["kind"], "out": c["out"]}
        if str(key) in seen:
            continue
        seen.add(str(key))
        ck.violation(key, f"CEMIFrame.from_knx({bytes(c['b']).hex()[:120]}) [{c['src']}, {c['kind']}, {len(c['b'])} octets] -> {c['out']}", {"hex": bytes(c["b"]).hex(), "case": {k: v for k, v in c.items() if k != 'b'}})
    muts = [dict(c, out="other:IndexError") for c in send[:20]] + [dict(c, b=c["b"][:-1]) for c in send if c["out"] == "frame" and len(c["b"]) > 11 and c["b"][0] in (0x11, 0x29, 0x2E)][:20]
    r2 = tlc.batch(ck, "cemi/CemiLData_Judge", muts, min_per_shard=3000)
    if not muts or len(r2.bad) != len(muts):
        raise MachineryError(f"binding self-test: {len(muts) - len(r2.bad)} of {len(muts)} corrupted cases accepted")
    import collections

    ck.add(evaluations=len(cases), distinct_nontrivial=len({(c["src"], c["kind"], c["out"]) for c in cases}),
           outcomes=dict(collections.Counter(c["out"] for c in cases)), selftest_corrupted_rejected=len(muts), rule="distinct = (source, mutation kind, outcome)")
    ck.sample({k: v for k, v in cases[3].items()})


def diffbits(a: bytes, b: bytes):
    return [[o, p] for o in range(min(len(a), len(b))) for p in range(8) if (a[o] ^ b[o]) >> p & 1]


def run13(ck):
    from xknx.cemi import CEMIFlags, CEMIFrame, CEMILData, CEMIMessageCode, CEMIPriority
    from xknx.telegram import IndividualAddress

    rnd = random.Random(ck.seed)
    quick = ck.tier == "quick"
    cases, info = [], []
    lens = [1, 2, 6, 14, 15, 16, 17, 100, 253, 254, 255, 256] if quick else list(range(1, 258))
    from xknx.telegram.apci import GroupValueRead

    small, held, nb = GroupValueRead(), None, 0
    for tg, kind in telegrams(rnd, lens):
        # a frame made from the telegram and left as made: its control field is the documented one whatever was done to other frames
        try:
            d0 = CEMILData.init_from_telegram(tg, src_addr=IndividualAddress(0x1109))
            b0 = CEMIFrame.from_knx(CEMIFrame(code=CEMIMessageCode.L_DATA_IND, data=d0).to_knx()).data.flags
            cases.append({"t": "asmade", "kind": kind, "prio": int(b0.priority), "rep": int(b0.repeat_on_error), "ack": int(b0.acknowledge_request), "hop": b0.hop_count,
                          "sysb": int(b0.system_broadcast), "cerr": int(b0.confirm_error)})
            info.append(str(tg)[:120])
        except Exception:  # noqa: BLE001 - too long: the build cases below decide
            pass
        for hop, prio, rep, ack in itertools.product((-1, 0, 6, 7, 8) if quick else range(-1, 9), list(CEMIPriority)[:2 if quick else 4], (0, 1), (0, 1)):
            if quick and rnd.random() < 0.7 and hop == 6:
                continue
            npdu = tg.payload.calculated_length() if tg.payload is not None else 0
            c = {"t": "build", "npdu": npdu, "hop": hop, "group": 1 if kind in ("group", "taggroup", "broadcast") else 0, "out": "refused", "ft": -1, "at": -1,
                 "same": 0, "lenfield": -1, "kind": kind, "held": 1}
            how = ("telegram", "direct", "swap")[nb % 3] if tg.payload is not None else "telegram"
            nb += 1
            c["how"] = how
            try:
                if how == "telegram":
                    data = CEMILData.init_from_telegram(tg, src_addr=IndividualAddress(0x1109))
                elif how == "direct":                     # the frame object made directly, as the parser and the Data Secure layer make it
                    data = CEMILData(flags=CEMIFlags(), src_addr=IndividualAddress(0x1109), dst_addr=tg.destination_address, tpci=tg.tpci, payload=tg.payload)
                else:                                     # the application PDU replaced after the frame was made (what securing a frame does)
                    data = CEMILData.init_from_telegram(dataclasses.replace(tg, payload=small), src_addr=IndividualAddress(0x1109))
                    data.payload = tg.payload
                sysb, cerr = bool((hop + ack) % 2), bool((rep + ack) % 2 and hop == 0)     # system broadcast and the error bit of a confirmation, too
                if (hop + rep) % 2:                       # flags given at construction ...
                    data.flags = CEMIFlags(priority=prio, repeat_on_error=bool(rep), acknowledge_request=bool(ack), hop_count=hop, system_broadcast=sysb, confirm_error=cerr)
                else:                                     # ... or set on the frame built from the telegram
                    data.flags.priority, data.flags.repeat_on_error, data.flags.acknowledge_request = prio, bool(rep), bool(ack)
                    data.flags.hop_count = hop
                    data.flags.system_broadcast, data.flags.confirm_error = sysb, cerr
                raw = CEMIFrame(code=CEMIMessageCode.L_DATA_IND, data=data).to_knx()
                c.update(out="ok", ft=raw[2] >> 7, at=raw[3] >> 7, lenfield=raw[8])
                back = CEMIFrame.from_knx(raw).data
                c["same"] = 1 if (back.src_addr == data.src_addr and back.dst_addr == data.dst_addr and back.tpci == data.tpci and back.payload == data.payload
                                  and back.flags.priority == data.flags.priority and back.flags.repeat_on_error == data.flags.repeat_on_error
                                  and back.flags.acknowledge_request == data.flags.acknowledge_request and back.flags.hop_count == data.flags.hop_count
                                  and back.flags.system_broadcast == data.flags.system_broadcast and back.flags.confirm_error == data.flags.confirm_error) else 0
            except Exception as ex:  # noqa: BLE001 - any refusal at the call
                c["note"] = type(ex).__name__
            # frames are independent objects: building and editing this one leaves the one built before it as it was
            if held is not None:
                try:
                    c["held"] = 1 if CEMIFrame(code=CEMIMessageCode.L_DATA_IND, data=held[0]).to_knx() == held[1] else 0
                except Exception:  # noqa: BLE001
                    c["held"] = 0
            if c["out"] == "ok":
                held = (data, raw)
            cases.append(c)
            info.append(str(tg)[:120])
    # every frame the parser accepts is serialised again
    old = signal.signal(signal.SIGVTALRM, _alarm)
    try:
        for kind, mk, raw in inputs12(ck, rnd):
            out, fr0 = parse(raw)
            if out != "frame" or not isinstance(fr0.data, CEMILData):
                continue
            # what a forwarder does with a received frame must not leak into the next reception of the same octets
            try:
                fr0.data.flags.hop_count = (fr0.data.flags.hop_count - 1) % 8
                fr0.data.flags.confirm_error = not getattr(fr0.data.flags, "confirm_error", False)
                fr0.data.flags.priority = list(CEMIPriority)[(list(CEMIPriority).index(fr0.data.flags.priority) + 1) % 4]
            except Exception:  # noqa: BLE001
                pass
            out, fr = parse(raw)
            if out != "frame" or not isinstance(fr.data, CEMILData):
                cases.append({"t": "reser", "out": "raised:SecondParse", "lendiff": 0, "diff": [], "ctrl1": 2, "apci1": 10, "svc": "", "long": 0, "kind": mk, "ft2": -1, "npdu": 0})
                info.append(raw.hex()[:120])
                continue
            n = raw[1]
            c = {"t": "reser", "out": "ok", "lendiff": 0, "diff": [], "ctrl1": 2 + n, "apci1": 10 + n, "svc": "", "long": 0, "kind": mk, "ft2": -1, "npdu": raw[8 + n]}
            try:
                again = fr.to_knx()
                c["lendiff"] = len(again) - len(raw)
                c["ft2"] = again[2 + n] >> 7
                c["diff"] = diffbits(raw, again)
                pl = fr.data.payload
                c["svc"] = type(pl).__name__ if pl is not None else ""
                c["long"] = 1 if len(raw) - (10 + n) > 1 else 0
            except Exception as ex:  # noqa: BLE001
                from xknx.exceptions import ConversionError

                c["out"] = "refused" if isinstance(ex, ConversionError) else "raised:" + type(ex).__name__
            cases.append(c)
            info.append(raw.hex()[:120])
    finally:
        signal.signal(signal.SIGVTALRM, old)
    send = [{k: v for k, v in c.items() if k not in ("note", "how") and (k != "kind" or c["t"] == "asmade")} for c in cases]
    res = tlc.batch(ck, "cemi/CemiLData_Judge", send, min_per_shard=3000)
    seen = set()
    for idx in sorted(res.bad):
        c = cases[idx]
        key = {k: c.get(k) for k in ("t", "kind", "out", "ft", "at", "same", "hop", "held", "how")} if c["t"] == "build" else c if c["t"] == "asmade" else {"t": "reser", "out": c["out"], "diff": c["diff"][:4], "svc": c["svc"]}
        if c["t"] == "build":
            key["npdu_class"] = "<=15" if c["npdu"] <= 15 else "<=254" if c["npdu"] <= 254 else ">254"
        if str(key) in seen:
            continue
        seen.add(str(key))
        ck.violation(key, f"cEMI link frame case not allowed by the rules: {c} ({info[idx]})", {"case": c, "info": info[idx]})
    muts = [dict(c, ft=1 - c["ft"]) for c in send if c["t"] == "build" and c["out"] == "ok"][:20] + \
           [dict(c, held=0) for c in send if c["t"] == "build"][:10] + [dict(c, prio=3 - c["prio"]) for c in send if c["t"] == "asmade"][:10] + \
           [dict(c, diff=c["diff"] + [[4, 0]]) for c in send if c["t"] == "reser"][:20]
    r2 = tlc.batch(ck, "cemi/CemiLData_Judge", muts, min_per_shard=3000)
    if not muts or len(r2.bad) != len(muts):
        raise MachineryError(f"binding self-test: {len(muts) - len(r2.bad)} of {len(muts)} corrupted cases accepted")
    ck.add(evaluations=len(cases), built=sum(1 for c in cases if c["t"] == "build"), reserialised=sum(1 for c in cases if c["t"] == "reser"),
           distinct_nontrivial=len({(c["t"], c.get("kind"), c.get("npdu"), c.get("hop"), c.get("how")) for c in cases}), selftest_corrupted_rejected=len(muts),
           rule="distinct = (case type, kind, NPDU length, hop count)")
    ck.sample(cases[0])


def replay(ck, path):
    import json

    d = json.loads(open(path).read())["replay"]
    print(d)
    return 1
