"""C22 - transports deliver stream frames once, in order, without crashing.

spec : spec/io/TcpStream.tla (reference delivery for a stream of good / malformed-but-framed / unreadable frames),
       TcpStream_MC.tla (buffering parser over every chunking of three streams), TcpStream_Judge.tla
code : real TCPTransport (and SecureSession before initialisation) fed through data_received_callback with every chunking of
       short streams and random chunkings of long ones (up to 50 frames, 1..1500-octet chunks); real UDPTransport fed with the
       datagrams of the C20 plan.  Callbacks are registered for all service types; every callback invocation and every exception
       leaving the transport callback is recorded.
"""
from __future__ import annotations

import itertools
import random

from .. import tlc
from ..core import MachineryError
from ..vloop import virtual_world


def good(i, size=8):
    if size == 8:
        return bytes([6, 0x10, 2, 8, 0, 8, i, 0])                       # ConnectionStateResponse, channel = id
    if size == 10:
        return bytes([6, 0x10, 4, 0x21, 0, 10, 4, i, 0, 0])             # TunnellingAck, channel = id
    n = size - 10
    return bytes([6, 0x10, 4, 0x20, (size >> 8) & 0xFF, size & 0xFF, 4, i, 0, 0]) + bytes((j * 5 + i) % 256 for j in range(n))  # TunnellingRequest


def bad(kind, i):
    return {
        "svc": bytes([6, 0x10, 9, 0x99, 0, 10, i, 1, 2, 3]),            # unknown service type, readable length
        "body": bytes([6, 0x10, 2, 6, 0, 7, i]),                         # ConnectResponse without status octet
        "enum": bytes([6, 0x10, 2, 8, 0, 8, i, 0x77]),                   # unknown error code
        "long": bytes([6, 0x10, 9, 0x98, 0, 40]) + bytes(34),
    }[kind]


def unreadable(kind):
    return {"hlen": bytes([5, 0x10, 2, 8, 0, 8, 1, 0]), "ver": bytes([6, 0x11, 2, 8, 0, 8, 1, 0]), "tot": bytes([6, 0x10, 2, 8, 0, 3, 1, 0]),
            "tot0": bytes([6, 0x10, 4, 0x21, 0, 0, 1, 0]), "tot5": bytes([6, 0x10, 2, 8, 0, 5, 1, 0])}[kind]


def feed(transport_kind, stream_frames, chunks, other=False, cbfail=False):
    """run one chunking through a fresh transport; returns (delivered ids, raised).
    other: a second connection of the same kind is open at the same time and receives pieces of its own stream in between
    (a tunnel next to a management connection; the connection that was lost in the middle of a frame before this one was made)"""
    from xknx.io.ip_secure import SecureSession
    from xknx.io.transport import TCPTransport

    data = b"".join(f for f, _ in stream_frames)
    tr = TCPTransport(("10.0.0.2", 3671)) if transport_kind == "tcp" else \
        SecureSession(("10.0.0.2", 3671), user_id=2, user_password="pw", device_authentication_password=None)
    delivered, raised = [], 0

    def cb(frame, source, transport):
        b = frame.body
        delivered.append(getattr(b, "communication_channel_id", getattr(b, "secure_session_id", -1)))
        if cbfail and len(delivered) % 2 == 1:
            # the consumer cannot use what the frame carries (a nested frame cut short, an unparsable cEMI): its error is logged by the
            # transport; the frame has been handed over, the stream goes on
            from xknx.exceptions import CouldNotParseKNXIP, IncompleteKNXIPFrame  # noqa: PLC0415

            raise (IncompleteKNXIPFrame if len(delivered) % 4 == 1 else CouldNotParseKNXIP)("consumer: cannot parse")

    tr.register_callback(cb)
    tr2, data2, pos2 = None, good(77, 10)[:7] + good(78) + good(79, 26), 0
    if other:
        tr2 = TCPTransport(("10.0.0.3", 3671)) if transport_kind == "tcp" else \
            SecureSession(("10.0.0.3", 3671), user_id=2, user_password="pw", device_authentication_password=None)
        tr2.register_callback(lambda *a: None)
        tr2.data_received_callback(good(76)[:5])          # ... which holds the beginning of a frame when this one starts
    pos = 0
    for n, c in enumerate(chunks):
        try:
            tr.data_received_callback(data[pos:pos + c])
        except Exception:  # noqa: BLE001 - an exception leaving the transport callback: recorded
            raised = 1
        pos += c
        if tr2 is not None and pos2 < len(data2):
            try:
                tr2.data_received_callback(data2[pos2:pos2 + 1 + n % 9])
            except Exception:  # noqa: BLE001 - the other connection's own business
                pass
            pos2 += 1 + n % 9
    return delivered, raised


def case(transport_kind, stream, chunks, other=False, cbfail=False):
    """stream: list of (octets, cls, id)"""
    delivered, raised = feed(transport_kind, [(f, c) for f, c, _ in stream], chunks, other, cbfail)
    ids = {fid: k + 1 for k, (_, c, fid) in enumerate(stream) if c == "good"}
    return {"t": "tcp", "frames": [{"len": len(f), "cls": c} for f, c, _ in stream],
            "delivered": [ids.get(d, 1000 + k) for k, d in enumerate(delivered)], "raised": raised}


def chunkings(total, rnd, limit):
    if 2 ** (total - 1) <= limit:
        for cuts in itertools.product((0, 1), repeat=total - 1):
            out, last = [], 0
            for i, c in enumerate(cuts):
                if c:
                    out.append(i + 1 - last)
                    last = i + 1
            out.append(total - last)
            yield out
    else:
        for _ in range(limit):
            out, left = [], total
            mx = rnd.choice([1, 2, 3, 7, 20, 1500])
            while left:
                c = min(left, rnd.randrange(1, mx + 1))
                out.append(c)
                left -= c
            yield out


def streams(ck, rnd):
    G = lambda i, s=8: (good(i, s), "good", i)
    B = lambda k, i: (bad(k, i), "bad", -1)
    U = lambda k: (unreadable(k), "unreadable", -1)
    short = [[G(1), G(2)], [B("svc", 9), G(1)], [B("body", 9), G(1)], [G(1), B("enum", 9), G(2)], [G(1), U("hlen"), G(2)], [U("tot"), G(1)],
             [G(1, 10), B("svc", 9)], [B("body", 9), B("enum", 9), G(3)], [G(1), U("ver")],
             [G(1), U("tot0"), G(2)], [U("tot5"), G(1)]]
    res = [("tcp", s, 4096 if ck.tier == "quick" else 70000) for s in short]
    for _ in range(60 if ck.tier == "quick" else 600):
        n = rnd.randrange(3, 50)
        s = []
        for i in range(n):
            r = rnd.random()
            s.append(G(i + 1, rnd.choice([8, 10, 11, 21, 40, 264])) if r < 0.7 else B(rnd.choice(["svc", "body", "enum", "long"]), i + 1))
        if rnd.random() < 0.2:
            s.insert(rnd.randrange(len(s)), U(rnd.choice(["hlen", "ver", "tot", "tot0", "tot5"])))
        res.append(("tcp", s, 25))
    # secure session before its handshake: only a plain SessionResponse is passed on, wrappers and other plain frames are not
    sresp = lambda i: (bytes([6, 0x10, 9, 0x52, 0, 56, 0, i]) + bytes(48), "good", i)
    wrapper = (bytes([6, 0x10, 9, 0x50, 0, 46]) + bytes(40), "bad", -1)
    plain = (good(77), "bad", -1)
    for s in ([sresp(1), wrapper, sresp(2)], [wrapper, sresp(1)], [plain, sresp(1), wrapper]):
        res.append(("secure", s, 300 if ck.tier == "quick" else 5000))
    return res


def run(ck):
    from xknx.io.transport import UDPTransport
    from xknx.knxip import KNXIPFrame

    from . import c20

    rnd = random.Random(ck.seed)
    ck.assume("'header length readable' = the octets start with 06 10 and announce a total length of at least 6; after an unreadable frame only 'no exception, nothing delivered twice' is required")
    for cfg in ("io/TcpStream_MC", "io/TcpStream_MC2", "io/TcpStream_MC3"):
        tlc.mc(ck, "io/TcpStream_MC", cfg=cfg, require_actions=False)
    cases, meta = [], []
    with virtual_world(ck.seed):
        for kind, s, limit in streams(ck, rnd):
            total = sum(len(f) for f, _, _ in s)
            for n_, ch in enumerate(chunkings(total, rnd, limit)):
                cases.append(case(kind, s, ch, other=(n_ % 4 == 3), cbfail=(n_ % 4 == 1)))
                meta.append((kind + (" (a second connection open)" if n_ % 4 == 3 else " (the consumer fails on every second frame)" if n_ % 4 == 1 else ""),
                             [(f.hex(), c) for f, c, _ in s], ch))
        # UDP: datagrams of the C20 plan
        ins = c20.inputs(ck)
        if ck.tier == "quick":
            ins = [x for i, x in enumerate(ins) if i % 6 == 0]
        for name, mk, data in ins:
            tr = UDPTransport(("10.0.0.1", 0), ("10.0.0.2", 3671))
            got = []
            tr.register_callback(lambda f, s, t: got.append(1))
            raised = 0
            try:
                tr.data_received_callback(data, ("10.0.0.2", 3671))
            except Exception:  # noqa: BLE001
                raised = 1
            try:
                KNXIPFrame.from_knx(data)
                ok = 1 if data else 0
            except Exception:  # noqa: BLE001
                ok = 0
            cases.append({"t": "udp", "ok": ok, "delivered": len(got), "raised": raised})
            meta.append(("udp", data.hex(), name + "/" + mk))
    res = tlc.batch(ck, "io/TcpStream_Judge", cases, min_per_shard=5000)
    seen = set()
    for idx in sorted(res.bad):
        c, m = cases[idx], meta[idx]
        if c["t"] == "tcp":
            key = {"transport": m[0], "classes": [x["cls"] for x in c["frames"]][:12], "raised": c["raised"], "n_delivered": len(c["delivered"])}
            what = f"{m[0]} stream {[(h[:24], cl) for h, cl in m[1]][:6]} in chunks {m[2][:30]}: delivered {c['delivered'][:12]}, raised={c['raised']}"
        else:
            key = {"transport": "udp", "src": m[2], "raised": c["raised"], "delivered": c["delivered"], "ok": c["ok"]}
            what = f"UDP datagram {m[1][:80]} ({m[2]}): delivered {c['delivered']} raised={c['raised']} well-formed={c['ok']}"
        k = str(key)
        if k in seen:
            continue
        seen.add(k)
        ck.violation(key, what, {"meta": [m[0], m[1], m[2]] if c["t"] == "tcp" else list(m), "case": c})
    muts = []
    for c in cases[:4000]:
        if c["t"] == "tcp" and len(c["delivered"]) >= 2 and len(muts) < 60:
            muts.append(dict(c, delivered=list(reversed(c["delivered"]))))
            muts.append(dict(c, delivered=c["delivered"][:-1] if not any(f["cls"] == "unreadable" for f in c["frames"]) else c["delivered"] + c["delivered"][:1]))
    r2 = tlc.batch(ck, "io/TcpStream_Judge", muts, min_per_shard=5000)
    if not muts or len(r2.bad) != len(muts):
        raise MachineryError(f"binding self-test: {len(muts) - len(r2.bad)} of {len(muts)} corrupted cases accepted")
    ck.add(evaluations=len(cases), tcp_chunkings=sum(1 for c in cases if c["t"] == "tcp"), udp_datagrams=sum(1 for c in cases if c["t"] == "udp"),
           distinct_nontrivial=len({str([f["cls"] for f in c["frames"]]) for c in cases if c["t"] == "tcp"}), selftest_corrupted_rejected=len(muts),
           rule="distinct = class sequence of the stream")
    ck.sample({"stream": meta[0][1], "chunks": meta[0][2], "case": cases[0]})


def replay(ck, path):
    import json

    d = json.loads(open(path).read())["replay"]
    m = d["meta"]
    other = "second connection" in m[0]
    cbfail = "consumer fails" in m[0]
    m[0] = m[0].split(" ")[0]
    if m[0] in ("tcp", "secure"):
        stream = []
        for k, (h, cl) in enumerate(m[1]):
            f = bytes.fromhex(h)
            stream.append((f, cl, f[6] if m[0] == "tcp" else f[7]))
        with virtual_world(0):
            c = case(m[0], stream, m[2], other, cbfail)
        res = tlc.batch(ck, "io/TcpStream_Judge", [c])
        print(c, "rejected" if res.bad else "accepted")
        return 1 if res.bad else 0
    print(d)
    return 1
