"""C25 - connection lifecycle stays consistent under any failure schedule.

spec : spec/io/Life.tla (design model, FIXED / deviation / no auto-reconnect configurations), LifeMon_Trace.tla (monitor)
code : real UDPTunnel / TCPTunnel session (connect, send, heartbeats, send, disconnect) against the simulated gateway;
       failure events (server DisconnectRequest, two of them, user disconnect(), lost heartbeat responses) injected at every
       event-loop iteration of the session, singly and in pairs a few iterations apart, auto-reconnect on and off.
"""
from __future__ import annotations

import asyncio
import random

from .. import tlc
from ..core import MachineryError
from ..sim.gateway import GatewaySim
from ..vloop import virtual_world
from .c24 import cemi


def run_session(kind, auto, schedule, hb_plan=(), seed=0, connect_plan=(), disc_plan=(), tun_plan=()):
    """schedule: list of (iteration, event) with event in server_disc | server_disc2 | user_disc"""
    from xknx.exceptions import CommunicationError

    info = {"iters": 0, "connected_iter": None}
    with virtual_world(seed) as loop:
        sim = GatewaySim(loop, kind, auto_reconnect=auto, auto_reconnect_wait=1, hb_plan=list(hb_plan),
                         connect_plan=list(connect_plan), disc_plan=list(disc_plan), tun_plan=list(tun_plan))
        st = {"max_rtasks": 0, "user": False}
        sched = {}
        timed = []
        for k, e in schedule:
            if isinstance(k, (list, tuple)):       # ("t", seconds): at a virtual time instead of a loop iteration
                timed.append((float(k[1]), e))
            else:
                sched.setdefault(k, []).append(e)

        async def user_disc():
            st["user"] = True
            try:
                await sim.tun.disconnect()
            except CommunicationError:
                pass
            sim.log("user_disc_ret")

        def hook(k):
            info["iters"] = k
            st["max_rtasks"] = max(st["max_rtasks"], sim.snapshot()["rtasks"])
            fire(sched.get(k, ()))

        def fire(evs):
            for e in evs:
                if e == "server_disc":
                    sim.server_disconnect()
                elif e == "server_disc2":
                    sim.server_disconnect()
                    sim.server_disconnect(chan=sim.tun.communication_channel or 0)
                elif e == "tcp_lost":
                    tr = sim.tun.transport.transport
                    if tr is not None and not tr.is_closing():
                        sim.log("lost")
                        sim.chan = None
                        tr.lose(ConnectionResetError("reset by peer"))
                elif e in ("sess_close", "sess_timeout", "sess_close_tcp"):          # the server ends the secure session under the tunnel
                    if getattr(sim, "srv", None) is not None:
                        sim.server_session_status("STATUS_TIMEOUT" if e == "sess_timeout" else "STATUS_CLOSE", then_close=e.endswith("tcp"))
                elif e == "oo_frame":             # a frame of the server with a counter two ahead (one was lost on the way): the tunnel gives the missing one
                    if sim.chan is not None:      # two seconds to arrive before it gives up the connection
                        sim.server_tunnelling_request(sim.chan, (getattr(getattr(sim.tun, "_sequence", None), "expected", 0) + 2) % 256, 77)
                elif e == "user_disc" and not st["user"]:
                    st["task"] = asyncio.ensure_future(user_disc())
                elif e == "send" and not st["user"]:                 # a telegram handed to the tunnel at this instant (it may have to wait for the tunnel)
                    st.setdefault("sends", []).append(asyncio.ensure_future(send1()))

        loop.iter_hook = hook
        for when, e in timed:
            loop.call_at(when, fire, [e])

        async def send1():
            try:
                await sim.tun.send_cemi(cemi(9))
            except (CommunicationError, asyncio.CancelledError):
                pass

        async def send2():
            for i in range(2):
                if st["user"]:
                    return
                try:
                    await sim.tun.send_cemi(cemi(i))
                except CommunicationError:
                    pass

        async def main():
            try:
                await sim.tun.connect()
            except CommunicationError:
                await asyncio.sleep(5)
                snap = sim.snapshot()
                sim.log("end", max_rtasks=st["max_rtasks"], conn=snap["conn"], chan=snap["chan"], rtasks=snap["rtasks"])
                sim.quiesce()
                return
            info["connected_iter"] = loop.iteration
            await send2()
            await asyncio.sleep(160)
            await send2()
            await asyncio.sleep(10)
            if not st["user"]:
                await user_disc()
            elif "task" in st:
                await st["task"]
            await asyncio.sleep(30)
            snap = sim.snapshot()
            sim.log("end", max_rtasks=st["max_rtasks"], conn=snap["conn"], chan=snap["chan"], rtasks=snap["rtasks"])
            sim.quiesce()

        loop.run_until_complete(main())
        out = []
        for e in sim.ev:
            if e["ev"] in ("tx", "rx"):
                out.append({"ev": e["ev"], "kind": e["kind"], "st": e.get("st", 0), "chan": e.get("chan", -1), "t": e["t"]})
            elif e["ev"] in ("state_cb", "user_disc_ret", "end", "lost"):
                out.append({k: v for k, v in e.items() if k != "it"})
        info["events"] = sim.ev
        return out, info


def run(ck):
    rnd = random.Random(ck.seed)
    ck.assume("the user calls disconnect() only after the initial connect() returned, and nothing else uses the tunnel afterwards")
    ck.assume("'connected while established' is checked as: CONNECTED is reported only after an error-free ConnectResponse, and the final flag agrees with the last report")
    tlc.mc(ck, "io/Life", "io/Life", require_actions=False)
    tlc.mc(ck, "io/Life", "io/Life_NoAuto", require_actions=False)
    dev = tlc.mc(ck, "io/Life", "io/Life_Dev", expect_error=True, record=False, coverage=False)
    ck.add(deviation_model_counterexample="is violated" in dev.error)
    plans = []
    c0s = {}
    for kind in ("udp", "tcp", "secure"):
        for auto in (True, False):
            _, base = run_session(kind, auto, [], seed=ck.seed)
            n, c0 = base["iters"], base["connected_iter"]
            c0s[kind, auto] = c0
            step = 1 if ck.tier == "thorough" or kind != "tcp" else 2
            for k in range(1, n + 1, step):
                plans.append((kind, auto, [(k, "server_disc")], ()))
                if k % 2 == 0 or ck.tier == "thorough":
                    plans.append((kind, auto, [(k, "server_disc2")], ()))
                if k > c0:
                    plans.append((kind, auto, [(k, "user_disc")], ()))
                    for d in (0, 1, 2, 3) if ck.tier == "thorough" or k % 3 == 0 else (1,):
                        plans.append((kind, auto, [(k, "user_disc"), (k + d, "server_disc")], ()))
                        plans.append((kind, auto, [(k, "server_disc"), (k + d, "user_disc")], ()))
                if kind != "udp":
                    plans.append((kind, auto, [(k, "tcp_lost")], ()))                       # the TCP connection drops
                    if k > c0 and (k % 4 == 1 or ck.tier == "thorough"):
                        plans.append((kind, auto, [(k, "tcp_lost"), (k + 2, "user_disc")], ()))
                if kind == "secure" and k > c0 - 4:
                    for e_ in ("sess_close", "sess_timeout", "sess_close_tcp"):
                        plans.append((kind, auto, [(k, e_)], ()))
                    if k % 3 == 0 or ck.tier == "thorough":
                        plans.append((kind, auto, [(k, "sess_close"), (k + 2, "user_disc")], ()))
                        plans.append((kind, auto, [(k, "sess_close_tcp"), (k + 1, "server_disc")], ()))
            # the user disconnects at every iteration of a reconnect caused by four lost heartbeats (gateway answers the
            # reconnect at once / ignores its DisconnectRequest / loses the first ConnectRequest)
            if auto:
                for extra in ({}, {"disc_plan": ["lost"]}, {"connect_plan": ["ok", "lost"]}, {"disc_plan": ["lost"], "connect_plan": ["ok", "lost"]},
                              {"disc_plan": ["lost", "lost"]}, {"disc_plan": ["lost", "lost"], "connect_plan": ["ok", "lost"]}):
                    _, b2 = run_session(kind, auto, [], ["none"] * 4, ck.seed, **extra)
                    ev2 = b2["events"]
                    hb4 = [e["it"] for e in ev2 if e["ev"] == "tx" and e["kind"] == "ConnectionStateRequest"]
                    if len(hb4) >= 4:
                        done = [e["it"] for e in ev2 if e["ev"] == "state_cb" and e["state"] == "CONNECTED" and e["it"] > hb4[3]]
                        hi = (done[0] if done else hb4[3] + 60) + 4
                        lost_t = [e["t"] for e in ev2 if e["ev"] == "state_cb" and e["state"] == "DISCONNECTED" and e["it"] >= hb4[3]]
                        for k in range(hb4[3], hi, 1 if ck.tier == "thorough" or kind == "udp" else 2):
                            plans.append((kind, auto, [(k, "user_disc")], ("none",) * 4, extra))
                        # ... and the server (or the network) ends the new tunnel at every iteration of that reconnect - also in the iteration
                        # in which the reconnect finishes - and once more a few iterations later
                        if not extra or ck.tier == "thorough":
                            for k in range(hb4[3], hi):
                                for e_ in ("server_disc",) if kind == "udp" else ("server_disc", "tcp_lost"):
                                    plans.append((kind, auto, [(k, e_)], ("none",) * 4, extra))
                                    for d in (1, 2, 4) if ck.tier == "quick" else range(1, 9):
                                        plans.append((kind, auto, [(k, e_), (k + d, "server_disc")], ("none",) * 4, extra))
                                    # ... the reconnect that follows loses its first ConnectRequest; the next loss comes while it waits / retries
                                    if not extra and lost_t and (k >= (done[0] if done else hb4[3]) - 2 or ck.tier == "thorough"):
                                        for d in (0.3, 0.8, 1.2, 1.6, 2.5) if ck.tier == "quick" else [x / 10 for x in range(1, 30, 2)]:      # (the connect request times out after 1 s, the retry waits 1 s)
                                            plans.append((kind, auto, [(k, e_), (("t", lost_t[0] / 1000 + d), "server_disc")], ("none",) * 4,
                                                          {"connect_plan": ["ok", "ok", "lost"]}))
                        # ... and at instants inside the waits of the reconnect (no loop iteration happens there by itself)
                        if lost_t:
                            for d in (0.1, 0.4, 0.9, 1.1, 1.6, 2.1, 2.6, 3.4) if ck.tier == "quick" else [x / 10 for x in range(1, 60, 2)]:
                                plans.append((kind, auto, [(("t", lost_t[0] / 1000 + d), "user_disc")], ("none",) * 4, extra))
                            # ... with a telegram handed over while the tunnel is down (it waits for the reconnect), then the user disconnects
                            for d1, d2 in ((0.05, 0.5), (0.05, 1.5), (0.05, 2.5), (0.6, 1.2), (1.2, 1.3), (0.05, 3.5)) if ck.tier == "quick" else \
                                    [(a / 10, b / 10) for a in range(0, 30, 4) for b in range(a + 1, 45, 4)]:
                                plans.append((kind, auto, [(("t", lost_t[0] / 1000 + d1), "send"), (("t", lost_t[0] / 1000 + d2), "user_disc")], ("none",) * 4, extra))
            # a telegram whose acknowledgements never come (two tries of 1 s each) while the user disconnects: nothing may be sent, and no
            # reconnect may start, once disconnect() has returned
            if kind == "udp":
                # an out-of-order frame arms the tunnel's two-second timer; the user disconnects before it fires, at it, after it
                t0 = 20.0
                for d in (None, 0.2, 0.7, 1.0, 1.9, 2.0, 2.1, 3.5) if ck.tier == "quick" else [None] + [x / 10 for x in range(1, 40, 2)]:
                    plans.append((kind, auto, [(("t", t0), "oo_frame")] + ([(("t", t0 + d), "user_disc")] if d is not None else []), ()))
                    plans.append((kind, auto, [(("t", t0), "oo_frame"), (("t", t0 + 0.7), "oo_frame")] + ([(("t", t0 + d), "user_disc")] if d is not None else []), ()))
                for dp in ((), ("lost",)):
                    for d in (0.2, 0.6, 1.1, 1.5, 1.9, 2.05) if ck.tier == "quick" else [x / 20 for x in range(1, 50)]:
                        plans.append((kind, auto, [(("t", d), "user_disc")], (), {"tun_plan": ["lost"] * 4, "disc_plan": list(dp)}))
            for hb in (["none"] * 4, ["fail"] * 4, ["ok", "none", "none", "none", "none"]):
                plans.append((kind, auto, [], tuple(hb)))
                plans.append((kind, auto, [(c0 + rnd.randrange(5, 40), "user_disc")], tuple(hb)))
    plans = [p if len(p) == 5 else (*p, {}) for p in plans]
    traces = [run_session(p[0], p[1], p[2], p[3], ck.seed, **p[4])[0] for p in plans]
    res = tlc.batch(ck, "io/LifeMon_Trace", traces, min_per_shard=50)
    for idx, info in sorted(res.bad.items()):
        kind, auto, sched, hb, extra = plans[idx]
        t = traces[idx]
        l = info if isinstance(info, int) else 0
        ev = t[l - 1] if 0 < l <= len(t) else None
        evk = {k: v for k, v in (ev or {}).items() if k != "t"}
        key = {"transport": kind, "auto_reconnect": auto, "events": [e for _, e in sched], "heartbeat": list(hb), "rejected": evk}
        if extra:
            key["gateway"] = extra
        key["phase"] = "initial_connect" if sched and all(isinstance(k, int) and k <= c0s[kind, auto] for k, _ in sched) else "session"
        ck.violation(key, f"lifecycle trace rejected at event {l}: {ev} ({kind}, auto_reconnect={auto}, schedule={sched}, hb={list(hb)})",
                     {"kind": kind, "auto": auto, "schedule": sched, "hb": list(hb), "extra": extra, "trace": t[-40:], "rejected_at": l})
    muts = []
    for i, t in enumerate(traces[:400]):
        if i in res.bad:
            continue
        ks = [k for k, e in enumerate(t) if e["ev"] == "state_cb" and e["cb"] == "b"]
        if ks and len(muts) < 80:
            a = [dict(e) for e in t]
            del a[ks[-1]]                         # callback b missed a change
            muts.append(a)
        kr = [k for k, e in enumerate(t) if e["ev"] == "user_disc_ret"]
        if kr and len(muts) < 160:
            b = [dict(e) for e in t]
            b.insert(kr[0] + 1, {"ev": "tx", "kind": "ConnectRequest", "st": 0, "chan": -1, "t": 0})   # a frame after disconnect
            muts.append(b)
    r2 = tlc.batch(ck, "io/LifeMon_Trace", muts)
    if len(r2.bad) != len(muts) or not muts:
        raise MachineryError(f"binding self-test: {len(muts) - len(r2.bad)} of {len(muts)} corrupted traces accepted")
    ck.add(traces_validated_against_impl=res.accepted, trace_events=sum(len(t) for t in traces), schedules=len(plans),
           selftest_corrupted_rejected=len(muts))
    ck.sample({"plan": [plans[3][0], plans[3][1], plans[3][2]], "trace": traces[3][-25:]})


def replay(ck, path):
    import json

    d = json.loads(open(path).read())["replay"]
    t, _ = run_session(d["kind"], d["auto"], [(tuple(x[0]) if isinstance(x[0], list) else x[0], x[1]) for x in d["schedule"]], tuple(d["hb"]), ck.seed, **d.get("extra", {}))
    res = tlc.batch(ck, "io/LifeMon_Trace", [t])
    l = res.bad.get(0)
    print("rejected at:", l, t[l - 1] if l else None)
    return 1 if res.bad else 0
