"""C29 - a secure session only accepts fresh wrapped frames and never sends plain ones.

spec : spec/io/SecSession.tla (+ SecSession_MC: every receive history up to length 4), SecSession_Trace.tla
code : real SecureSession against a simulated secure server (X25519, PBKDF2 and the handshake MACs computed with the library's
       primitives; wrappers built with the library's own transport layer under the session key) under virtual time: receive
       histories over {genuine (fresh / replayed / older), forged MAC, wrong key, wrong session id, nested wrapper, wrapped remote
       diagnosis, plain SessionResponse, other plain frame} before and after the handshake; every send path (connect, send,
       keep-alive after 50 s of silence, stop).
"""
from __future__ import annotations

import asyncio
import itertools
import random

from .. import tlc
from ..core import MachineryError
from ..vloop import virtual_world

CLASSES = ("genuine", "forged", "wrongkey", "wrongsid", "nested", "diag", "plainresp", "plain")


def run_hist(history, pre=(), seed=0, second=None, cbfail=False):
    """history: list of (cls, seq) delivered after connect();  pre: list delivered before the handshake (no key yet: plain frames / wrappers)"""
    from cryptography.hazmat.primitives import serialization
    from cryptography.hazmat.primitives.asymmetric.x25519 import X25519PrivateKey, X25519PublicKey
    from xknx.io.ip_secure import COUNTER_0_HANDSHAKE, SecureSession, _IPSecureTransportLayer
    from xknx.knxip import (ConnectionStateRequest, ConnectionStateResponse, KNXIPFrame, SecureWrapper, SessionAuthenticate,
                            SessionRequest, SessionResponse, SessionStatus)
    from xknx.knxip.knxip_enum import SecureSessionStatusCode
    from xknx.secure.security_primitives import (calculate_message_authentication_code_cbc, derive_device_authentication_password,
                                                 encrypt_data_ctr)
    from xknx.secure.util import bytes_xor, sha256_hash

    class Srv(_IPSecureTransportLayer):
        def __init__(self):
            self.session_id, self._key, self.seq, self.tag = 0x21, bytes(16), 0, bytes(2)

        def get_sequence_information(self):
            return self.seq.to_bytes(6, "big")

        def get_message_tag(self):
            return self.tag

    ev = []
    values = sorted({s for _, s in list(history) + list(pre)} | {0})
    rank = {v: i for i, v in enumerate(values)}
    values = sorted(set(values) | {2**40})
    rank = {v: i for i, v in enumerate(values)}
    phase = [1]
    with virtual_world(seed) as loop:
        srv = Srv()

        async def main():
            sess = SecureSession(("10.0.0.2", 3671), user_id=2, user_password="pw", device_authentication_password="dev")
            got = []

            armed = []

            def on_frame(f, src, t):
                got.append(type(f.body).__name__)
                if cbfail and armed and len(got) % 2 == 0:
                    # the consumer of the frame cannot make sense of it (what a tunnel does with an unparsable cEMI frame): the
                    # transport logs it; the frame has been passed on all the same
                    from xknx.exceptions import CouldNotParseKNXIP  # noqa: PLC0415

                    raise CouldNotParseKNXIP("consumer: cannot parse")

            sess.register_callback(on_frame)

            def feed(raw, cls, seq):
                before = len(got)
                try:
                    sess.data_received_callback(bytes(raw))
                except Exception as ex:  # noqa: BLE001 - nothing may escape the transport callback
                    ev.append({"ev": "raised:" + type(ex).__name__})
                ev.append({"ev": "rx", "cls": cls, "seq": rank.get(seq, 0), "up": len(got) - before})

            def wrap(frame, seq, key=None, sid=None, corrupt=False):
                srv.seq = seq
                k0, s0 = srv._key, srv.session_id
                if key is not None:
                    srv._key = key
                if sid is not None:
                    srv.session_id = sid
                raw = bytearray(srv.encrypt_frame(frame).to_knx())
                srv._key, srv.session_id = k0, s0
                if corrupt:
                    raw[-1] ^= 1
                return raw

            inner = lambda: KNXIPFrame.init_from_body(ConnectionStateResponse(communication_channel_id=1))

            def build(cls, seq):
                if cls == "genuine":
                    return wrap(inner(), seq)
                if cls == "forged":
                    return wrap(inner(), seq, corrupt=True)
                if cls == "wrongkey":
                    return wrap(inner(), seq, key=bytes(range(16)))
                if cls == "wrongsid":
                    return wrap(inner(), seq, sid=0x99)
                if cls == "nested":
                    return wrap(KNXIPFrame.from_knx(bytes(wrap(inner(), seq)))[0], seq)
                if cls == "diag":
                    d = bytearray(inner().to_knx())
                    d[2], d[3] = 0x07, 0x40            # REMOTE_DIAG_REQUEST service type in the inner header
                    fr = KNXIPFrame.init_from_body(SecureWrapper())   # built by hand: wrap arbitrary inner octets
                    return wrap_raw(bytes(d), seq)
                if cls == "plainresp":
                    return KNXIPFrame.init_from_body(SessionResponse(secure_session_id=1, ecdh_server_public_key=bytes(32), message_authentication_code=bytes(16))).to_knx()
                return inner().to_knx()

            def wrap_raw(inner_octets, seq):
                """wrapper around arbitrary inner octets (services the library's own classes cannot build)"""
                from xknx.secure.security_primitives import calculate_message_authentication_code_cbc as cbc, encrypt_data_ctr as ctr

                sid = srv.session_id.to_bytes(2, "big")
                seqb = seq.to_bytes(6, "big")
                from xknx.io.const import XKNX_SERIAL_NUMBER as serial
                total = 6 + 2 + 6 + 6 + 2 + len(inner_octets) + 16
                header = bytes([6, 0x10, 0x09, 0x50, total >> 8, total & 0xFF])
                mac_cbc = cbc(key=srv._key, additional_data=header + sid, payload=inner_octets,
                              block_0=seqb + serial + srv.tag + len(inner_octets).to_bytes(2, "big"))
                enc, mac = ctr(key=srv._key, counter_0=seqb + serial + srv.tag + b"\xff\x00", mac_cbc=mac_cbc, payload=inner_octets)
                return bytearray(header + sid + seqb + serial + srv.tag + enc + mac)

            def gw(tr, data, addr):
                f, _ = KNXIPFrame.from_knx(data)
                b = f.body
                if isinstance(b, SessionRequest):
                    ev.append({"ev": "tx", "wrapped": 0, "kind": "SessionRequest", "seq": 0})
                    priv = X25519PrivateKey.generate()
                    pub = priv.public_key().public_bytes(serialization.Encoding.Raw, serialization.PublicFormat.Raw)
                    srv._key = sha256_hash(priv.exchange(X25519PublicKey.from_public_bytes(b.ecdh_client_public_key)))[:16]
                    x = bytes_xor(b.ecdh_client_public_key, pub)
                    dk = derive_device_authentication_password("dev")
                    mac_cbc = calculate_message_authentication_code_cbc(key=dk, additional_data=bytes.fromhex("061009520038") + srv.session_id.to_bytes(2, "big") + x)
                    _, mac = encrypt_data_ctr(key=dk, counter_0=COUNTER_0_HANDSHAKE, mac_cbc=mac_cbc)
                    if phase[0] == 2 and second == "forged":      # the second handshake is answered by somebody who does not know the device password
                        mac = bytes(b ^ 0x55 for b in mac)
                    raw = KNXIPFrame.init_from_body(SessionResponse(secure_session_id=srv.session_id, ecdh_server_public_key=pub, message_authentication_code=mac)).to_knx()
                    loop.inject(feed, raw, "plainresp", 0)
                elif isinstance(b, SecureWrapper):
                    seqn = int.from_bytes(b.sequence_information, "big")
                    try:
                        kind = type(srv.decrypt_frame(f).body).__name__
                    except Exception:  # noqa: BLE001
                        kind = "undecryptable"
                    ev.append({"ev": "tx", "wrapped": 1, "kind": kind, "seq": seqn})
                    if kind == "SessionAuthenticate":
                        loop.inject(feed, wrap(KNXIPFrame.init_from_body(SessionStatus(status=SecureSessionStatusCode.STATUS_AUTHENTICATION_SUCCESS)), 0), "genuine", 0)
                else:
                    ev.append({"ev": "tx", "wrapped": 0, "kind": type(b).__name__, "seq": 0})

            loop.on_send = gw
            # frames that arrive before any handshake (the session has no key)
            for cls, seq in pre:
                feed(build(cls, seq), cls, seq)
            await sess.connect()
            armed.append(1)
            for cls, seq in history:
                loop.inject(feed, build(cls, seq), cls, seq)
                await asyncio.sleep(0.01)
            try:
                sess.send(KNXIPFrame.init_from_body(ConnectionStateRequest(communication_channel_id=1)))
            except Exception as ex:  # noqa: BLE001
                ev.append({"ev": "send_raised:" + type(ex).__name__})
            await asyncio.sleep(55)              # silence: a keep-alive has to go out, wrapped
            armed.clear()
            old_frame = bytes(wrap(inner(), 2**40))      # a frame of this session, wrapped with its key: to be replayed later
            sess.stop()
            ev.append({"ev": "stopped"})
            await asyncio.sleep(1)
            if second is not None:
                # the same object connects again; with a forged SessionResponse the connect must fail, and the session must not fall back
                # to the key of the previous session: a replayed frame of that session is dropped, nothing is sent wrapped with the old key
                phase[0] = 2
                try:
                    await sess.connect()
                    ok2 = True
                except Exception:  # noqa: BLE001
                    ok2 = False
                if second == "forged":
                    ev.append({"ev": "connect2_failed"} if not ok2 else {"ev": "connect2_accepted_forged_response"})
                    feed(old_frame, "genuine", 2**40)
                    try:
                        sess.stop()
                    except Exception as ex:  # noqa: BLE001
                        ev.append({"ev": "stop_raised:" + type(ex).__name__})
                    ev.append({"ev": "stopped"})
                else:
                    for cls, seq in history[:3]:
                        loop.inject(feed, build(cls, seq), cls, seq)
                        await asyncio.sleep(0.01)
                    feed(old_frame, "wrongkey", 2**40)        # a frame of the previous session: another key now
                    sess.stop()
                    ev.append({"ev": "stopped"})
                await asyncio.sleep(1)

        loop.run_until_complete(main())
    return ev


def plans(ck):
    rnd = random.Random(ck.seed)
    seqs = (0, 1, 2, 5, 2**31, 2**48 - 1)
    out = []
    for n in (1, 2):
        for cl in itertools.product(CLASSES, repeat=n):
            for _ in range(2 if ck.tier == "quick" else 6):
                out.append(([(c, rnd.choice(seqs)) for c in cl], []))
    for cl in CLASSES:
        out.append(([("genuine", 3)], [(cl, 1)]))          # a frame before the handshake
    for _ in range(150 if ck.tier == "quick" else 3000):
        n = rnd.randrange(3, 20)
        h, cur = [], 0
        for _ in range(n):
            c = rnd.choices(CLASSES, weights=[6, 1, 1, 1, 1, 1, 1, 1])[0]
            s = rnd.choice([cur, cur + 1, cur + 1, max(cur - 1, 0), rnd.choice(seqs), cur + rnd.randrange(1, 1000)])
            s = min(s, 2**48 - 1)
            h.append((c, s))
            if c == "genuine" and s > cur:
                cur = s
        out.append((h, []))
    return out


def run(ck):
    ck.assume("the simulated server uses the library's primitives for X25519 / PBKDF2 / CCM (their octets are the subject of C28); frames are classified by how they were built")
    tlc.mc(ck, "io/SecSession_MC", require_actions=False)
    ps = plans(ck)
    # every third history is followed by a second connect of the same object: answered by a forger, or a regular new session
    second = [None if i % 3 else ("forged" if i % 2 else "new") for i in range(len(ps))]
    cbfail = [i % 4 == 1 for i in range(len(ps))]           # every fourth history with a consumer that fails on every second frame
    traces = [run_hist(h, pre, ck.seed, second[i], cbfail[i]) for i, (h, pre) in enumerate(ps)]
    res = tlc.batch(ck, "io/SecSession_Trace", traces, min_per_shard=40)
    for idx, info in sorted(res.bad.items()):
        t = traces[idx]
        l = info if isinstance(info, int) else 0
        e = t[l - 1] if 0 < l <= len(t) else None
        ck.violation({"history": [list(x) for x in ps[idx][0]][:10], "pre": [list(x) for x in ps[idx][1]], "rejected": e, "second": second[idx], "cbfail": cbfail[idx]},
                     f"secure session trace rejected at event {l}: {e}; before {t[max(0, l - 6):l - 1]}; history {ps[idx][0][:10]} pre {ps[idx][1]}",
                     {"history": ps[idx][0], "pre": ps[idx][1], "second": second[idx], "cbfail": cbfail[idx], "trace": t, "rejected_at": l})
    muts = []
    for i, t in enumerate(traces):
        if i in res.bad or len(muts) >= 120:
            continue
        rx = [k for k, e in enumerate(t) if e["ev"] == "rx" and e["cls"] in ("forged", "wrongkey", "wrongsid", "plain")]
        if rx:
            a = [dict(e) for e in t]
            a[rx[0]]["up"] = 1                                    # a frame that must be dropped was passed on
            muts.append(a)
        tx = [k for k, e in enumerate(t) if e["ev"] == "tx" and e["wrapped"] == 1]
        if len(tx) >= 2:
            b = [dict(e) for e in t]
            b[tx[1]]["seq"] = b[tx[0]]["seq"]                     # a sequence number used twice
            muts.append(b)
            c = [dict(e) for e in t]
            c[tx[1]]["wrapped"] = 0                               # a plain frame after the handshake
            muts.append(c)
    r2 = tlc.batch(ck, "io/SecSession_Trace", muts, min_per_shard=40)
    if not muts or len(r2.bad) != len(muts):
        raise MachineryError(f"binding self-test: {len(muts) - len(r2.bad)} of {len(muts)} corrupted traces accepted")
    ck.add(traces_validated_against_impl=res.accepted, trace_events=sum(len(t) for t in traces), histories=len(ps),
           frames_received=sum(1 for t in traces for e in t if e["ev"] == "rx"), frames_sent=sum(1 for t in traces for e in t if e["ev"] == "tx"),
           selftest_corrupted_rejected=len(muts))
    ck.sample({"history": ps[70][0], "trace": traces[70]})


def replay(ck, path):
    import json

    d = json.loads(open(path).read())["replay"]
    t = run_hist([tuple(x) for x in d["history"]], [tuple(x) for x in d["pre"]], ck.seed, d.get("second"), bool(d.get("cbfail")))
    res = tlc.batch(ck, "io/SecSession_Trace", [t])
    print("trace:", t, "\nrejected at:", res.bad.get(0))
    return 1 if res.bad else 0
