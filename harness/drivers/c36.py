"""C36 - registered tasks follow connection state and never run twice.

spec : spec/core/TaskReg.tla (model-checked for both values of restart_after_reconnect), TaskReg_Trace.tla
code : real Task / TaskRegistry / ConnectionManager under the virtual loop; every operation sequence up to a bound for every
       option combination; after each operation the live asyncio instances of the task are observed.
"""
from __future__ import annotations

import asyncio
import itertools
import random

from .. import tlc
from ..core import MachineryError
from ..fx import make_xknx
from ..vloop import virtual_world

OPS = ("start", "remove", "stop", "lost", "conn", "t1", "t5", "connecting")      # connecting: the bus is not connected either (CONNECTING, also straight from CONNECTED)
OPTS = [dict(restart_after_reconnect=r, wait_before_start=w, wait_for_connection=c, repeat_after=p)
        for r, w, c, p in itertools.product([False, True], [0, 1], [False, True], [None, 0, 3])]


PAIRS = {"blip": ("lost", "conn"), "flap": ("conn", "lost"), "restart": ("start", "start")}   # two calls without the loop running in between
KINDS = ("plain", "catch")     # catch: the target swallows its cancellation and returns normally (as the callback of the repository's own test does)


def run_hist(opts, ops, seed=0, threaded=False, kind="plain"):
    from xknx.core import Task, XknxConnectionState

    trace = [{"op": "cfg", "restart": 1 if opts["restart_after_reconnect"] else 0, "live": 0, "new": 0, "running": 0, "noobs": 0}]
    with virtual_world(seed) as loop:
        async def main():
            xknx, _ = make_xknx(loop)
            reg = xknx.task_registry
            reg.start()
            cm = xknx.connection_manager
            if threaded:       # ConnectionConfig(threaded=True): state reports are handed to the main loop with call_soon_threadsafe
                await cm.register_loop()
            cm.connection_state_changed(XknxConnectionState.CONNECTED)
            await asyncio.sleep(0)
            await asyncio.sleep(0)
            running = {"n": 0}

            async def target():
                running["n"] += 1
                try:
                    await asyncio.sleep(2)
                except asyncio.CancelledError:
                    if kind != "catch":
                        raise
                finally:
                    running["n"] -= 1

            t = Task("verif-task", target, **opts)

            async def twin_target():
                await asyncio.sleep(2)

            twin = Task("verif-task", twin_target, **opts)      # another task object that happens to carry the same name

            mine_set = set()          # the asyncio tasks that are instances of t
            made, counted, runaway = [], [0], []       # every asyncio task created on this loop; those named after the task are its instances

            def factory(lp, coro, **kw):
                if len(made) > 3000 and not runaway:        # a history of a dozen calls creates a few dozen tasks: this is a runaway - stop it;
                    runaway.append(running["n"])             # the number of target invocations in progress at that point is what the trace reports
                    for old in made:
                        old.cancel()
                tk = asyncio.Task(coro, loop=lp, **kw)
                if runaway:
                    tk.cancel()
                made.append(tk)
                fr = getattr(coro, "cr_frame", None)
                if getattr(coro, "__qualname__", "").endswith("Task._start_internal") and fr is not None and fr.f_locals.get("self") is t:
                    mine_set.add(tk)              # an instance of t (not of its namesake), decided while the coroutine still has its frame
                return tk

            loop.set_task_factory(factory)
            flat = []
            for op in ops:
                flat += [(PAIRS[op][0], 1), (PAIRS[op][1], 0)] if op in PAIRS else [(op, 0)]
            for op, noobs in flat:
                if op == "start":
                    reg.start_task(t)
                elif op == "remove":
                    reg.remove_task(t)
                elif op == "stop":
                    reg.stop()
                elif op == "lost":
                    cm.connection_state_changed(XknxConnectionState.DISCONNECTED)
                elif op == "conn":
                    cm.connection_state_changed(XknxConnectionState.CONNECTED)
                elif op == "connecting":
                    cm.connection_state_changed(XknxConnectionState.CONNECTING)
                elif op == "twin":            # the namesake is started and removed again: nothing of this concerns t
                    reg.start_task(twin)
                    reg.remove_task(twin)
                elif op == "t1":
                    await asyncio.sleep(1)
                elif op == "t5":
                    await asyncio.sleep(5)
                opname = "lost" if op == "connecting" else op if op not in ("t1", "t5", "twin") else "tick"
                if noobs:          # the next call follows at once: nothing is observed in between
                    trace.append({"op": opname, "live": 0, "new": 0, "running": 0, "noobs": 1})
                    continue

                def fresh():
                    n = len(mine_set)
                    was, counted[0] = counted[0], n
                    return 1 if n > was else 0
                new = fresh()
                await asyncio.sleep(0)
                await asyncio.sleep(0)
                if threaded:
                    new = max(new, fresh())          # the report was processed by the loop only now
                live = [x for x in asyncio.all_tasks() if not x.done() and x in mine_set]
                trace.append({"op": opname, "live": len(live), "new": new, "running": max(running["n"], runaway[0] if runaway else 0), "noobs": 0})
            reg.stop()
            await asyncio.sleep(0)

        keep = []  # keep task objects alive so ids are not reused
        loop.run_until_complete(main())
    return trace


def histories(ck):
    rnd = random.Random(ck.seed)
    hs = []
    maxlen = 4 if ck.tier == "quick" else 5
    for n in range(1, maxlen + 1):
        for ops in itertools.product(OPS, repeat=n):
            if "start" not in ops:
                continue
            if "stop" in ops and any(o in ("start", "remove") for o in ops[ops.index("stop") + 1:]):
                continue  # the registry is not used after stop()
            hs.append(ops)
    # two calls in a row before the loop runs again: a short drop, a short-lived connection, a task started twice
    for n in (1, 2):
        for ops in itertools.product(OPS + tuple(PAIRS), repeat=n):
            if any(o in PAIRS for o in ops) and "stop" not in ops:
                hs.append(("start",) + ops + ("t1", "lost", "t1", "conn"))
    for tail in itertools.product(("remove", "lost", "start", "t5"), ("t1", "conn", "lost", "start")):
        hs.append(("start", "twin") + tail + ("t1", "lost", "t1", "conn"))
        hs.append(("start", "t1", "twin", "t1") + tail)
        hs.append(("start", "twin") + tail + ("stop",))
    for _ in range(100 if ck.tier == "quick" else 2000):
        n = rnd.randrange(6, 14)
        hs.append(tuple(rnd.choices(OPS[:2] + OPS[3:] + tuple(PAIRS) + ("twin",), weights=[3, 1, 3, 3, 2, 2, 2, 2, 2, 1, 1], k=n)))
    return hs


def run(ck):
    ck.assume("the registry is not used after TaskRegistry.stop() (start_task/remove_task only before it)")
    ck.assume("an instance counts as live until its asyncio task is done; observations are taken two loop iterations after each call")
    for r in ("TRUE", "FALSE"):
        tlc.mc(ck, "core/TaskReg_MC", "core/TaskReg_MC_" + r, require_actions=False)
    hs = histories(ck)
    rnd = random.Random(ck.seed + 1)
    traces, meta = [], []
    for ops in hs:
        # all option combinations for short histories, a sample for the longer ones
        opts_list = OPTS if len(ops) <= 3 else rnd.sample(OPTS, 4 if ck.tier == "quick" else (8 if len(ops) == 4 else 3))
        for j, opts in enumerate(opts_list):
            # every history also with state reports handed over from another thread and with a target that swallows its cancellation
            for threaded, kind in ((False, "plain"),) + (((True, "plain"), (False, "catch")) if j % 4 == 0 else ()) + (((True, "catch"),) if j % 8 == 4 else ()):
                if kind == "catch" and opts["repeat_after"] is not None:
                    continue            # a repeating task whose target swallows cancellation cannot be stopped by anybody: not a use of the registry
                traces.append(run_hist(opts, ops, ck.seed, threaded, kind))
                meta.append((dict(opts, threaded=threaded, target=kind), ops))
    res = tlc.batch(ck, "core/TaskReg_Trace", traces)
    for idx, info in sorted(res.bad.items()):
        opts, ops = meta[idx]
        t = traces[idx]
        l = info if isinstance(info, int) else 0
        ck.violation({"opts": opts, "ops": list(ops)},
                     f"task registry trace rejected at event {l} ({t[l - 1] if 0 < l <= len(t) else None}) for opts={opts} ops={list(ops)}",
                     {"opts": opts, "ops": list(ops), "trace": t, "rejected_at": l})
    muts = []
    for t, (opts, ops) in [(t, m) for i, (t, m) in enumerate(zip(traces, meta)) if i not in res.bad]:
        if len(muts) >= 90:
            break
        if opts["restart_after_reconnect"]:
            for k, e in enumerate(t):
                if e["op"] == "conn" and e["new"] == 1:
                    a = [dict(x) for x in t]
                    a[k]["new"] = 0
                    muts.append(a)
                    break
                if e["op"] == "lost" and e["live"] == 0 and t[k - 1]["live"] == 1:
                    a = [dict(x) for x in t]
                    a[k]["live"] = 1
                    muts.append(a)
                    break
        for k, e in enumerate(t):
            if e["op"] == "start" and e["live"] == 1:
                a = [dict(x) for x in t]
                a[k]["live"] = 2
                muts.append(a)
                break
    r2 = tlc.batch(ck, "core/TaskReg_Trace", muts)
    if len(r2.bad) != len(muts) or not muts:
        raise MachineryError(f"binding self-test: {len(muts) - len(r2.bad)} of {len(muts)} corrupted traces accepted")
    ck.add(traces_validated_against_impl=res.accepted, trace_events=sum(len(t) for t in traces), histories=len(hs),
           option_combinations=len(OPTS), scheduling_modes=2, target_kinds=2, selftest_corrupted_rejected=len(muts))
    ck.sample({"opts": meta[100][0], "ops": list(meta[100][1]), "trace": traces[100]})
    ck.sample({"opts": meta[-1][0], "ops": list(meta[-1][1]), "trace": traces[-1]})


def replay(ck, path):
    import json

    d = json.loads(open(path).read())["replay"]
    o = dict(d["opts"])
    threaded, kind = bool(o.pop("threaded", False)), o.pop("target", "plain")
    t = run_hist(o, d["ops"], ck.seed, threaded, kind)
    res = tlc.batch(ck, "core/TaskReg_Trace", [t])
    print("trace:", t, "\nrejected at:", res.bad.get(0))
    return 1 if res.bad else 0
