"""C34 - telegram callbacks see exactly the telegrams they subscribed to.

spec : spec/core/Callbacks.tla (model-checked), Callbacks_Trace.tla
code : real TelegramQueue (started XKNX with mocked interface, virtual loop): random registrations (address filters, address
       lists, both, none; outgoing flag; raising callables), unregistrations and incoming / outgoing telegrams to group,
       internal and individual addresses; a real Switch device records device processing.
"""
from __future__ import annotations

import asyncio
import random

from .. import tlc
from ..core import MachineryError
from ..fx import make_xknx, start_xknx, stop_xknx
from ..vloop import virtual_world

ADDR = [None, "1/1/1", "1/1/2", "1/2/1", "2/1/1", "i-verif-x", "i-verif-y", "0/0/0"]   # index 0: individual destination; 7: the broadcast address (no device can have it)
# filters with their denotation over ADDR (by hand, independent of AddressFilter)
FILTERS = [("1/1/*", [1, 2]), ("1/*/*", [1, 2, 3]), ("*/1/1", [1, 4]), ("2/1/1", [4]), ("1/1/2-5", [2]), ("3/*/*", []),
           ("i-verif-x", [5]), ("i-verif-*", [5, 6]), ("0/0/*", [7]), ("0-1/*/0-1", [1, 3, 7]), ("*/*/*", [1, 2, 3, 4, 7])]


def run_hist(seed, n):
    from xknx.devices import Switch
    from xknx.dpt import DPTBinary
    from xknx.telegram import AddressFilter, GroupAddress, IndividualAddress, Telegram, TelegramDirection
    from xknx.telegram.address import parse_device_group_address
    from xknx.telegram.apci import DeviceDescriptorRead, GroupValueWrite

    rnd = random.Random(seed)
    ev = []
    with virtual_world(seed) as loop:
        async def main():
            xknx, sent = make_xknx(loop, rate_limit=0)
            await start_xknx(xknx)
            tq = xknx.telegram_queue
            fail = [False]
            real_send = xknx.knxip_interface.send_cemi

            async def send_cemi(cemi):            # the interface refuses some outgoing telegrams (tunnel down)
                if fail[0]:
                    from xknx.exceptions import CommunicationError  # noqa: PLC0415
                    raise CommunicationError("not connected")
                await real_send(cemi)

            xknx.knxip_interface.send_cemi = send_cemi
            called, dev = [], []
            regs = []  # Callback objects in registration order
            ids = {}

            # every address has a device so that device processing is observable
            for a in ADDR[1:7]:
                sw = Switch(xknx, "sw" + a, group_address=a)
                sw.process = (lambda t: dev.append(1))
                xknx.devices.async_add(sw)

            def mk(num, raises):
                def cb(t):
                    called.append(num)
                    if raises:
                        raise RuntimeError("callback failed")
                return cb

            counter = 0
            fns = []      # (number, callable, raises): one callable may be registered several times, with different filters
            base = {"k": 0, "dst": 0, "outgoing": 0, "fns": [], "devices": 0, "sendfail": 0, "all": 0, "den": [], "out": 0, "raises": 0, "fn": 0}
            for _ in range(n):
                r = rnd.random()
                if r < 0.3 and len(regs) < 5:
                    counter += 1
                    mode = rnd.choice(["all", "filters", "addresses", "both", "empty"])
                    if fns and rnd.random() < 0.3:
                        fnum, fn, raises = rnd.choice(fns)
                    else:
                        raises = rnd.random() < 0.3
                        fnum, fn = counter, mk(counter, raises)
                        fns.append((fnum, fn, raises))
                    out = rnd.random() < 0.5
                    den, fl, gl = set(), None, None
                    if mode in ("filters", "both"):
                        fs = rnd.sample(FILTERS, rnd.randrange(1, 3))
                        fl = [AddressFilter(f) for f, _ in fs]
                        for _, d in fs:
                            den |= set(d)
                    if mode in ("addresses", "both"):
                        gs = rnd.sample(range(1, len(ADDR)), rnd.randrange(1, 3))
                        gl = [GroupAddress(0) if g == 7 else parse_device_group_address(ADDR[g]) for g in gs]
                        den |= set(gs)
                    if mode == "empty":
                        fl, gl = [], []
                    obj = tq.register_telegram_received_cb(fn, address_filters=fl, group_addresses=gl, match_for_outgoing=out)
                    regs.append(obj)
                    ev.append(dict(base, ev="reg", all=1 if mode == "all" else 0, den=sorted(den), out=int(out), raises=int(raises), fn=fnum))
                elif r < 0.4 and regs:
                    k = rnd.randrange(len(regs))
                    try:
                        tq.unregister_telegram_received_cb(regs.pop(k))
                        ev.append(dict(base, ev="unreg", k=k + 1))
                    except Exception as ex_:  # noqa: BLE001 - a registered handle can always be unregistered: recorded, nothing explains it
                        ev.append(dict(base, ev="unreg_raised:" + type(ex_).__name__, k=k + 1))
                elif r < 0.48 and regs:
                    # the handle's lists are edited in place (the documented way to change a subscription): this registration only
                    k = rnd.randrange(len(regs))
                    if rnd.random() < 0.5:
                        f, d_ = rnd.choice(FILTERS)
                        regs[k].address_filters.append(AddressFilter(f))
                    else:
                        g = rnd.randrange(1, len(ADDR))
                        regs[k].group_addresses.append(GroupAddress(0) if g == 7 else parse_device_group_address(ADDR[g]))
                        d_ = [g]
                    ev.append(dict(base, ev="edit", k=k + 1, den=sorted(d_)))
                else:
                    d = rnd.randrange(len(ADDR))
                    outgoing = rnd.random() < 0.4 and d != 0
                    dst = IndividualAddress("1.2.3") if d == 0 else GroupAddress(0) if d == 7 else parse_device_group_address(ADDR[d])
                    called.clear()
                    dev.clear()
                    sendfail = 1 if outgoing and not ADDR[d].startswith("i-") and rnd.random() < 0.25 else 0
                    fail[0] = bool(sendfail)
                    tg = Telegram(destination_address=dst, payload=DeviceDescriptorRead() if d == 0 else GroupValueWrite(DPTBinary(1)),
                                  direction=TelegramDirection.OUTGOING if outgoing else TelegramDirection.INCOMING)
                    xknx.telegrams.put_nowait(tg)
                    await asyncio.wait_for(xknx.telegrams.join(), 30)
                    ev.append(dict(base, ev="tg", dst=d, outgoing=int(outgoing), fns=list(called), devices=1 if (dev or (d in (0, 7) and not sendfail)) else 0,
                                   sendfail=sendfail))
            await stop_xknx(xknx)

        loop.run_until_complete(main())
    return {"ev": ev}


def run(ck):
    ck.assume("filters used are ones whose denotation over the 6 test addresses is written down by hand (AddressFilter itself is C02)")
    ck.assume("a telegram to an individual address has no device consumer in Devices.process: 'devices' is recorded as reached")
    tlc.mc(ck, "core/Callbacks_MC", require_actions=False)
    n = 600 if ck.tier == "quick" else 10000
    seeds = [ck.seed * 15485863 + i for i in range(n)]
    traces = [run_hist(s, 30) for s in seeds]
    res = tlc.batch(ck, "core/Callbacks_Trace", traces)
    for idx, info in sorted(res.bad.items()):
        t = traces[idx]
        l = info if isinstance(info, int) else 0
        ev = t["ev"][l - 1] if 0 < l <= len(t["ev"]) else None
        regs = [e for e in t["ev"][:l] if e["ev"] in ("reg", "unreg")]
        ck.violation({"event": ev, "registrations": regs}, f"callback trace rejected at event {l}: {ev}; registrations so far: {regs}",
                     {"seed": seeds[idx], "n": 30, "trace": t, "rejected_at": l})
    muts = []
    for i, t in enumerate(traces[:300]):
        if i in res.bad:
            continue
        for k, e in enumerate(t["ev"]):
            if e["ev"] == "tg" and len(e["fns"]) >= 1:
                a = {"ev": [dict(x) for x in t["ev"]]}
                a["ev"][k]["fns"] = e["fns"][:-1]
                muts.append(a)
                b = {"ev": [dict(x) for x in t["ev"]]}
                b["ev"][k]["fns"] = e["fns"] + [e["fns"][-1]]
                muts.append(b)
                break
    r2 = tlc.batch(ck, "core/Callbacks_Trace", muts)
    if len(r2.bad) != len(muts) or not muts:
        raise MachineryError(f"binding self-test: {len(muts) - len(r2.bad)} of {len(muts)} corrupted traces accepted")
    tg = [e for t in traces for e in t["ev"] if e["ev"] == "tg"]
    ck.add(traces_validated_against_impl=res.accepted, trace_events=sum(len(t["ev"]) for t in traces), telegrams=len(tg),
           telegrams_with_several_callbacks=sum(1 for e in tg if len(e["fns"]) >= 2),
           edits=sum(1 for t in traces for e in t["ev"] if e["ev"] == "edit"),
           callables_registered_twice=sum(1 for t in traces if len({e["fn"] for e in t["ev"] if e["ev"] == "reg"}) < sum(1 for e in t["ev"] if e["ev"] == "reg")),
           raising_callbacks_registered=sum(1 for t in traces for e in t["ev"] if e["ev"] == "reg" and e["raises"]),
           selftest_corrupted_rejected=len(muts))
    ck.sample({"ev": traces[0]["ev"][:12]})


def replay(ck, path):
    import json

    d = json.loads(open(path).read())["replay"]
    t = run_hist(d["seed"], d["n"])
    res = tlc.batch(ck, "core/Callbacks_Trace", [t])
    l = res.bad.get(0)
    print("rejected at:", l, t["ev"][l - 1] if l else None)
    return 1 if res.bad else 0
