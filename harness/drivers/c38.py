"""C38 - eager group-address decoding never changes what devices see.

spec : spec/core/EagerDecode.tla (two receive paths, model-checked; deviation "use the attached value whenever there is one" gives a
       counterexample), law TelegramOk judged per recorded telegram (EagerDecode_Judge.tla)
code : two real started XKNX instances with the same devices (every RemoteValue class is behind one of them), one with
       group_address_dpt.set(table) for generated tables - the remote value's own type, another type of the same payload shape,
       a type of another shape, invalid entries - the other without; the same incoming telegram stream; after every telegram the
       decoded data seen by a telegram callback and the state of every remote value of every device are compared.
"""
from __future__ import annotations

import asyncio
import json
import random

from .. import tlc
from ..core import MachineryError
from ..fx import make_xknx, start_xknx, stop_xknx
from ..vloop import virtual_world

EDGE = (0, 1, 2, 0x3F, 0x40, 0x7F, 0x80, 0xFE, 0xFF)


def build(xknx):
    """devices covering every RemoteValue class; returns {group address string: remote value}"""
    from xknx.devices import (BinarySensor, Climate, ClimateMode, Cover, DateDevice, DateTimeDevice, ExposeSensor, Fan, Light, Notification, NumericValue,
                              RawValue, Scene, Sensor, Switch, TimeDevice, Weather)

    n = [0]

    def ga():
        n[0] += 1
        return f"{1 + n[0] // 200}/{(n[0] // 20) % 8}/{n[0] % 20 + 1}"

    d = xknx.devices
    d.async_add(Switch(xknx, "sw", group_address=ga(), group_address_state=ga()))
    d.async_add(Switch(xknx, "swi", group_address=ga(), invert=True))
    d.async_add(BinarySensor(xknx, "bs", group_address_state=ga()))
    d.async_add(BinarySensor(xknx, "bsi", group_address_state=ga(), invert=True))
    d.async_add(Light(xknx, "li", group_address_switch=ga(), group_address_switch_state=ga(), group_address_brightness=ga(), group_address_brightness_state=ga(),
                      group_address_color=ga(), group_address_color_state=ga(), group_address_rgbw=ga(), group_address_rgbw_state=ga(),
                      group_address_xyy_color=ga(), group_address_xyy_color_state=ga(), group_address_tunable_white=ga(), group_address_tunable_white_state=ga(),
                      group_address_color_temperature=ga(), group_address_color_temperature_state=ga(), group_address_hue=ga(), group_address_hue_state=ga(),
                      group_address_saturation=ga(), group_address_saturation_state=ga()))
    d.async_add(Cover(xknx, "co", group_address_long=ga(), group_address_short=ga(), group_address_stop=ga(), group_address_position=ga(),
                      group_address_position_state=ga(), group_address_angle=ga(), group_address_angle_state=ga(), group_address_locked_state=ga()))
    d.async_add(Cover(xknx, "coi", group_address_long=ga(), group_address_position=ga(), group_address_position_state=ga(), invert_position=True, invert_updown=True))
    d.async_add(Fan(xknx, "fa", group_address_speed=ga(), group_address_speed_state=ga(), group_address_oscillation=ga(), group_address_switch=ga()))
    d.async_add(Fan(xknx, "fas", group_address_speed=ga(), group_address_speed_state=ga(), max_step=3))
    mode = ClimateMode(xknx, "cm", group_address_operation_mode=ga(), group_address_operation_mode_state=ga(), group_address_controller_status=ga(),
                       group_address_controller_status_state=ga(), group_address_controller_mode=ga(), group_address_controller_mode_state=ga(),
                       group_address_operation_mode_protection=ga(), group_address_operation_mode_economy=ga(), group_address_operation_mode_comfort=ga(),
                       group_address_heat_cool=ga(), group_address_heat_cool_state=ga())
    d.async_add(mode)
    d.async_add(Climate(xknx, "cl", group_address_temperature=ga(), group_address_target_temperature=ga(), group_address_target_temperature_state=ga(),
                        group_address_setpoint_shift=ga(), group_address_setpoint_shift_state=ga(), group_address_on_off=ga(), group_address_on_off_state=ga(),
                        group_address_active_state=ga(), group_address_command_value_state=ga(), group_address_humidity_state=ga(), mode=mode))
    for vt in ("temperature", "percent", "percentU8", "percentV16", "pulse_2byte", "pulse_4byte", "power", "string", "latin_1", "illuminance", "scene_number",
               "active_energy_8byte", "1byte_signed", "time_period_10msec", "angle", "volume_flow"):
        d.async_add(Sensor(xknx, "se_" + vt, group_address_state=ga(), value_type=vt))
    for vt in ("temperature", "percent", "pulse_2byte", "power", "percentV8"):
        d.async_add(NumericValue(xknx, "nv_" + vt, group_address=ga(), group_address_state=ga(), value_type=vt))
        d.async_add(ExposeSensor(xknx, "ex_" + vt, group_address=ga(), value_type=vt))
    for ln in (0, 1, 2, 4):
        d.async_add(RawValue(xknx, f"raw{ln}", payload_length=ln, group_address=ga(), group_address_state=ga()))
    d.async_add(Notification(xknx, "no", group_address=ga(), group_address_state=ga()))
    d.async_add(Notification(xknx, "nol", group_address=ga(), value_type="latin_1"))
    d.async_add(Scene(xknx, "sc", group_address=ga(), scene_number=5))
    d.async_add(DateTimeDevice(xknx, "dt", group_address=ga(), group_address_state=ga(), localtime=False))
    d.async_add(DateDevice(xknx, "da", group_address=ga(), localtime=False))
    d.async_add(TimeDevice(xknx, "ti", group_address=ga(), localtime=False))
    d.async_add(Weather(xknx, "we", group_address_temperature=ga(), group_address_brightness_south=ga(), group_address_wind_speed=ga(), group_address_wind_bearing=ga(),
                        group_address_rain_alarm=ga(), group_address_air_pressure=ga(), group_address_humidity=ga(), group_address_day_night=ga()))
    # devices sharing addresses with the ones above (the decoded value of one telegram is handed to all of them) and having addresses of their own
    byname = {dv.name: dv for dv in xknx.devices}
    li = byname["li"]
    shared = {"group_address_xyy_color_state": str(li.xyy_color.group_address_state), "group_address_rgbw_state": str(li.rgbw.group_address_state),
              "group_address_color_state": str(li.color.group_address_state), "group_address_brightness_state": str(li.brightness.group_address_state)}
    d.async_add(Light(xknx, "li2", group_address_switch=ga(), group_address_xyy_color=ga(), group_address_rgbw=ga(), group_address_color=ga(), group_address_brightness=ga(),
                      **shared))
    d.async_add(Light(xknx, "li3", group_address_switch=ga(), group_address_xyy_color=ga(), group_address_xyy_color_state=shared["group_address_xyy_color_state"]))
    d.async_add(Sensor(xknx, "se2_xyy", group_address_state=shared["group_address_xyy_color_state"], value_type="color_xyy"))
    d.async_add(Sensor(xknx, "se2_temperature", group_address_state=str(byname["se_temperature"].sensor_value.group_address_state), value_type="temperature"))
    d.async_add(Switch(xknx, "sw2", group_address=ga(), group_address_state=str(byname["sw"].switch.group_address_state)))
    d.async_add(Cover(xknx, "co2", group_address_long=ga(), group_address_position=ga(), group_address_position_state=str(byname["co"].position_current.group_address_state)))
    gas = {}
    for dev in xknx.devices:
        for rv in dev._iter_remote_values():
            for a in rv.group_addresses():
                gas.setdefault(str(a), rv)
    return gas


def snapshot(xknx):
    out = {}
    for dev in xknx.devices:
        for rv in dev._iter_remote_values():
            out[f"{dev.name}.{rv.feature_name}"] = repr(rv.value)
            out[f"{dev.name}.{rv.feature_name}/payload"] = repr(rv.last_payload)      # what respond() / cooldown comparisons use
        for attr in ("state", "current_brightness", "current_color", "current_position", "current_angle", "current_speed", "resolve_state", "temperature",
                     "target_temperature", "operation_mode", "controller_mode", "is_on", "message", "last_telegram"):
            try:
                v = getattr(dev, attr)
                v = v() if callable(v) else v
                out[f"{dev.name}:{attr}"] = repr(getattr(v, "value", v)) if attr != "last_telegram" else repr(getattr(v, "payload", None))
            except Exception as ex:  # noqa: BLE001
                out[f"{dev.name}:{attr}"] = "raises:" + type(ex).__name__
    return out


def other_types(cls, rnd):
    """datapoint types for the table: same shape as cls but another type, and another shape"""
    from xknx.dpt import DPTBase

    alls = [c for c in DPTBase.dpt_class_tree() if c.dpt_main_number is not None]
    same = [c for c in alls if c is not cls and c.payload_type is cls.payload_type and c.payload_length == cls.payload_length and not issubclass(cls, c) and not issubclass(c, cls)]
    kin = [c for c in alls if c is not cls and (issubclass(cls, c) or issubclass(c, cls))]
    diff = [c for c in alls if c.payload_type is not cls.payload_type or c.payload_length != cls.payload_length]
    return same, kin, diff


def run(ck):
    from xknx.dpt import DPTArray, DPTBase, DPTBinary
    from xknx.telegram import GroupAddress, IndividualAddress, Telegram, TelegramDirection
    from xknx.telegram.apci import GroupValueRead, GroupValueResponse, GroupValueWrite

    rnd = random.Random(ck.seed)
    tlc.mc(ck, "core/EagerDecode_MC", "core/EagerDecode_MC")
    tlc.mc(ck, "core/EagerDecode_MC", "core/EagerDecode_MC_B", require_actions=False)
    dev = tlc.mc(ck, "core/EagerDecode_MC", "core/EagerDecode_Dev", expect_error=True, record=False, coverage=False)
    ck.add(deviation_model_counterexample="is violated" in dev.error)
    recs, ex = [], []
    rounds = 6 if ck.tier == "quick" else 40
    dead = [False]
    with virtual_world(ck.seed) as loop:
        async def main():
            for rd in range(rounds):
                xa, _ = make_xknx(loop)
                xb, _ = make_xknx(loop)
                gas = build(xa)
                build(xb)
                byname = {dv.name: dv for dv in xa.devices}
                shared_addrs = {str(byname["li"].xyy_color.group_address_state), str(byname["li"].rgbw.group_address_state), str(byname["li"].color.group_address_state),
                                str(byname["li"].brightness.group_address_state)}
                # directed: a complete colour on the shared state address, then partly valid colours on the addresses only one of the devices has
                li2 = byname["li2"]
                directed = [(str(byname["li"].xyy_color.group_address_state), DPTArray((0x4C, 0xCC, 0x66, 0x66, 100, 0x03))),
                            (str(li2.xyy_color.group_address), DPTArray((0x19, 0x99, 0x33, 0x33, 200, 0x01))),
                            (str(byname["li3"].xyy_color.group_address), DPTArray((0x10, 0x00, 0x20, 0x00, 50, 0x02))),
                            (str(byname["li"].rgbw.group_address_state), DPTArray((10, 20, 30, 40, 0, 0x0F))),
                            (str(li2.rgbw.group_address), DPTArray((7, 0, 0, 0, 0, 0x08))),
                            (str(byname["li"].rgbw.group_address), DPTArray((0, 0, 0, 99, 0, 0x01))),
                            (str(byname["li"].xyy_color.group_address_state), DPTArray((0x4C, 0xCC, 0x66, 0x66, 100, 0x02))),
                            (str(li2.xyy_color.group_address), DPTArray((0x19, 0x99, 0x33, 0x33, 1, 0x01)))]
                kind = ["own", "same_shape", "kin", "other_shape", "mixed", "mixed"][rd % 6]
                table, tkind = {}, {}
                for a, rv in gas.items():
                    own = rv.dpt_class or getattr(rv, "_internal_dpt_class", None)
                    base = own
                    if base is None:        # remote values with a from_knx of their own: give the table some type of a plausible shape
                        base = rnd.choice([c for c in DPTBase.dpt_class_tree() if c.dpt_main_number in (1, 5, 9, 14, 20)])
                    same, kin, diff = other_types(base, rnd)
                    k = kind if kind != "mixed" else rnd.choice(["own", "same_shape", "kin", "other_shape", "absent", "invalid"])
                    if rd % 3 != 2 and a in shared_addrs:
                        k = "own"          # the addresses several devices listen to: listed with their own type in two rounds of three
                    if k == "own":
                        t = base
                    elif k == "same_shape" and same:
                        t = rnd.choice(same)
                    elif k == "kin" and kin:
                        t = rnd.choice(kin)
                    elif k == "other_shape":
                        t = rnd.choice(diff)
                    elif k == "invalid":
                        table[a] = rnd.choice(["no_such_type", "99.999", {"main": 999}, 17.5])
                        tkind[a] = "invalid"
                        continue
                    elif k == "absent":
                        continue
                    else:
                        t = base
                    table[a] = rnd.choice([t.dpt_number_str(), {"main": t.dpt_main_number, "sub": t.dpt_sub_number}] + ([t.value_type] if t.value_type else []))
                    tkind[a] = k
                table["not/an/address"] = "9.001"
                table["99/99/99"] = "9.001"
                xb.group_address_dpt.set(table)
                seen = {"a": [], "b": []}
                xa.telegram_queue.register_telegram_received_cb(lambda t: seen["a"].append(t))
                xb.telegram_queue.register_telegram_received_cb(lambda t: seen["b"].append(t))
                await start_xknx(xa)
                await start_xknx(xb)
                addrs = sorted(gas)
                known_diff = set()
                for step in range(700 if ck.tier == "quick" else 3000):
                    a = rnd.choice(addrs)
                    rv = gas[a]
                    own = rv.dpt_class or getattr(rv, "_internal_dpt_class", None)
                    L = own.payload_length if own is not None and own.payload_type is DPTArray else None
                    r = rnd.random()
                    if step < 3 * len(directed) and step % 3 == 0:
                        a, p = directed[step // 3]
                        rv = gas[a]
                    elif r < 0.25:
                        p = DPTBinary(rnd.choice((0, 1, 1, 2, 3, 7, 8, 15, 63)))
                    elif r < 0.8 and L:
                        p = DPTArray(tuple(rnd.choice(EDGE) if rnd.random() < 0.4 else rnd.randrange(256) for _ in range(L)))
                    else:
                        p = DPTArray(tuple(rnd.randrange(256) for _ in range(rnd.choice((1, 1, 2, 2, 3, 4, 6, 8, 14)))))
                    pay = rnd.choice([GroupValueWrite(p), GroupValueWrite(p), GroupValueResponse(p), GroupValueRead()])
                    if step < 3 * len(directed) and step % 3 == 0:
                        pay = GroupValueWrite(p)
                    na, nb = len(seen["a"]), len(seen["b"])
                    for x in (xa, xb):
                        x.telegrams.put_nowait(Telegram(destination_address=GroupAddress(a), direction=TelegramDirection.INCOMING, payload=pay,
                                                        source_address=IndividualAddress(0x1105)))
                    try:        # a consumer that died (an exception escaped the eager decoding) never finishes the queue
                        await asyncio.wait_for(xa.telegrams.join(), 30)
                        await asyncio.wait_for(xb.telegrams.join(), 30)
                    except TimeoutError:
                        recs.append({"t": "eager", "table": tkind.get(a, "absent"), "has": 1, "expect": 0, "dec": 0, "decok": 0, "without": 0, "same": 0, "cb": 0})
                        ex.append(f"{type(rv).__name__} at {a} (table: {table.get(a)!r}, {tkind.get(a, 'absent')}), {type(pay).__name__}({p}) -> the telegram queue of an instance no longer drains: its consumer task is dead")
                        dead[0] = True
                        break
                    ta = seen["a"][na:] or [None]
                    tb = seen["b"][nb:] or [None]
                    trans = xb.group_address_dpt.get(GroupAddress(a))
                    expect, ref = 0, None
                    if trans is not None and not isinstance(pay, GroupValueRead):
                        try:
                            ref = trans.from_knx(p)
                            expect = 1
                        except Exception:  # noqa: BLE001
                            expect = 0
                    dd = getattr(tb[0], "decoded_data", None)
                    sa, sb = snapshot(xa), snapshot(xb)
                    alld = {k for k in sa if sa[k] != sb.get(k)}
                    diff = sorted(alld - known_diff)           # a divergence is reported at the telegram that caused it
                    known_diff.update(alld)
                    recs.append({"t": "eager", "table": tkind.get(a, "absent"), "has": 1 if trans is not None else 0, "expect": expect, "dec": 1 if dd is not None else 0,
                                 "decok": 1 if dd is not None and dd.transcoder is trans and (dd.value == ref or (dd.value != dd.value and ref != ref)) else 0,
                                 "without": 1 if getattr(ta[0], "decoded_data", None) is not None else 0,
                                 "same": 0 if diff else 1, "cb": 1 if len(ta) == len(tb) == 1 and ta[0] is not None and tb[0] is not None else 0})
                    ex.append(f"{type(rv).__name__} at {a} (table: {table.get(a)!r}, {tkind.get(a, 'absent')}), {type(pay).__name__}({p}) -> differing: {diff[:4]}"
                              + (f" {sa[diff[0]]} / {sb[diff[0]]}" if diff else ""))
                if dead[0]:
                    return
                await stop_xknx(xa)
                await stop_xknx(xb)

        loop.run_until_complete(main())
    res = tlc.batch(ck, "core/EagerDecode_Judge", recs, min_per_shard=2000)
    seen_k = set()
    for idx in sorted(res.bad):
        r = recs[idx]
        key = {k: v for k, v in r.items() if k != "t"}
        key["rv"] = ex[idx].split(" ")[0]
        if json.dumps(key, sort_keys=True) in seen_k:
            continue
        seen_k.add(json.dumps(key, sort_keys=True))
        ck.violation(key, f"eager decoding: {ex[idx]} -> {json.dumps(r)}", {"record": r, "example": ex[idx]})
    good = [r for r in recs if r["dec"] == 1]
    muts = [dict(r, same=0) for r in recs[:10]] + [dict(r, decok=0) for r in good[:10]] + [dict(r, dec=0) for r in good[:10]] + [dict(r, without=1) for r in recs[:5]]
    r2 = tlc.batch(ck, "core/EagerDecode_Judge", muts)
    if not muts or len(r2.bad) != len(muts):
        raise MachineryError(f"binding self-test: {len(muts) - len(r2.bad)} of {len(muts)} corrupted cases accepted")
    import collections

    ck.add(evaluations=len(recs), telegrams_with_decoded_data=len(good), by_table_kind=dict(collections.Counter(r["table"] for r in recs)),
           remote_value_classes=len({e.split(" ")[0] for e in ex}), distinct_nontrivial=len({(e.split(" ")[0], r["table"], r["dec"], r["expect"]) for r, e in zip(recs, ex)}),
           selftest_corrupted_rejected=len(muts), rule="distinct = (remote value class, table kind, decoded, decodable)")
    ck.sample({"record": recs[3], "example": ex[3]})


def replay(ck, path):
    print(json.loads(open(path).read())["replay"])
    return 1
