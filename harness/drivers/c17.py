"""C17 - Data Secure enforces sequence-number freshness in both directions.

spec : spec/secure/DsSeq.tla (model-checked), DsSeq_Trace.tla (trace validation; sequence numbers abstracted to ranks)
code : real xknx.secure.data_secure.DataSecure: histories of genuine, replayed, reordered, forged (MAC / key), unknown-sender
       frames from three senders (frames produced by the real SecureData with chosen 48-bit numbers), and outgoing frames near 2^48.
"""
from __future__ import annotations

import random

from .. import tlc
from ..core import MachineryError

MAX48 = 2**48 - 1
KEY = bytes(range(16))
SENDERS = ["1.1.1", "1.1.2", "4.0.9"]
UNKNOWN = "9.9.9"


def frame(src, dst, seq, key, corrupt=None):
    from xknx.cemi import CEMIFrame, CEMILData, CEMIMessageCode
    from xknx.dpt import DPTArray
    from xknx.secure.data_secure import DataSecure
    from xknx.telegram import GroupAddress, IndividualAddress, Telegram
    from xknx.telegram.apci import GroupValueWrite

    peer = DataSecure(group_key_table={GroupAddress(dst): key}, individual_address_table={}, last_sequence_number_sending=max(seq, 1))
    peer._sequence_number_sending = seq
    data = CEMILData.init_from_telegram(Telegram(GroupAddress(dst), payload=GroupValueWrite(DPTArray((seq & 0xFF, 7)))),
                                        src_addr=IndividualAddress(src))
    sec = peer.outgoing_cemi(data)
    raw = bytearray(CEMIFrame(code=CEMIMessageCode.L_DATA_IND, data=sec).to_knx())
    if corrupt == "mac":
        raw[-1] ^= 0x40
    elif corrupt == "body":
        raw[-6] ^= 0x01
    return bytes(raw)


LOOP = None


def bare_xknx():
    """an XKNX whose interface is a stand-in; the CEMI handler and Data Secure are the real ones"""
    global LOOP
    from unittest.mock import AsyncMock, Mock, patch

    from xknx import XKNX
    from xknx.telegram import IndividualAddress

    if LOOP is None:
        import asyncio

        LOOP = asyncio.new_event_loop()
    m = Mock()
    m.start = AsyncMock()
    m.stop = AsyncMock()
    with patch("xknx.xknx.knx_interface_factory", return_value=m):
        xk = XKNX()
    xk.knxip_interface = m
    xk.current_address = IndividualAddress("5.0.1")
    return xk


def run_hist(seed, n):
    from xknx.cemi import CEMIFrame
    from xknx.exceptions import DataSecureError
    from xknx.secure.data_secure import DataSecure
    from xknx.telegram import GroupAddress, IndividualAddress

    rnd = random.Random(seed)
    pool = sorted({0, 1, 2, MAX48, MAX48 - 1, 2**47} | {rnd.randrange(2**48) for _ in range(4)} | {rnd.randrange(50) for _ in range(4)})
    init = [rnd.choice(pool[:-1]) for _ in SENDERS]
    sent0 = rnd.choice([1, 5, MAX48 - 2, MAX48 - 1, MAX48, rnd.randrange(1, 2**48)])
    universe = sorted(set(pool) | set(init) | {MAX48} | {sent0 + k for k in range(-1, n + 2)})
    rank = {v: i for i, v in enumerate(universe)}
    ds = DataSecure(group_key_table={GroupAddress("0/4/0"): KEY},
                    individual_address_table={IndividualAddress(s): v for s, v in zip(SENDERS, init)},
                    last_sequence_number_sending=sent0)
    xk = bare_xknx()
    xk.cemi_handler.data_secure = ds
    ev, old = [], []
    for _ in range(n):
        r = rnd.random()
        if r < 0.8:
            # "own": a frame that carries our own (sending) address as source - we are no sender of our own table: unknown like any other
            kind = rnd.choices(["genuine", "replay", "mac", "body", "wrongkey", "unknown", "own"], weights=[6, 2, 1, 1, 1, 1, 1])[0]
            si = rnd.randrange(3)
            if kind == "replay" and not old:
                kind = "genuine"
            if kind == "replay":
                si, seq, raw = rnd.choice(old)
                ok = 1
            else:
                seq = rnd.choice(pool)
                if rnd.random() < 0.5:   # just above the current table value
                    cur = ds._individual_address_table[IndividualAddress(SENDERS[si])]
                    nxt = [v for v in pool if v > cur]
                    seq = nxt[0] if nxt else seq
                src = UNKNOWN if kind == "unknown" else "5.0.1" if kind == "own" else SENDERS[si]
                if kind == "own":
                    seq = MAX48 - 1 if rnd.random() < 0.5 else seq
                raw = frame(src, "0/4/0", seq, bytes(16) if kind == "wrongkey" else KEY,
                            corrupt=kind if kind in ("mac", "body") else None)
                ok = 1 if kind in ("genuine", "replay", "unknown", "own") else 0
                if kind == "genuine":
                    old.append((si, seq, raw))
            cemi = CEMIFrame.from_knx(raw)
            try:
                ds.received_cemi(cemi.data)
                d = 1
            except DataSecureError:
                d = 0
            s = 0 if kind in ("unknown", "own") else si + 1
            lv = -1 if s == 0 else rank[ds._individual_address_table[IndividualAddress(SENDERS[si])]]
            ev.append({"ev": "recv", "s": s, "n": rank[seq], "ok": ok, "delivered": d, "lv": lv, "kind": kind, "res": "", "seq": str(seq)})
        else:
            from xknx.dpt import DPTBinary
            from xknx.exceptions import CommunicationError, ConversionError
            from xknx.telegram import Telegram
            from xknx.telegram.apci import GroupValueWrite

            # the whole sending path: CEMIHandler.send_telegram secures the frame and hands it to the interface, which may fail
            # before the frame leaves ("down"), after it left ("lostack": the tunnel got no acknowledgement) or not at all
            fault = rnd.choices(["none", "lostack", "down", "conv"], weights=[6, 2, 1, 1])[0]
            wire = []

            async def send_cemi(cemi, fault=fault, wire=wire):
                if fault == "down":
                    raise CommunicationError("not connected")
                if fault == "conv":
                    raise ConversionError("cannot serialise")
                wire.append(cemi)
                if fault == "lostack":
                    raise CommunicationError("no acknowledgement")
                xk.cemi_handler._l_data_confirmation_event.set()

            xk.knxip_interface.send_cemi = send_cemi
            try:
                LOOP.run_until_complete(xk.cemi_handler.send_telegram(Telegram(GroupAddress("0/4/0"), payload=GroupValueWrite(DPTBinary(1)))))
                res = "ok"
            except (CommunicationError, ConversionError):
                res = "ok" if wire else "notsent"
            except DataSecureError:
                res = "error"
            except Exception as ex:  # noqa: BLE001 - e.g. OverflowError when a number above 48 bits is packed
                res = "crash:" + type(ex).__name__
            if wire and res == "error":
                res = "crash:sent-and-error"
            if res == "ok" and wire:
                num = int.from_bytes(wire[0].data.payload.secured_data.sequence_number_bytes, "big") if hasattr(wire[0].data.payload, "secured_data") else -5
                ev.append({"ev": "send", "n": rank.get(num, len(universe) + 1), "res": "ok", "s": 0, "ok": 0, "delivered": 0, "lv": 0, "seq": str(num), "fault": fault})
            elif res == "notsent":           # nothing left the instance (the counter may or may not have moved on)
                ev.append({"ev": "send", "n": -1, "res": "notsent", "s": 0, "ok": 0, "delivered": 0, "lv": 0, "fault": fault})
            else:
                ev.append({"ev": "send", "n": -1, "res": res, "s": 0, "ok": 0, "delivered": 0, "lv": 0, "fault": fault})
    # lastSent before the first send: the number below sent0
    return {"init": [rank[v] for v in init], "max": rank[MAX48], "sent0": rank[sent0 - 1] if sent0 - 1 in rank else rank[sent0] - 1, "ev": ev}


def run(ck):
    ck.assume("48-bit sequence numbers are mapped to their rank among all numbers of a history (the rule only compares them)")
    tlc.mc(ck, "secure/DsSeq_MC", require_actions=False)
    n = 1200 if ck.tier == "quick" else 20000
    seeds = [ck.seed * 104729 + i for i in range(n)]
    traces = [run_hist(s, 30) for s in seeds]
    res = tlc.batch(ck, "secure/DsSeq_Trace", traces)
    for idx, info in sorted(res.bad.items()):
        t = traces[idx]
        l = info if isinstance(info, int) else 0
        ev = t["ev"][l - 1] if 0 < l <= len(t["ev"]) else None
        ck.violation({"seed": seeds[idx], "event": ev}, f"Data Secure sequence trace rejected at event {l}: {ev} (initial ranks {t['init']}, max rank {t['max']})",
                     {"seed": seeds[idx], "n": 30, "trace": t, "rejected_at": l})
    muts = []
    for i, t in enumerate(traces[:300]):
        if i in res.bad:
            continue
        for k, e in enumerate(t["ev"]):
            if e["ev"] == "recv" and e["delivered"] == 0 and e["kind"] in ("replay", "mac"):
                a = dict(t, ev=[dict(x) for x in t["ev"]])
                a["ev"][k]["delivered"] = 1
                muts.append(a)
                break
    r2 = tlc.batch(ck, "secure/DsSeq_Trace", muts)
    if len(r2.bad) != len(muts) or not muts:
        raise MachineryError(f"binding self-test: {len(muts) - len(r2.bad)} of {len(muts)} corrupted traces accepted")
    kinds = {}
    for t in traces:
        for e in t["ev"]:
            k = (e.get("kind", "send"), e["delivered"], e["res"])
            kinds[k] = kinds.get(k, 0) + 1
    ck.add(traces_validated_against_impl=res.accepted, trace_events=sum(len(t["ev"]) for t in traces),
           event_classes={"/".join(map(str, k)): v for k, v in sorted(kinds.items())}, selftest_corrupted_rejected=len(muts))
    ck.sample({"init": traces[0]["init"], "max": traces[0]["max"], "ev": traces[0]["ev"][:10]})


def replay(ck, path):
    import json

    d = json.loads(open(path).read())["replay"]
    t = run_hist(d["seed"], d["n"])
    res = tlc.batch(ck, "secure/DsSeq_Trace", [t])
    l = res.bad.get(0)
    print("rejected at:", l, t["ev"][l - 1] if l else None)
    return 1 if res.bad else 0
