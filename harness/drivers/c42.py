"""C42 - timed resets and press counters behave as configured.

spec : spec/dev/ResetCounter.tla (reference: when the device reports 'on', what the counter reads), ResetCounter_MC
       (all telegram sequences over gap classes), ResetCounter_Trace.tla
code : real Switch(reset_after), BinarySensor(reset_after), BinarySensor(context_timeout) in a started XKNX under virtual
       time; on/off telegram histories with gaps below / at / above the configured times; state and counter recorded after
       every telegram, at every device callback and at sample points around the expiry.
"""
from __future__ import annotations

import asyncio
import itertools
import random

from .. import tlc
from ..core import MachineryError
from ..fx import make_xknx, start_xknx, stop_xknx
from ..vloop import ms, virtual_world


def run_hist(kind, r_ms, c_ms, events, seed=0):
    """kind: switch | bs;  events: list of (gap_ms, value)"""
    from xknx.devices import BinarySensor, Switch
    from xknx.dpt import DPTBinary
    from xknx.telegram import GroupAddress, IndividualAddress, Telegram, TelegramDirection
    from xknx.telegram.apci import GroupValueResponse, GroupValueWrite

    ev = []
    with virtual_world(seed) as loop:
        now = lambda: ms(loop.time())

        async def main():
            xknx, _sent = make_xknx(loop)
            st = lambda d: -1 if d.state is None else int(bool(d.state))
            cnt = lambda d: -1 if getattr(d, "counter", None) is None else d.counter

            def cb(d):
                ev.append({"ev": "rep", "st": st(d), "cnt": cnt(d), "t": now()})

            if kind == "switch":
                dev = Switch(xknx, "s", group_address="1/1/1", reset_after=r_ms / 1000 if r_ms else None, device_updated_cb=cb)
            else:
                dev = BinarySensor(xknx, "b", group_address_state="1/1/1", reset_after=r_ms / 1000 if r_ms else None,
                                   context_timeout=c_ms / 1000 if c_ms else None, device_updated_cb=cb)
            orig = dev.process_group_write

            def pgw(telegram):
                mark = len(ev)       # callbacks fired while the telegram is processed are reports *after* the telegram
                try:
                    orig(telegram)
                finally:
                    ev.insert(mark, {"ev": "tg", "v": int(telegram.payload.value.value), "own": 1 if telegram.direction is TelegramDirection.OUTGOING else 0,
                                     "st": st(dev), "cnt": cnt(dev), "t": now()})

            dev.process_group_write = pgw
            if kind == "bs" and not c_ms:          # a binary sensor with a reset time: every third telegram is the answer to a read - an 'on' like any other
                orig_r = dev.process_group_response

                def pgr(telegram):
                    mark = len(ev)
                    try:
                        orig_r(telegram)
                    finally:
                        ev.insert(mark, {"ev": "tg", "v": int(telegram.payload.value.value), "own": 0, "st": st(dev), "cnt": cnt(dev), "t": now()})

                dev.process_group_response = pgr
            xknx.devices.async_add(dev)
            await start_xknx(xknx)
            lastv = None
            for i_, (gap, v) in enumerate(events):
                if gap:
                    await asyncio.sleep(gap / 1000)
                    if dev.state is not None:
                        ev.append({"ev": "rep", "st": st(dev), "cnt": cnt(dev), "t": now()})     # sample before the next telegram
                # an answer that repeats 'on' after the timed reset has passed is left out: whether a read answer that tells nothing new
                # switches the sensor on again is the library's choice, not something the property states
                resp = kind == "bs" and not c_ms and i_ % 3 == 2 and not (v == 1 and lastv == 1 and dev.state is False)
                xknx.telegrams.put_nowait(Telegram(GroupAddress("1/1/1"), direction=TelegramDirection.INCOMING,
                                                   payload=(GroupValueResponse if resp else GroupValueWrite)(DPTBinary(v)),
                                                   source_address=IndividualAddress("1.1.7")))
                lastv = v
                await asyncio.sleep(0.0005)
            big = max(r_ms, c_ms)
            for d in (big - 50, 40, 20, big):      # samples around the expiry after the last telegram
                await asyncio.sleep(max(d, 1) / 1000)
                if dev.state is not None:
                    ev.append({"ev": "rep", "st": st(dev), "cnt": cnt(dev), "t": now()})
            await stop_xknx(xknx)

        loop.run_until_complete(main())
    return {"r": r_ms, "c": c_ms, "ev": ev}


def plans(ck):
    rnd = random.Random(ck.seed)
    out = []
    R, C = 5000, 1000
    n = 4 if ck.tier == "quick" else 5
    rgaps = (0, 1, R // 2, R - 10, R, R + 10, 2 * R)
    cgaps = (0, 1, C // 2, C - 10, C, C + 10, 3 * C)
    for kind in ("switch", "bs"):
        for vs in itertools.product((1, 0), repeat=n):
            for gs in itertools.product(rgaps, repeat=n - 1):
                if rnd.random() < (0.06 if ck.tier == "quick" else 0.2):
                    out.append((kind, R, 0, [(0 if i == 0 else gs[i - 1], v) for i, v in enumerate(vs)]))
    # counter: runs of the same state (alternation inside one window is left open by the property and generated rarely)
    for m in range(1, 7):
        for gs in itertools.product(cgaps, repeat=m - 1):
            if m <= 3 or rnd.random() < (0.05 if ck.tier == "quick" else 0.4):
                for v in (1, 0):
                    out.append(("bs", 0, C, [(0 if i == 0 else gs[i - 1], v) for i in range(m)]))
    for _ in range(200 if ck.tier == "quick" else 3000):
        m = rnd.randrange(3, 10)
        out.append(("bs", 0, C, [(rnd.choice(cgaps), rnd.choice([1, 1, 1, 0])) for _ in range(m)]))
        out.append((rnd.choice(["switch", "bs"]), R, 0, [(rnd.choice(rgaps), rnd.choice([1, 1, 0])) for _ in range(m)]))
    return out


def run(ck):
    ck.assume("instants within 2 ms of an expiry may read either state; what a press counter reads after an alternation inside one context window is left open")
    tlc.mc(ck, "dev/ResetCounter_MC", require_actions=False)
    tlc.mc(ck, "dev/ResetCounter_MC", cfg="dev/ResetCounter_MC_counter", require_actions=False)
    ps = plans(ck)
    traces = [run_hist(*p, seed=ck.seed) for p in ps]
    res = tlc.batch(ck, "dev/ResetCounter_Trace", traces, min_per_shard=100)
    for idx, info in sorted(res.bad.items()):
        t = traces[idx]["ev"]
        l = info if isinstance(info, int) else 0
        e = t[l - 1] if 0 < l <= len(t) else None
        ck.violation({"device": ps[idx][0], "reset_ms": ps[idx][1], "context_ms": ps[idx][2], "telegrams": [list(x) for x in ps[idx][3]],
                      "rejected": {k: v for k, v in (e or {}).items() if k != "t"}},
                     f"{ps[idx][0]} (reset {ps[idx][1]} ms, context {ps[idx][2]} ms) trace rejected at event {l}: {e}; telegrams {ps[idx][3]}; trace {t[:l]}",
                     {"plan": list(ps[idx]), "trace": t, "rejected_at": l})
    muts = []
    for i, tr in enumerate(traces):
        if i in res.bad or len(muts) >= 240:
            continue
        t = tr["ev"]
        if tr["r"]:
            offs = [k for k, e in enumerate(t) if e["ev"] == "rep" and e["st"] == 0 and k > 0 and any(x["ev"] == "tg" and x["v"] == 1 for x in t[:k])]
            ons = [k for k, e in enumerate(t) if e["ev"] == "tg" and e["v"] == 1]
            if offs and ons and [k for k in ons if k < offs[0]]:
                on_k = [k for k in ons if k < offs[0]][-1]
                a = [dict(e) for e in t]
                changed = 0
                for k in range(on_k + 1, len(a)):
                    if a[k]["ev"] == "tg":
                        break
                    if a[k]["st"] == 0 and a[k]["t"] > t[on_k]["t"] + tr["r"] + 5:
                        a[k]["st"] = 1                               # the device did not reset
                        changed += 1
                if changed:
                    muts.append({"r": tr["r"], "c": tr["c"], "ev": a})
        if tr["c"]:
            ks = [k for k, e in enumerate(t) if e["ev"] == "tg" and e["cnt"] >= 2]
            if ks:
                b = [dict(e) for e in t]
                b[ks[0]]["cnt"] -= 1                                 # a press was not counted
                muts.append({"r": tr["r"], "c": tr["c"], "ev": b})
    r2 = tlc.batch(ck, "dev/ResetCounter_Trace", muts, min_per_shard=100)
    if not muts or len(r2.bad) != len(muts):
        acc = [m for k, m in enumerate(muts) if k not in r2.bad][:1]
        raise MachineryError(f"binding self-test: {len(muts) - len(r2.bad)} of {len(muts)} corrupted traces accepted: {acc}")
    ck.add(traces_validated_against_impl=res.accepted, trace_events=sum(len(t["ev"]) for t in traces), histories=len(ps),
           telegrams=sum(1 for t in traces for e in t["ev"] if e["ev"] == "tg"), selftest_corrupted_rejected=len(muts))
    ck.sample({"plan": list(ps[3]), "trace": traces[3]["ev"]})


def replay(ck, path):
    import json

    d = json.loads(open(path).read())["replay"]
    p = d["plan"]
    t = run_hist(p[0], p[1], p[2], [tuple(x) for x in p[3]], ck.seed)
    res = tlc.batch(ck, "dev/ResetCounter_Trace", [t])
    print("trace:", t["ev"], "\nrejected at:", res.bad.get(0))
    return 1 if res.bad else 0
