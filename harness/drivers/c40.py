"""C40 - cover position estimates stay within bounds and never fail.

spec : spec/dev/TravelCalc.tla (estimate specified up to rounding; model-checked over small travel times),
       TravelCalc_Trace.tla (trace validation with the real travel times, 1 tick = 1/1024 s)
code : real xknx.devices.travelcalculator.TravelCalculator with time.time replaced by a tick clock; random command /
       report / stop / query histories with clock advances from {0, 1 tick, fractions of the travel time, beyond it}.
"""
from __future__ import annotations

import random
import time

from .. import tlc
from ..core import MachineryError

TICK = 1 / 1024
BASE = 1_700_000_000.0
TT = [0.5, 1.0, 3.25, 10.0, 25.0, 60.0]


def run_hist(seed, nops):
    from xknx.devices.travelcalculator import TravelCalculator, TravelStatus

    rnd = random.Random(seed)
    down, up = rnd.choice(TT), rnd.choice(TT)
    clock = {"t": 0}
    real = time.time
    time.time = lambda: BASE + clock["t"] * TICK
    ev = []
    try:
        tc = TravelCalculator(down, up)
        other = TravelCalculator(up + 1, down + 2) if rnd.random() < 0.5 else None       # a second cover of the same process, moved in between; not observed

        def state():
            d = {TravelStatus.DIRECTION_UP: "up", TravelStatus.DIRECTION_DOWN: "down", TravelStatus.STOPPED: "stopped"}[tc.travel_direction]
            return {"last": -1 if tc._last_known_position is None else tc._last_known_position,
                    "target": -1 if tc._travel_to_position is None else tc._travel_to_position,
                    "conf": 1 if tc._position_confirmed else 0, "dir": d}

        def call(op, fn, **kw):
            e = {"op": op, "raised": 0, "d": 0, "p": -1, "res": -1}
            e.update(kw)
            try:
                r = fn()
                if op == "query":
                    e["res"] = -1 if r is None else r
                    if not isinstance(r, int) and r is not None:
                        e["raised"] = 1
            except Exception as ex:  # noqa: BLE001
                e["raised"] = 1
                e["exc"] = type(ex).__name__
            e.update(state())
            ev.append(e)

        for _ in range(nops):
            r = rnd.random()
            if r < 0.3:
                tt = max(down, up)
                d = rnd.choice([0, 0, 1, 2, int(tt * 1024 * rnd.choice([0.01, 0.1, 0.25, 0.5])), int(tt * 1024 * 1.2) + 1,
                                int(rnd.choice([down, up]) * 1024 * rnd.randrange(0, 101) / 100)])
                clock["t"] += d
                e = {"op": "tick", "raised": 0, "d": d, "p": -1, "res": -1}
                e.update(state())
                ev.append(e)
            elif r < 0.55:
                call("query", tc.current_position)
            elif r < 0.7:
                p = rnd.choice([0, 100, rnd.randrange(0, 101)])
                call("start", lambda p=p: tc.start_travel(p), p=p)
            elif r < 0.8:
                call("stop", tc.stop)
            elif r < 0.92:
                p = rnd.choice([0, 100, rnd.randrange(0, 101)])
                call("update", lambda p=p: tc.update_position(p), p=p)
            else:
                p = rnd.randrange(0, 101)
                call("set", lambda p=p: tc.set_position(p), p=p)
            if rnd.random() < 0.5:
                call("query", tc.current_position)
            if other is not None and rnd.random() < 0.4:
                try:
                    rnd.choice([lambda: other.start_travel(rnd.randrange(0, 101)), other.stop, lambda: other.update_position(rnd.randrange(0, 101)),
                                lambda: other.set_position(rnd.randrange(0, 101)), other.current_position, other.start_travel_up, other.start_travel_down])()
                except Exception:  # noqa: BLE001 - the other cover's business
                    pass
    finally:
        time.time = real
    return {"down": int(down * 1024), "up": int(up * 1024), "ev": ev}


def run(ck):
    ck.assume("clock readings are multiples of 1/1024 s (exactly representable); travel times are multiples of 1/4 s up to 60 s")
    ck.assume("the estimate may be rounded either way: any integer within one position unit of the exact value is accepted")
    tlc.mc(ck, "dev/TravelCalc_MC", "dev/TravelCalc_MC" if ck.tier == "quick" else "dev/TravelCalc_MC_thorough",
           require_actions=False, timeout=1500)
    n = 1000 if ck.tier == "quick" else 10000
    seeds = [ck.seed * 7919 + i for i in range(n)]
    traces = [run_hist(s, 25) for s in seeds]
    res = tlc.batch(ck, "dev/TravelCalc_Trace", traces)
    for idx, info in sorted(res.bad.items()):
        t = traces[idx]
        l = info if isinstance(info, int) else 0
        ev = t["ev"][l - 1] if 0 < l <= len(t["ev"]) else None
        prev = t["ev"][l - 2] if l >= 2 else None
        key = {"op": ev and ev["op"], "raised": ev and ev.get("exc", ev["raised"]),
               "equal_clock": bool(prev and prev["op"] != "tick" or (prev and prev["d"] == 0))}
        ck.violation({"case": key, "seed": seeds[idx]} if not ck.known_match({"case": key}) else {"case": key},
                     f"travel calculator trace (down={t['down']} up={t['up']} ticks) rejected at event {l}: {ev} after {prev}",
                     {"seed": seeds[idx], "nops": 25, "trace": t, "rejected_at": l})
    muts = []
    for i, t in enumerate(traces[:150]):
        if i in res.bad:
            continue
        for k, e in enumerate(t["ev"]):
            if e["op"] == "query" and e["conf"] == 0 and e["res"] not in (-1, e["target"], e["last"]) and abs(e["target"] - e["res"]) > 3:
                a = {"down": t["down"], "up": t["up"], "ev": [dict(x) for x in t["ev"]]}
                a["ev"][k]["res"] = e["res"] + (2 if e["target"] > e["res"] else -2)
                muts.append(a)
                b = {"down": t["down"], "up": t["up"], "ev": [dict(x) for x in t["ev"]]}
                b["ev"][k]["raised"] = 1
                muts.append(b)
                break
    r2 = tlc.batch(ck, "dev/TravelCalc_Trace", muts)
    if len(r2.bad) != len(muts) or not muts:
        raise MachineryError(f"binding self-test: {len(muts) - len(r2.bad)} of {len(muts)} corrupted traces accepted")
    moving = sum(1 for t in traces for e in t["ev"] if e["op"] == "query" and e["conf"] == 0 and e["res"] not in (-1, e["target"], e["last"]))
    ck.add(traces_validated_against_impl=res.accepted, trace_events=sum(len(t["ev"]) for t in traces),
           queries_mid_travel=moving, selftest_corrupted_rejected=len(muts))
    ck.sample({"down": traces[0]["down"], "up": traces[0]["up"], "ev": traces[0]["ev"][:12]})


def replay(ck, path):
    import json

    d = json.loads(open(path).read())["replay"]
    t = run_hist(d["seed"], d["nops"])
    res = tlc.batch(ck, "dev/TravelCalc_Trace", [t])
    l = res.bad.get(0)
    print("rejected at:", l, t["ev"][l - 1] if l else None)
    return 1 if res.bad else 0
