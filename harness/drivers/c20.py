"""C20 - KNX/IP frame parsing terminates and fails only with declared errors.

spec : spec/io/KnxIpFrame.tla (framing reference: header, announced length, when 'incomplete' is legitimate), judged by
       KnxIpFrame_Judge.tla
code : real KNXIPFrame.from_knx on structure-aware inputs: every body class of the corpus (DIB / SRP / CRI / CRD / HPAI
       variants, every ErrorCode, feature type, session status), every truncation, octet substitutions (0, 1, 2, 0xFF, +-1) at
       every position incl. nested length octets and enum codes, header variations, trailing octets, short random strings;
       each call under a 1 s watchdog (a parser that loops is recorded as 'hang').
"""
from __future__ import annotations

import random
import signal

from .. import tlc
from ..core import MachineryError
from ..knxip_corpus import extra_raw, frames


class _Hang(BaseException):
    pass


def _alarm(signum, frame):
    raise _Hang()


def parse(data: bytes):
    from xknx.exceptions import CouldNotParseKNXIP, IncompleteKNXIPFrame
    from xknx.knxip import KNXIPFrame

    signal.setitimer(signal.ITIMER_VIRTUAL, 2.0)   # CPU time of this process: a busy machine does not trip the watchdog
    try:
        _f, rest = KNXIPFrame.from_knx(data)
        return "frame", len(data) - len(rest)
    except IncompleteKNXIPFrame:
        return "incomplete", 0
    except CouldNotParseKNXIP:
        return "error", 0
    except _Hang:
        return "hang", 0
    except MemoryError:
        return "memory", 0
    except Exception as ex:  # noqa: BLE001 - undeclared: recorded as its own outcome class
        return "other:" + type(ex).__name__, 0
    finally:
        signal.setitimer(signal.ITIMER_VIRTUAL, 0)


def inputs(ck):
    rnd = random.Random(ck.seed)
    quick = ck.tier == "quick"
    out = []
    corpus = [(n, r) for n, r, _ in frames(rnd) if r is not None] + extra_raw()
    for name, raw in corpus:
        out.append((name, "valid", raw))
        out.append((name, "trailing", raw + b"\x06\x10"))
        out.append((name, "trailing", raw + raw))
        n = len(raw)
        for cut in range(n):
            if not quick or cut <= 8 or cut % 5 == 0 or cut == n - 1:
                out.append((name, "truncated", raw[:cut]))
        for pos in range(n):
            vals = {0, 1, 2, 0xFF, (raw[pos] + 1) % 256, (raw[pos] - 1) % 256}
            if pos < 6:
                vals |= {5, 6, 7, 0x10, 0x11, 8}
            if quick and pos >= 6 and n > 40 and rnd.random() < 0.6:
                continue
            for v in vals:
                if v != raw[pos]:
                    out.append((name, f"octet{pos if pos < 8 else 'N'}", raw[:pos] + bytes([v]) + raw[pos + 1:]))
        for tot in (0, 5, 6, 7, n - 1, n + 1, 0xFFFF):
            out.append((name, "total", raw[:4] + bytes([tot >> 8 & 0xFF, tot & 0xFF]) + raw[6:]))
    for svc in list(range(0x200, 0x212)) + list(range(0x300, 0x304)) + [0x310, 0x311, 0x420, 0x421, 0x422, 0x423, 0x424, 0x530, 0x531, 0x532,
                                                                         0x950, 0x951, 0x952, 0x953, 0x954, 0x955, 0x20B, 0x20C, 0, 0xFFFF, 0x1234]:
        for blen in (0, 1, 2, 3, 4, 8, 16, 40):
            for fill in (0, 1, 2, 8, 0xFF):
                out.append(("synthetic", f"svc{blen}", bytes([6, 0x10, svc >> 8, svc & 0xFF, 0, 6 + blen]) + bytes([fill]) * blen))
    for _ in range(500 if quick else 20000):
        ln = rnd.choice([0, 1, 2, 3, 5, 6, 7, 12, 30])
        b = bytes(rnd.randrange(256) for _ in range(ln))
        out.append(("random", "random", b))
        out.append(("random", "random-hdr", bytes([6, 0x10]) + b))
    return out


def run(ck):
    ck.assume("'incomplete' is judged at header level: legitimate iff the octets are a proper prefix of a well-formed header or fewer octets than the announced total length are present")
    old = signal.signal(signal.SIGVTALRM, _alarm)
    try:
        ins = inputs(ck)
        cases = []
        for name, kind, data in ins:
            out, consumed = parse(data)
            cases.append({"t": "parse", "n": len(data), "h": list(data[:6]), "out": out, "consumed": consumed, "src": name, "kind": kind,
                          "hex": data.hex() if len(data) <= 64 else data[:64].hex() + "..."})
    finally:
        signal.signal(signal.SIGVTALRM, old)
    send = [{k: v for k, v in c.items() if k not in ("hex",)} for c in cases]
    res = tlc.batch(ck, "io/KnxIpFrame_Judge", send, min_per_shard=4000)
    for idx in sorted(res.bad):
        c = cases[idx]
        ck.violation({"src": c["src"], "kind": c["kind"], "out": c["out"]},
                     f"KNXIPFrame.from_knx({c['hex']}) [{c['src']}, {c['kind']}, {c['n']} octets] -> {c['out']} (consumed {c['consumed']})",
                     {"hex": ins[idx][2].hex(), "case": c})
    # binding self-test
    muts = []
    for c in send[:3000]:
        if c["out"] == "frame" and len(muts) < 40:
            muts.append(dict(c, consumed=c["consumed"] - 1))
        if c["out"] == "error" and c["n"] >= 8 and c["h"][0] != 6 and len(muts) < 80:
            muts.append(dict(c, out="incomplete"))
    r2 = tlc.batch(ck, "io/KnxIpFrame_Judge", muts, min_per_shard=4000)
    if not muts or len(r2.bad) != len(muts):
        raise MachineryError(f"binding self-test: {len(muts) - len(r2.bad)} of {len(muts)} corrupted cases accepted")
    import collections

    ck.add(evaluations=len(cases), distinct_nontrivial=len({(c["src"], c["kind"], c["out"]) for c in cases}),
           outcomes=dict(collections.Counter(c["out"] for c in cases)), selftest_corrupted_rejected=len(muts),
           rule="distinct = (body class, mutation kind, outcome class)")
    ck.sample(cases[5])


def replay(ck, path):
    import json

    d = json.loads(open(path).read())["replay"]
    old = signal.signal(signal.SIGVTALRM, _alarm)
    try:
        data = bytes.fromhex(d["hex"])
        out, consumed = parse(data)
    finally:
        signal.signal(signal.SIGVTALRM, old)
    c = {"t": "parse", "n": len(data), "h": list(data[:6]), "out": out, "consumed": consumed, "src": "", "kind": ""}
    res = tlc.batch(ck, "io/KnxIpFrame_Judge", [c])
    print(c, "rejected" if res.bad else "accepted")
    return 1 if res.bad else 0
