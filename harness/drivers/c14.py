"""C14 - received link frames reach exactly the right consumer, once; sends complete only on a fresh confirmation.

spec : spec/cemi/CemiHandler.tla (dispatch table, confirmation rule), CemiHandler_MC (shared confirmation event, two senders;
       deviation 'event never cleared' must be refuted), CemiHandler_Trace.tla
code : real XKNX / CEMIHandler with a scripted interface under virtual time: frames of every message code (L_Data.ind / .con /
       .req, M_Prop*, unknown) x destination (group, broadcast, own, foreign individual) x transport PDU as real cEMI octets through
       handle_raw_cemi; 1-3 concurrent send_telegram calls whose interface call takes 0..2 s, succeeds or raises, and whose
       confirmation arrives before the call returns, after it, twice, or never.
"""
from __future__ import annotations

import asyncio
import itertools
import random
from unittest.mock import AsyncMock, Mock, patch

from .. import tlc
from ..core import MachineryError
from ..vloop import ms, virtual_world

CODES = {"ind": 0x29, "con": 0x2E, "req": 0x11}


def frame_bytes(code, tpci, own, n, variant=None):
    from xknx.cemi import CEMIFrame, CEMILData, CEMIMessageCode
    from xknx.dpt import DPTBinary
    from xknx.telegram import GroupAddress, IndividualAddress, Telegram, apci
    from xknx.telegram import tpci as T

    if code == "other":
        return bytes([0xFB, 0, 0x0B, 1, 0x34, 0x10, 0x01, 0x01])          # M_PropRead.con
    if code == "unknown":
        return bytes([0x99, 0, 1, 2, 3])
    if tpci == "group":
        tg = Telegram(GroupAddress("1/2/3"), payload=apci.GroupValueWrite(DPTBinary(n % 2)))
    elif tpci == "taggroup":
        tg = Telegram(GroupAddress("1/2/3"), tpci=T.TDataTagGroup(), payload=apci.GroupValueWrite(DPTBinary(1)))
    elif tpci == "broadcast":
        tg = Telegram(GroupAddress(0), tpci=T.TDataBroadcast(), payload=apci.IndividualAddressRead())
    else:
        dst = IndividualAddress("1.1.1") if own else IndividualAddress("1.1.77")
        if not own and variant in ("dst0", "dstff"):      # foreign destinations at the ends of the address space: 0.0.0 is no broadcast, 15.15.255 neither
            dst = IndividualAddress(0 if variant == "dst0" else 0xFFFF)
        tg = Telegram(dst, tpci=[T.TConnect(), T.TDataIndividual(), T.TDisconnect()][n % 3],
                      payload=apci.DeviceDescriptorRead(descriptor=0) if n % 3 == 1 else None)
    cm = {"ind": CEMIMessageCode.L_DATA_IND, "con": CEMIMessageCode.L_DATA_CON, "req": CEMIMessageCode.L_DATA_REQ}[code]
    data = CEMILData.init_from_telegram(tg, src_addr=IndividualAddress("1.1.9"))
    # legal but unusual control fields: a negative confirmation (error bit), low priority with repetition and acknowledge request, hop count 0
    if variant == "neg":
        data.flags.confirm_error = True
    elif variant == "low":
        from xknx.cemi import CEMIPriority  # noqa: PLC0415
        data.flags.priority, data.flags.repeat_on_error, data.flags.acknowledge_request = CEMIPriority.LOW, False, True
    elif variant == "hop0":
        data.flags.hop_count = 0
    raw = CEMIFrame(code=cm, data=data).to_knx()
    if variant in ("ai1", "ai2"):      # additional information in front of the service information (a timestamping interface, an RF coupler): same frame
        info = bytes([0x04, 0x02, 0x12, 0x34]) if variant == "ai1" else bytes([0x06, 0x04, 1, 2, 3, 4, 0x02, 0x08, 0, 1, 2, 3, 4, 5, 6, 7])
        raw = bytes([raw[0], len(info)]) + info + raw[2:]
    return raw


def run_hist(script, seed=0, eager=False):
    """script: list of (t_ms, action): ("rx", code, tpci, own) | ("send", id, iface_ms, outcome, con_at)
       outcome: ok | raise;  con_at: list of offsets (ms, relative to the hand-over) at which an L_Data.con arrives"""
    from xknx import XKNX
    from xknx.dpt import DPTArray
    from xknx.exceptions import CommunicationError, ConfirmationError
    from xknx.telegram import GroupAddress, IndividualAddress, Telegram
    from xknx.telegram.apci import GroupValueWrite

    ev = []
    with virtual_world(seed) as loop:
        now = lambda: ms(loop.time())

        async def main():
            if eager:       # tasks that run their first step inside create_task() (Python 3.12 eager_task_factory, what Home Assistant uses)
                loop.set_task_factory(asyncio.eager_task_factory)
            m = Mock()
            m.start = AsyncMock()
            m.stop = AsyncMock()
            with patch("xknx.xknx.knx_interface_factory", return_value=m):
                xknx = XKNX()
            xknx.current_address = IndividualAddress("1.1.1")
            xknx.task_registry.start()
            mgmt = []
            from xknx.management.management import Management

            orig_process = Management.process

            def counted(self, tg):
                mgmt.append(1)
                return orig_process(self, tg)

            patcher = patch.object(Management, "process", counted)
            patcher.start()
            plan = {}

            def rx(code, tpci, own, n=0, variant=None):
                raw = frame_bytes(code, tpci, own, n, variant)
                q0, m0 = xknx.telegrams.qsize(), len(mgmt)
                raised = 0
                try:
                    xknx.cemi_handler.handle_raw_cemi(raw)
                except Exception:  # noqa: BLE001
                    raised = 1
                ev.append({"ev": "rx" if not raised else "rx_raised", "code": "other" if code == "unknown" else code, "tpci": tpci, "own": own,
                           "queued": xknx.telegrams.qsize() - q0, "mgmt": len(mgmt) - m0, "t": now()})

            async def send_cemi(cemi):
                i = cemi.data.payload.value.value[0]
                iface_ms, outcome, con_at = plan[i]
                ev.append({"ev": "handed", "id": i, "t": now()})
                for off in con_at:
                    loop.call_later(off / 1000, loop.inject, rx, "con", "group", 0, i, "ai1" if i % 2 == 0 else None)   # every second sender's confirmations carry additional information
                if iface_ms:
                    await asyncio.sleep(iface_ms / 1000)
                if outcome == "raise":
                    ev.append({"ev": "iface_ret", "id": i, "ok": 0, "t": now()})
                    raise CommunicationError("interface down")
                ev.append({"ev": "iface_ret", "id": i, "ok": 1, "t": now()})

            m.send_cemi = send_cemi

            async def sender(i):
                ev.append({"ev": "call", "id": i, "t": now()})
                try:
                    await xknx.cemi_handler.send_telegram(Telegram(GroupAddress("1/1/1"), payload=GroupValueWrite(DPTArray((i,)))))
                    ev.append({"ev": "ret", "id": i, "out": "ok", "t": now()})
                except ConfirmationError:
                    ev.append({"ev": "ret", "id": i, "out": "conf", "t": now()})
                except CommunicationError:
                    ev.append({"ev": "ret", "id": i, "out": "send", "t": now()})
                except (Exception, asyncio.CancelledError) as ex:  # noqa: BLE001
                    ev.append({"ev": "ret", "id": i, "out": "other:" + type(ex).__name__, "t": now()})

            tasks = []
            n = 0
            for t, act in sorted(script, key=lambda x: x[0]):
                n += 1
                if act[0] == "rx":
                    loop.call_at(t / 1000, loop.inject, rx, act[1], act[2], act[3], n, act[4] if len(act) > 4 else None)
                elif act[0] in ("consend", "sendcon"):
                    # a confirmation and the start of a send in one callback of the loop, in either order: the sender starts before the
                    # task woken by the confirmation has run
                    plan[act[1]] = (act[2], act[3], act[4])

                    def both(i=act[1], first=act[0], n=n):
                        if first == "consend":
                            rx("con", "group", 0, n)
                        tasks.append(loop.create_task(sender(i)))
                        if first == "sendcon":
                            rx("con", "group", 0, n)
                    loop.call_at(t / 1000, both)
                else:
                    plan[act[1]] = (act[2], act[3], act[4])
                    loop.call_at(t / 1000, lambda i=act[1]: tasks.append(loop.create_task(sender(i))))
            await asyncio.sleep(max([t for t, _ in script] + [0]) / 1000 + 12)
            ev.append({"ev": "end", "t": now()})
            for tk in tasks:
                tk.cancel()
            xknx.task_registry.stop()
            patcher.stop()

        loop.run_until_complete(main())
    return ev


def plans(ck):
    rnd = random.Random(ck.seed)
    out = []
    # receive side: every frame kind, alone
    for code, tpci, own in itertools.product(("ind", "con", "req", "other", "unknown"), ("group", "taggroup", "broadcast", "p2p"), (0, 1)):
        out.append([(0, ("rx", code, tpci, own)), (10, ("rx", code, tpci, own)), (20, ("rx", "ind", "group", 0))])
    for code, tpci, own, var in itertools.product(("ind", "con", "req"), ("group", "taggroup", "broadcast", "p2p"), (0, 1), ("neg", "low", "hop0", "dst0", "dstff", "ai1", "ai2")):
        out.append([(0, ("rx", code, tpci, own, var)), (10, ("rx", code, tpci, own, var)), (20, ("rx", "ind", "group", 0))])
    # send side: one sender, confirmation before / at / after the interface call returns, twice, never; interface slow or raising
    cons = ([], [0], [1], [500], [2999], [3001], [0, 0], [100, 200], [4000])
    for iface, outcome, con_at in itertools.product((0, 700, 2000), ("ok", "raise"), cons):
        out.append([(0, ("send", 1, iface, outcome, con_at))])
        out.append([(0, ("rx", "con", "group", 0)), (5, ("send", 1, iface, outcome, con_at))])      # a stale confirmation right before
    # two / three concurrent senders
    for (c1, c2), gap in itertools.product(itertools.product(cons[:7], repeat=2), (0, 1, 300)):
        if rnd.random() < (0.5 if ck.tier == "quick" else 1.0):
            out.append([(0, ("send", 1, rnd.choice([0, 700]), "ok", c1)), (gap, ("send", 2, rnd.choice([0, 700]), "ok", c2))])
    # a confirmation for the waiting send and the start of the next send in the same callback
    for at, kind, c2, iface in itertools.product((0, 1, 500, 2999), ("consend", "sendcon"), ([], [0], [5], [3100]), (0, 300)):
        out.append([(0, ("send", 1, 0, "ok", [])), (at, (kind, 2, iface, "ok", c2))])
        out.append([(0, ("send", 1, 0, "ok", [at])), (at, (kind, 2, iface, "ok", c2))])
    for _ in range(200 if ck.tier == "quick" else 4000):
        s, t = [], 0
        for i in range(rnd.randrange(2, 6)):
            t += rnd.choice([0, 0, 1, 50, 800, 3500])
            if rnd.random() < 0.55:
                s.append((t, ("send", i + 1, rnd.choice([0, 0, 300, 2500]), rnd.choice(["ok", "ok", "ok", "raise"]),
                              rnd.choice([[], [0], [5], [400], [2990], [3100], [0, 1], [3500]]))))
            else:
                s.append((t, ("rx", rnd.choice(["ind", "con", "con", "req", "other"]), rnd.choice(["group", "taggroup", "broadcast", "p2p"]), rnd.randrange(2),
                              rnd.choice([None, None, "neg", "low", "hop0", "dst0", "dstff", "ai1", "ai2"]))))
        out.append(s)
    return out


def run(ck):
    ck.assume("a send may fail although 'its' confirmation arrived (a concurrent sender cleared the shared event): the property only forbids completing without a confirmation that arrived after the hand-over")
    tlc.mc(ck, "cemi/CemiHandler_MC", require_actions=False)
    dev = tlc.mc(ck, "cemi/CemiHandler_MC", cfg="cemi/CemiHandler_Dev", expect_error=True, record=False, coverage=False)
    ck.add(deviation_model_counterexample="FreshConfirmationOnly" in dev.out)
    ps0 = plans(ck)
    ps = ps0 + ps0
    eager = [False] * len(ps0) + [True] * len(ps0)
    traces = [run_hist(p, ck.seed, eager=e_) for p, e_ in zip(ps, eager)]
    res = tlc.batch(ck, "cemi/CemiHandler_Trace", traces, min_per_shard=60)
    for idx, info in sorted(res.bad.items()):
        t = traces[idx]
        l = info if isinstance(info, int) else 0
        e = t[l - 1] if 0 < l <= len(t) else None
        ck.violation({"script": [[x[0], list(x[1])] for x in ps[idx]], "rejected": {k: v for k, v in (e or {}).items() if k != "t"}, "eager": eager[idx]},
                     f"cEMI handler trace rejected at event {l}: {e}; before {t[max(0, l - 6):l - 1]}; script {ps[idx]}" + (" (eager tasks)" if eager[idx] else ""),
                     {"script": ps[idx], "trace": t, "rejected_at": l, "eager": eager[idx]})
    muts = []
    for i, t in enumerate(traces):
        if i in res.bad or len(muts) >= 160:
            continue
        oks = [k for k, e in enumerate(t) if e["ev"] == "ret" and e["out"] == "ok"]
        if oks:
            h = [k for k, e in enumerate(t) if e["ev"] == "handed" and e["id"] == t[oks[0]]["id"]][0]
            cons = [k for k in range(h, oks[0]) if t[k]["ev"] == "rx" and t[k]["code"] == "con"]
            if len(cons) == 1 and not any(e["ev"] == "handed" for e in t[h + 1:oks[0]]):
                muts.append([e for k, e in enumerate(t) if k != cons[0]])                    # completed without a confirmation
        rx = [k for k, e in enumerate(t) if e["ev"] == "rx" and e["code"] == "ind" and e["tpci"] == "group"]
        if rx:
            a = [dict(e) for e in t]
            a[rx[0]]["queued"] = 2                                                            # delivered twice
            muts.append(a)
    r2 = tlc.batch(ck, "cemi/CemiHandler_Trace", muts, min_per_shard=60)
    if not muts or len(r2.bad) != len(muts):
        raise MachineryError(f"binding self-test: {len(muts) - len(r2.bad)} of {len(muts)} corrupted traces accepted")
    ck.add(traces_validated_against_impl=res.accepted, trace_events=sum(len(t) for t in traces), scripts=len(ps0), scheduling_modes=2,
           sends=sum(1 for t in traces for e in t if e["ev"] == "call"), frames=sum(1 for t in traces for e in t if e["ev"] == "rx"),
           selftest_corrupted_rejected=len(muts))
    ck.sample({"script": ps[45], "trace": traces[45]})


def replay(ck, path):
    import json

    d = json.loads(open(path).read())["replay"]
    t = run_hist([(x[0], tuple(x[1])) for x in d["script"]], ck.seed, eager=bool(d.get("eager")))
    res = tlc.batch(ck, "cemi/CemiHandler_Trace", [t])
    print("trace:", t, "\nrejected at:", res.bad.get(0))
    return 1 if res.bad else 0
