"""C07 / C08 / C09 / C10 - datapoint types: decoding is total, decoded values re-encode with the same meaning, numeric types
honour their declared range and resolution, complex / enum values survive their JSON form.

spec : spec/codec/Dpt.tla (laws, reference decoders of the fixed-point and KNX float16 wire formats), Dpt_Judge.tla
code : every concrete class of DPTBase.dpt_class_tree() through the real from_knx / to_knx; for C07 also a started XKNX whose
       telegram consumer decodes the configured group addresses.
"""
from __future__ import annotations

import asyncio
import json
import math
import random
import struct
from fractions import Fraction

from .. import tlc
from ..core import MachineryError

EDGE = (0, 1, 2, 0x3F, 0x40, 0x7F, 0x80, 0x81, 0xC0, 0xFE, 0xFF)


def classes():
    from xknx.dpt import DPTBase

    return sorted(DPTBase.dpt_class_tree(), key=lambda c: c.__name__)


def payloads(cls, tier, rnd, accepted_only=False):
    """the payload plan of C07 / C08 for one class"""
    from xknx.dpt import DPTArray, DPTBinary

    quick = tier == "quick"
    L = cls.payload_length if cls.payload_type is DPTArray else None
    if not accepted_only or L is None:
        for v in range(64):
            yield DPTBinary(v)
    if not accepted_only or L == 0:
        yield DPTArray(())
    if not accepted_only or L == 1:
        for a in range(256):
            yield DPTArray((a,))
    if not accepted_only or L == 2:
        for v in range(65536):
            if not quick or v % 61 == 0 or (v & 0xFF) in EDGE and (v >> 8) in EDGE or v % 2048 in (0, 1, 2047) :
                yield DPTArray((v >> 8, v & 0xFF))
    lengths = [L] if accepted_only else sorted(set(range(3, 17)) | ({L - 1, L, L + 1} if L else set()) | {30, 254})
    for n in lengths:
        if n is None or n < 3:
            continue
        for fill in (0, 0xFF, 0x80, 0x7F, 0x20, 0x41):
            yield DPTArray((fill,) * n)
        if n == L:
            for pos in range(n):                       # every octet value in every position, the other octets zero / 0x41 / random
                for a in range(256):
                    if quick and n > 8 and a not in EDGE and a % 8:
                        continue
                    yield DPTArray(tuple(a if i == pos else 0 for i in range(n)))
                    yield DPTArray(tuple(a if i == pos else 0x41 for i in range(n)))
                    yield DPTArray(tuple(a if i == pos else rnd.randrange(256) for i in range(n)))
            for _ in range(300 if quick else 6000):
                yield DPTArray(tuple(rnd.choice(EDGE) if rnd.random() < 0.3 else rnd.randrange(256) for _ in range(n)))
            # structured types (dates, times, colours, tariffs ...): fields interact - every three positions take boundary values together,
            # on a payload the type accepts (so that the other fields are in range) and on zeros
            from xknx.dpt import DPTComplex  # noqa: PLC0415

            if issubclass(cls, DPTComplex) and 3 <= n <= 8:
                import itertools  # noqa: PLC0415

                tri = (0, 2, 24, 29, 31, 0x10, 0x80, 0xFF) if quick else (0, 1, 2, 12, 23, 24, 28, 29, 30, 31, 59, 60, 0x08, 0x10, 0x18, 0x80, 0xFF)
                bases = [(0,) * n]
                for _ in range(4000):
                    cand = tuple(rnd.choice((1, 2, 3, 5, 10, 12, 20, 23, 28, 40, 59, 100, 124)) for _ in range(n))
                    try:
                        cls.from_knx(DPTArray(cand))
                        bases.append(cand)
                        break
                    except Exception:  # noqa: BLE001
                        continue
                for base in bases:
                    for pos in itertools.combinations(range(n), 3):
                        for vals in itertools.product(tri, repeat=3):
                            b = list(base)
                            for i_, v_ in zip(pos, vals):
                                b[i_] = v_
                            yield DPTArray(tuple(b))
        else:
            for _ in range(3 if quick else 20):
                yield DPTArray(tuple(rnd.randrange(256) for _ in range(n)))


def decode(cls, p):
    from xknx.exceptions import ConversionError, CouldNotParseTelegram

    try:
        return "value", cls.from_knx(p)
    except CouldNotParseTelegram:
        return "parse", None
    except ConversionError:
        return "conv", None
    except Exception as ex:  # noqa: BLE001
        return "other:" + type(ex).__name__, None


def pdesc(p):
    from xknx.dpt import DPTBinary

    return f"DPTBinary({p.value})" if isinstance(p, DPTBinary) else f"DPTArray({bytes(p.value)[:20].hex()}{'..' if len(p.value) > 20 else ''}, {len(p.value)} octets)"


def judge(ck, recs, examples, what, min_per_shard=4000):
    """recs: list of dict records; examples[i]: text.  Reports every rejected record (deduplicated by the caller)."""
    res = tlc.batch(ck, "codec/Dpt_Judge", recs, min_per_shard=min_per_shard)
    for idx in sorted(res.bad):
        r = recs[idx]
        key = {k: v for k, v in r.items() if k in ("t", "cls", "fam", "out", "same", "dec", "decok", "zone", "anchor", "kind")}
        if r["t"] == "num":
            key["case"] = examples[idx][:120]
        ck.violation(key, f"{what}: {examples[idx]} -> {json.dumps({k: v for k, v in r.items() if k not in ('t', 'cls')})[:300]}", {"record": r, "example": examples[idx]})
    return res


def selftest(ck, muts):
    r2 = tlc.batch(ck, "codec/Dpt_Judge", muts)
    if not muts or len(r2.bad) != len(muts):
        raise MachineryError(f"binding self-test: {len(muts) - len(r2.bad)} of {len(muts)} corrupted cases accepted")
    return len(muts)


# ------------------------------------------------------------------------------------------------ C07
def consumer_sessions(ck, picks):
    """a started XKNX decodes each picked (class, payload) on a configured group address; afterwards the consumer must
    still process a probe telegram"""
    from xknx.exceptions import ConversionError
    from xknx.telegram import GroupAddress, IndividualAddress, Telegram, TelegramDirection
    from xknx.telegram.apci import GroupValueResponse, GroupValueWrite

    from ..fx import make_xknx, start_xknx, stop_xknx
    from ..vloop import virtual_world

    out = []
    with virtual_world(ck.seed) as loop:
        async def main():
            xknx, _sent = make_xknx(loop)
            seen = []
            xknx.telegram_queue.register_telegram_received_cb(lambda t: seen.append(t))
            await start_xknx(xknx)
            for k, (cls, p) in enumerate(picks):
                ga = GroupAddress(1 + k % 60000)
                xknx.group_address_dpt._ga_dpts[ga.raw] = cls
                n0 = len(seen)
                try:
                    pls = (GroupValueWrite(p), GroupValueResponse(p))
                except ConversionError:
                    continue            # not a payload a group telegram can carry (empty array, more than 253 octets)
                for pl in pls:
                    xknx.telegrams.put_nowait(Telegram(destination_address=ga, direction=TelegramDirection.INCOMING, payload=pl,
                                                       source_address=IndividualAddress(0x1105)))
                for _ in range(6):
                    await asyncio.sleep(0)
                alive = not any(t.done() for t in asyncio.all_tasks() if "_telegram_consumer" in repr(t.get_coro()))
                tasks = [t for t in asyncio.all_tasks() if "_telegram_consumer" in repr(t.get_coro())]
                out.append({"t": "consumer", "cls": cls.__name__, "alive": 1 if (alive and tasks) else 0, "sent": 2, "processed": len(seen) - n0})
                if not tasks:
                    break
            await stop_xknx(xknx)

        try:
            loop.run_until_complete(asyncio.wait_for(main(), 3600))
        except Exception as ex:  # noqa: BLE001 - the consumer died: stop() raises what killed it
            out.append({"t": "consumer", "cls": "-", "alive": 0, "sent": 2, "processed": 0, "why": type(ex).__name__})
    return out


def run07(ck):
    rnd = random.Random(ck.seed)
    agg, n = {}, 0
    picks = {}
    for cls in classes():
        for p in payloads(cls, ck.tier, rnd):
            out, _v = decode(cls, p)
            n += 1
            kind = "bin" if type(p).__name__ == "DPTBinary" else "arr"
            k = (cls.__name__, kind, len(p.value) if kind == "arr" else 0, out)
            if k not in agg:
                agg[k] = [0, pdesc(p)]
                picks[k] = (cls, p)
            agg[k][0] += 1
    recs = [{"t": "dec", "cls": k[0], "kind": k[1], "n": k[2], "out": k[3], "count": v[0]} for k, v in agg.items()]
    ex = [f"{k[0]}.from_knx({v[1]})" for k, v in agg.items()]
    cons = consumer_sessions(ck, list(picks.values()))
    recs += cons
    ex += [f"telegram consumer after a payload for {c['cls']}" for c in cons]
    judge(ck, recs, ex, "datapoint decoding")
    muts = [dict(r, out="other:IndexError") for r in recs[:15] if r["t"] == "dec"] + [dict(c, alive=0) for c in cons[:5]] + [dict(c, processed=1) for c in cons[:5]]
    ck.add(evaluations=n, classes=len(classes()), distinct_nontrivial=len(recs), consumer_sessions=len(cons),
           outcomes={o: sum(v[0] for k, v in agg.items() if k[3] == o) for o in {k[3] for k in agg}},
           selftest_corrupted_rejected=selftest(ck, muts), rule="distinct = (class, payload kind, length, outcome)")
    ck.sample({"record": recs[10], "example": ex[10]})


# ------------------------------------------------------------------------------------------------ C08
def same_value(a, b):
    if isinstance(a, float) and isinstance(b, float) and math.isnan(a) and math.isnan(b):
        return True
    return type(a) is type(b) and a == b or (isinstance(a, (int, float)) and isinstance(b, (int, float)) and not isinstance(a, bool) and a == b)


def family(cls):
    enc = getattr(cls, "_encoding", None)
    if cls.__name__ in ("DPTString", "DPTCharacter") or enc == "ascii":
        return "text-ascii"
    if enc is not None:
        return "text-other"
    return "other"


def run08(ck):
    from xknx.exceptions import ConversionError

    rnd = random.Random(ck.seed)
    agg, n = {}, 0
    for cls in classes():
        fam = family(cls)
        for p in payloads(cls, ck.tier, rnd, accepted_only=True):
            out, v = decode(cls, p)
            if out != "value":
                continue
            n += 1
            r = {"t": "re", "cls": cls.__name__, "fam": fam, "out": "ok", "same": 0, "lendiff": 0, "hi": 0, "vdiff": []}
            try:
                p2 = cls.to_knx(v)
            except ConversionError:
                r["out"] = "encrefused"
            except Exception as ex:  # noqa: BLE001
                r["out"] = "encraised:" + type(ex).__name__
            else:
                o2, v2 = decode(cls, p2)
                if o2 != "value":
                    r["out"] = "decrefused:" + o2
                else:
                    r["same"] = 1 if same_value(v, v2) else 0
                    if isinstance(v, str) and isinstance(v2, str) and not r["same"]:
                        r["lendiff"] = len(v2) - len(v)
                        r["hi"] = sum(1 for b in p.value if b >= 0x80)
                        r["vdiff"] = [[ord(a), ord(b)] for a, b in zip(v, v2) if a != b][:14]
            k = json.dumps(r, sort_keys=True)
            if k not in agg:
                agg[k] = [r, 0, f"{cls.__name__}: {pdesc(p)} decodes to {v!r:.80}"]
            agg[k][1] += 1
    recs = [dict(v[0], count=v[1]) for v in agg.values()]
    ex = [v[2] for v in agg.values()]
    judge(ck, recs, ex, "decode / encode / decode")
    muts = [dict(r, same=0) for r in recs if r["same"] == 1][:15] + [dict(r, out="encrefused") for r in recs[:10]] + \
           [dict(r, vdiff=[[65, 66]], same=0, hi=3, fam="text-ascii") for r in recs[:3]] + [dict(r, vdiff=[[65533, 63]], same=0, hi=0, fam="text-ascii") for r in recs[:3]]
    ck.add(evaluations=n, classes=len(classes()), distinct_nontrivial=len(recs), replaced_text_cases=sum(v[1] for v in agg.values() if v[0]["vdiff"]),
           selftest_corrupted_rejected=selftest(ck, muts), rule="distinct = (class, outcome, differences)")
    ck.sample({"record": recs[0], "example": ex[0]})


# ------------------------------------------------------------------------------------------------ C09
def numeric_classes():
    from xknx.dpt import DPTNumeric

    return [c for c in classes() if issubclass(c, DPTNumeric)]


def num_family(cls):
    m = cls.dpt_main_number
    if cls.__name__ in ("DPTScaling", "DPTAngle") or any(b.__name__ == "DPTScaling" for b in cls.__mro__):
        return "scaled8"
    if m == 9:
        return "f16"
    if m == 14:
        return "f32"
    if cls.payload_length >= 4:
        return "big"
    return "fix"


# KNX 03/07/02: DPT 17.001 scene number - the wire carries 0..63, xknx (as ETS) presents 1..64
WIRE_OFFSET = {"DPTSceneNumber": 1}


def to_py(fr: Fraction):
    return int(fr) if fr.denominator == 1 else float(fr)


def encode(cls, value):
    from xknx.exceptions import ConversionError

    try:
        return "ok", cls.to_knx(value)
    except ConversionError:
        return "conv", None
    except Exception as ex:  # noqa: BLE001
        return "other:" + type(ex).__name__, None


def snap(x: Fraction):
    """an implementation value (float) as an integer number of units, when it is one up to float noise"""
    r = round(x)
    return r if abs(x - r) < Fraction(1, 10**6) else None


def num_case_small(cls, fam, U, res, v_u, eps):
    """fix / scaled8 / f16: value v_u units (+ eps * unit/1000 .. below the unit: the float given to the library is displaced by 1e-3 unit)"""
    from xknx.dpt import DPTArray

    unit = res / U
    exact = v_u * unit
    given = exact + eps * unit / 1000 if eps else exact
    value = to_py(given)
    lo, hi = Fraction(str(cls.value_min)) / unit, Fraction(str(cls.value_max)) / unit
    r = {"t": "num", "cls": cls.__name__, "fam": fam, "U": U, "v": v_u, "eps": eps, "lo": int(lo), "hi": int(hi), "out": "conv", "raw": 0,
         "plen": 0, "dlen": cls.payload_length, "dec": "na", "decok": 0, "decv": 0,
         "woff": WIRE_OFFSET.get(cls.__name__, 0)}
    if lo.denominator != 1 or hi.denominator != 1:
        raise MachineryError(f"{cls.__name__}: declared range is not a whole number of units")
    out, p = encode(cls, value)
    r["out"] = out
    if out == "ok":
        if not isinstance(p, DPTArray):
            r["out"] = "wrongtype"
            return r, value
        b = bytes(p.value)
        r["plen"] = len(b)
        signed = fam == "fix" and cls.value_min < 0
        r["raw"] = int.from_bytes(b[:2], "big", signed=signed) if len(b) <= 2 else 0
        d, v2 = decode(cls, p)
        r["dec"] = "ok" if d == "value" else "refused"
        if d == "value":
            s = snap(Fraction(v2) / unit) if isinstance(v2, (int, float)) and math.isfinite(v2) else None
            if s is not None and abs(s) < 2**31:
                r["decv"], r["decok"] = s, 1
    return r, value


def plan_small(cls, fam, tier, rnd):
    """(U, v_u, eps) cases"""
    quick = tier == "quick"
    res = Fraction(str(cls.resolution))
    U = 2 if fam == "f16" else 1000
    cap = 2**31 // (4 if fam == "fix" else 600)
    while fam != "f16" and U > 2 and max(abs(Fraction(str(cls.value_min))), abs(Fraction(str(cls.value_max)))) / res * U * 2 >= cap:
        U = {1000: 100, 100: 10, 10: 2}[U]
    lo, hi = Fraction(str(cls.value_min)) / res * U, Fraction(str(cls.value_max)) / res * U
    lo, hi = int(lo), int(hi)
    out = set()
    if fam == "f16":
        for e in range(16):
            for m in (-2048, -2047, -2046, -1025, -1024, -1023, -2, -1, 0, 1, 2, 1023, 1024, 1025, 2046, 2047):
                h = m * (1 << e) * U
                for d in (0, 1, -1, (1 << e) * U // 2, -(1 << e) * U // 2, (1 << e) * U, -(1 << e) * U):
                    for eps in (0, 1, -1):
                        out.add((h + d, eps))
        for b in (lo, hi):
            for d in (0, 1, -1, 2, -2, 200, -200):
                for eps in (0, 1, -1):
                    out.add((b + d, eps))
        step = 1 if not quick and cls.__name__ == "DPT2ByteFloat" else (997 if not quick else 40009)
        for i in range(lo // (100 * U), hi // (100 * U) + 1, step):      # whole numbers across the declared range
            out.add((i * 100 * U, 0))
        for _ in range(300 if quick else 20000):
            e = rnd.randrange(16)
            out.add((rnd.randrange(-2048, 2048) * (1 << e) * U + rnd.randrange(-(1 << e) * U, (1 << e) * U + 1), rnd.choice((0, 0, 1, -1))))
        cap = 67108864 * U + 400
        out = {(v, e) for v, e in out if abs(v) <= cap}
    else:
        n = (hi - lo) // U                                    # number of resolution steps across the declared range
        ks = set(range(0, n + 1)) if (not quick or n <= 300) else set(range(0, n + 1, 53)) | {0, 1, 2, n - 2, n - 1, n, n // 2, n // 2 + 1}
        for k in ks:
            out.add((lo + k * U, 0))                           # every representable value of the declared range
        sub = ks if n <= 300 else set(rnd.sample(sorted(ks), min(len(ks), 400 if quick else 20000)))
        for k in sub:
            for d, eps in ((U // 2, 0), (0, -1), (0, 1), (U // 2, -1), (U // 2, 1), (U - 1, 0), (1, 0), (U // 4, 0), (3 * U // 4, 0)):
                if k < n or d == 0:
                    out.add((lo + k * U + d, eps))
        for d in (1, U // 2, U, 2 * U, 10 * U, 1000 * U, (hi - lo) // 2, hi - lo):      # beyond the declared range
            for eps in (0, 1, -1):
                out.add((lo - d, eps))
                out.add((hi + d, eps))
        out |= {(lo, -1), (hi, 1), (lo, 1), (hi, -1)}
        if res != 1:                                           # whole numbers of the value unit, too
            one = U / res
            if one.denominator == 1:
                lo_i, hi_i = math.ceil(Fraction(lo) / one), math.floor(Fraction(hi) / one)
                for i in range(lo_i, hi_i + 1, 1 if (hi_i - lo_i) < 3000 or not quick else 37):
                    out.add((int(i * one), 0))
        out = {(v, e) for v, e in out if abs(v) < cap}
    return U, res, sorted(out)


def ulp32_ok(v, v2):
    """|v2 - v| is less than the spacing of binary32 numbers at v"""
    try:
        a = struct.unpack(">f", struct.pack(">f", v))[0]
    except (OverflowError, struct.error):
        return False
    if a == v2 or v == v2:
        return True
    if not math.isfinite(a) or not math.isfinite(v2):
        return False
    bits = struct.unpack(">I", struct.pack(">f", a))[0]
    nb = [struct.unpack(">f", struct.pack(">I", (bits + d) & 0xFFFFFFFF))[0] for d in (1, -1)]
    ulp = max(abs(x - a) for x in nb if math.isfinite(x))
    # DPT 14 decodes to seven significant digits (as the ETS group monitor shows them): one step is the coarser of the two grids
    unit7 = Fraction(10) ** (math.ceil(math.log10(abs(v))) - 7) if v else Fraction(0)
    return abs(Fraction(v2) - Fraction(v)) < max(Fraction(ulp), unit7)


def run09(ck):
    from xknx.dpt import DPTArray

    rnd = random.Random(ck.seed)
    recs, ex = [], []
    per_family = {}
    FAR = [math.inf, -math.inf, math.nan, 1e300, -1e300, 1.7e308, -1.7e308, 1e39, -1e39, 10**400, -(10**400), 2**70, -(2**70)]
    for cls in numeric_classes():
        fam = num_family(cls)
        per_family[fam] = per_family.get(fam, 0) + 1
        for value in FAR if fam != "f32" else ():      # far beyond the declared range (4-octet floats have their own clauses): the conversion error and nothing else
            out, _p = encode(cls, value)
            recs.append({"t": "far", "cls": cls.__name__, "out": out})
            ex.append(f"{cls.__name__}.to_knx({value!r:.30})")
        if fam in ("fix", "scaled8", "f16"):
            U, res, plan = plan_small(cls, fam, ck.tier, rnd)
            for v_u, eps in plan:
                r, value = num_case_small(cls, fam, U, res, v_u, eps)
                recs.append(r)
                ex.append(f"{cls.__name__}.to_knx({value!r})")
        elif fam == "big":
            lo, hi = int(cls.value_min), int(cls.value_max)
            signed = lo < 0
            cases = [("min", o, h) for o in (-1000, -2, -1, 0, 1, 2, 1000) for h in (0, 1)] + [("max", o, h) for o in (-1000, -2, -1, 0, 1, 2, 1000) for h in (0, 1)]
            mids = [lo + (hi - lo) // 2, lo + (hi - lo) // 3, 0 if lo <= 0 <= hi else lo + 5, 1 if lo <= 1 <= hi else lo + 6, -1 if lo <= -1 <= hi else lo + 7,
                    255, 256, 65535, 65536, 2**24, 2**31 - 1] + [rnd.randrange(lo, hi + 1) for _ in range(30 if ck.tier == "quick" else 3000)]
            mids += [2**31, 2**32 - 1, -2**31] if cls.payload_length == 8 else []
            cases += [("in", m, h) for m in mids if lo + 1000 < m < hi - 1000 for h in (0, 1)]
            for anchor, off, half in cases:
                base = lo + off if anchor == "min" else hi + off if anchor == "max" else off
                if half and abs(base) >= 2**52:
                    continue                                 # x + 1/2 is not a double there
                value = base + 0.5 if half else base
                r = {"t": "num", "cls": cls.__name__, "fam": "big", "anchor": anchor, "off": off if anchor != "in" else 0, "half": half, "out": "conv",
                     "rawoff": 0, "plen": 0, "dlen": cls.payload_length, "dec": "na", "decok": 0}
                out, p = encode(cls, value)
                r["out"] = out
                if not half:
                    out_s, p_s = encode(cls, str(value))
                    recs.append({"t": "str", "cls": cls.__name__, "same": 1 if (out_s, p_s) == (out, p) else 0})
                    ex.append(f"{cls.__name__}.to_knx({str(value)!r}) -> {out_s} {p_s} but to_knx({value}) -> {out} {p}"[:300])
                if out == "ok" and isinstance(p, DPTArray):
                    b = bytes(p.value)
                    r["plen"] = len(b)
                    ro = int.from_bytes(b, "big", signed=signed) - base
                    r["rawoff"] = ro if abs(ro) < 10**6 else 999999
                    d, v2 = decode(cls, p)
                    r["dec"] = "ok" if d == "value" else "refused"
                    r["decok"] = 1 if d == "value" and v2 == int.from_bytes(b, "big", signed=signed) * cls.resolution else 0
                recs.append(r)
                ex.append(f"{cls.__name__}.to_knx({value!r})")
        else:  # f32
            lo, hi = float(cls.value_min), float(cls.value_max)
            f32max = struct.unpack(">f", bytes.fromhex("7f7fffff"))[0]
            vals = [0, 1, -1, 0.1, 1e-45, 1.5, 1e10, -1e10, 3.4e38, -3.4e38, f32max, -f32max, lo, hi, 123456789, 16777217, 1e-40, math.pi]
            vals += [rnd.uniform(-1e6, 1e6) for _ in range(5 if ck.tier == "quick" else 300)] + [rnd.uniform(-1, 1) * 10 ** rnd.randrange(-30, 38) for _ in range(5 if ck.tier == "quick" else 300)]
            outs = [math.nextafter(hi, math.inf) if hi < 1e308 else math.inf, math.nextafter(lo, -math.inf) if lo > -1e308 else -math.inf,
                    hi * 1.0001 if hi > 0 else 1.0, lo * 1.0001 if lo < 0 else -1.0, 3.5e38, -3.5e38, 1e39, math.inf, -math.inf]
            for value in vals + outs + [math.nan]:
                zone = "nan" if math.isnan(value) else "out" if not lo <= value <= hi else "unrep" if math.isfinite(value) and abs(value) > f32max else "in"
                r = {"t": "num", "cls": cls.__name__, "fam": "f32", "zone": zone, "out": "conv", "plen": 0, "dlen": cls.payload_length, "dec": "na", "decok": 0}
                out, p = encode(cls, value)
                r["out"] = out
                if out == "ok" and isinstance(p, DPTArray):
                    r["plen"] = len(p.value)
                    d, v2 = decode(cls, p)
                    r["dec"] = "ok" if d == "value" else "refused"
                    r["decok"] = 1 if d == "value" and (zone == "nan" or ulp32_ok(value, v2)) else 0
                recs.append(r)
                ex.append(f"{cls.__name__}.to_knx({value!r})")
    # identical records of one class differ only in the value: judge all, report per (class, outcome class)
    res = tlc.batch(ck, "codec/Dpt_Judge", recs, min_per_shard=20000)
    seen = {}
    for idx in sorted(res.bad):
        r = recs[idx]
        inr = None
        if "lo" in r:
            inr = r["lo"] <= r["v"] <= r["hi"]
        sig = (r["cls"], r.get("out", r["t"]), r.get("dec"), r.get("decok"), inr, r.get("anchor"), r.get("zone"))
        seen.setdefault(sig, []).append(idx)
    for sig, idxs in seen.items():
        idx = idxs[0]
        r = recs[idx]
        key = {"cls": r["cls"], "out": r.get("out", r["t"]), "dec": r.get("dec"), "in_declared_range": sig[4], "anchor": sig[5], "zone": sig[6], "decok": r.get("decok")}
        ck.violation(key, f"numeric datapoint: {ex[idx]} -> {json.dumps({k: v for k, v in r.items() if k not in ('t', 'cls')})} ({len(idxs)} such cases, e.g. also {ex[idxs[-1]]})",
                     {"record": r, "example": ex[idx], "more": [ex[i] for i in idxs[1:6]]})
    ok = [r for r in recs if r["t"] == "num" and r["out"] == "ok" and r.get("decok") == 1]
    inside = [r for r in ok if ("lo" in r and r["lo"] < r["v"] < r["hi"]) or r.get("anchor") == "in" or r.get("zone") == "in"]
    far = [r for r in recs if r["t"] == "num" and r["out"] == "conv" and ((r["fam"] == "big" and (r["off"] <= -2 if r["anchor"] == "min" else r["off"] >= 1)) or r.get("zone") == "out")]
    muts = [dict(r, raw=r["raw"] + 1 if r["raw"] < 200 else r["raw"] - 1) for r in inside if r.get("fam") == "fix" and r["eps"] == 0 and r["v"] % r["U"] == 0][:10] + \
           [dict(r, raw=(r["raw"] + 3) % 2048 + (r["raw"] // 2048) * 2048) for r in inside if r.get("fam") == "f16" and r["v"] % r["U"] == 0][:10] + \
           [dict(r, out="conv") for r in inside[:5]] + [dict(r, dec="refused") for r in inside[:5]] + [dict(r, plen=r["plen"] + 1) for r in inside[:5]] + \
           [dict(r, out="ok", plen=r["dlen"], dec="ok", decok=1) for r in far][:10] + \
           [dict(r, rawoff=2) for r in inside if r.get("fam") == "big"][:5] + [dict(r, out="other:OverflowError") for r in recs if r["t"] == "far"][:5]
    ck.add(evaluations=len(recs), classes=len(numeric_classes()), classes_per_family=per_family, distinct_nontrivial=len({(r["cls"], r.get("out"), r.get("raw", r.get("rawoff"))) for r in recs}),
           accepted=len(ok), refused=sum(1 for r in recs if r.get("out") == "conv"), selftest_corrupted_rejected=selftest(ck, muts), rule="distinct = (class, outcome, payload)")
    ck.sample({"record": recs[5], "example": ex[5]})


# ------------------------------------------------------------------------------------------------ C10
def jsonify(v):
    """the JSON form used by xknx.mcp.tools._jsonify / Home Assistant: dict of a complex value, lower-case name of an enum member"""
    from xknx.dpt.dpt import DPTComplexData, DPTEnumData

    if isinstance(v, DPTComplexData):
        return v.as_dict()
    if isinstance(v, DPTEnumData):
        return v.name.lower()
    return v


def run10(ck):
    from xknx.dpt import DPTComplex, DPTEnum
    from xknx.exceptions import ConversionError

    rnd = random.Random(ck.seed)
    agg, n = {}, 0
    cl = [c for c in classes() if issubclass(c, (DPTComplex, DPTEnum))]
    for cls in cl:
        for p in payloads(cls, ck.tier, rnd, accepted_only=True):
            out, v = decode(cls, p)
            if out != "value":
                continue
            n += 1
            r = {"t": "json", "cls": cls.__name__, "out": "ok", "same": 0}
            note = ""
            try:
                form = jsonify(v)
                form2 = json.loads(json.dumps(form))
            except (TypeError, ValueError) as ex:
                r["out"], note = "nojson", f"{type(ex).__name__}: {ex}"
            else:
                try:
                    p2 = cls.to_knx(form2)
                except ConversionError as ex:
                    r["out"], note = "encrefused", str(ex)[:160]
                except Exception as ex:  # noqa: BLE001
                    r["out"], note = "encraised:" + type(ex).__name__, str(ex)[:160]
                else:
                    o2, v2 = decode(cls, p2)
                    if o2 != "value":
                        r["out"] = "decrefused:" + o2
                    else:
                        r["same"] = 1 if v2 == v else 0
                        note = "" if r["same"] else f"decoded again as {v2!r}"[:160]
                        if r["same"] and isinstance(form2, dict) and len(form2) > 1:
                            # a JSON object has no order: its members listed the other way round are the same value
                            try:
                                p3 = cls.to_knx(dict(reversed(list(form2.items()))))
                            except Exception as ex:  # noqa: BLE001
                                p3 = type(ex).__name__
                            if p3 != p2:
                                r["same"], note = 0, f"with its members in reverse order: {p3} instead of {p2}"[:200]
            k = json.dumps(r, sort_keys=True)
            if k not in agg:
                agg[k] = [r, 0, f"{cls.__name__}: {pdesc(p)} = {v!r:.120}; JSON form {json.dumps(jsonify(v), default=str)[:160]} {note}"]
            agg[k][1] += 1
    recs = [dict(v[0], count=v[1]) for v in agg.values()]
    ex = [v[2] for v in agg.values()]
    judge(ck, recs, ex, "JSON form round trip")
    muts = [dict(r, same=0) for r in recs if r["same"] == 1][:15] + [dict(r, out="nojson") for r in recs[:10]]
    ck.add(evaluations=n, classes=len(cl), distinct_nontrivial=len(recs), selftest_corrupted_rejected=selftest(ck, muts), rule="distinct = (class, outcome)")
    ck.sample({"record": recs[0], "example": ex[0]})


def replay(ck, path):
    print(json.loads(open(path).read())["replay"])
    return 1
