"""C03 - transport-layer control octets decode only to PDUs that re-encode to them.

spec : spec/cemi/Tpci.tla (TPDU table as executable reference + its own round-trip laws), spec/cemi/Tpci_Judge.tla
code : xknx.telegram.tpci.TPCI.resolve / to_knx; all 256 octets x 3 destination kinds, all constructible PDUs.
"""
from __future__ import annotations

from .. import tlc
from ..core import MachineryError

KIND = {"individual": (False, False), "group": (True, False), "broadcast": (True, True)}


def cases():
    from xknx.exceptions import ConversionError
    from xknx.telegram import tpci as T

    out = []
    for kind, (g, z) in KIND.items():
        for o in range(256):
            try:
                p = T.TPCI.resolve(o, dst_is_group_address=g, dst_is_zero=z)
            except ConversionError:
                out.append({"t": "dec", "o": o, "kind": kind, "res": "reject", "seq": 0, "enc": 0})
                continue
            numbered = bool(getattr(p, "numbered", False))
            out.append({"t": "dec", "o": o, "kind": kind, "res": type(p).__name__,
                        "seq": p.sequence_number if numbered else 0, "enc": p.to_knx()})
    # ... and the same octets inside a link frame: the destination kind is what the frame parser derives from the destination address,
    # whatever the other control bits say (system broadcast, priority, repetition, acknowledge request, error, hop count)
    from xknx.cemi import CEMIFrame, CEMILData
    from xknx.exceptions import CouldNotParseCEMI, UnsupportedCEMIMessage

    dst = {"individual": (0x60, b"\x11\x02"), "group": (0xE0, b"\x09\x01"), "broadcast": (0xE0, b"\x00\x00")}
    for kind, (ctrl2, d) in dst.items():
        for ctrl1 in (0xBC, 0xAC, 0x90, 0xB1, 0x3C):              # 0xAC: system-broadcast bit cleared (= system broadcast); others: priority / repeat / ack / error / extended
            for o in range(256):
                for body in (bytes([o]), bytes([o, 0x00]), bytes([o, 0x80, 0x01])):        # control TPDU (no APDU), data TPDU with a short / longer APDU
                    raw = bytes([0x29, 0x00, ctrl1, ctrl2, 0x11, 0x05]) + d + bytes([len(body) - 1]) + body
                    try:
                        fr = CEMIFrame.from_knx(raw)
                    except (CouldNotParseCEMI, UnsupportedCEMIMessage):
                        continue                      # refused by the frame layer (C12 / C13 judge that)
                    if not isinstance(fr.data, CEMILData):
                        continue
                    p = fr.data.tpci
                    numbered = bool(getattr(p, "numbered", False))
                    try:                                  # the octet as the frame writes it again (the only place where it reaches the wire)
                        enc = fr.to_knx()[9]
                    except Exception:  # noqa: BLE001 - the frame layer refuses to re-serialise (C13): the PDU's own encoding
                        enc = p.to_knx()
                    out.append({"t": "dec", "o": o, "kind": kind, "res": type(p).__name__, "seq": p.sequence_number if numbered else 0, "enc": enc, "via": "frame"})
    pdus = [(T.TDataGroup, None, ["group"]), (T.TDataBroadcast, None, ["broadcast"]),
            (T.TDataTagGroup, None, ["group", "broadcast"]), (T.TDataIndividual, None, ["individual"]),
            (T.TConnect, None, ["individual"]), (T.TDisconnect, None, ["individual"])]
    for cls in (T.TDataConnected, T.TAck, T.TNak):
        for s in range(16):
            pdus.append((cls, s, ["individual"]))
    for cls, s, kinds in pdus:
        p = cls() if s is None else cls(sequence_number=s)
        for kind in kinds:
            g, z = KIND[kind]
            enc = p.to_knx()
            try:
                r = T.TPCI.resolve(enc, dst_is_group_address=g, dst_is_zero=z)
                res, rseq = type(r).__name__, (r.sequence_number if getattr(r, "numbered", False) else 0)
            except ConversionError:
                res, rseq = "reject", 0
            out.append({"t": "enc", "pdu": cls.__name__, "seq": s or 0, "kind": kind, "enc": enc, "res": res, "rseq": rseq})
    return out


def run(ck):
    cs = cases()
    res = tlc.judge(ck, "cemi/Tpci_Judge", cs,
                    key=lambda c: {k: c[k] for k in ("t", "o", "kind", "pdu", "seq") if k in c},
                    what=lambda c: f"TPCI case not allowed by the TPDU table: {c}")
    accepted_pdus = {(c["kind"], c["res"], c["seq"]) for i, c in enumerate(cs) if c["t"] == "dec" and c["res"] != "reject"}
    if len(accepted_pdus) < 50:
        raise MachineryError("vacuous: hardly any octet decoded")
    # binding self-test: corrupted records must be rejected by the judge
    muts = []
    for c in cs:
        if c["t"] == "dec" and c["res"] == "TAck":
            muts.append(dict(c, res="TNak"))
        if c["t"] == "dec" and c["res"] == "TDataConnected":
            muts.append(dict(c, enc=(c["enc"] + 4) % 256))
        if c["t"] == "dec" and c["res"] == "reject" and c["kind"] == "individual" and c["o"] in (0x82, 0x83):
            muts.append(dict(c, res="TAck"))
    r2 = tlc.batch(ck, "cemi/Tpci_Judge", muts)
    if len(r2.bad) != len(muts):
        raise MachineryError("binding self-test: corrupted TPCI records accepted")
    ck.add(distinct_nontrivial=len(accepted_pdus) + sum(1 for c in cs if c["t"] == "enc"), exhaustive=True,
           selftest_corrupted_rejected=len(muts),
           rule="every octet 0..255 x {individual, group, broadcast} through TPCI.resolve, every constructible PDU "
                "(sequence numbers 0..15) through to_knx/resolve; judged by the TLA+ TPDU table (Tpci.tla); non-trivial = "
                "distinct (kind, PDU, sequence number) decoded + PDUs round-tripped")
    ck.sample(cs[0x42])
    ck.sample(cs[0x82])
    ck.sample(cs[-1])


def replay(ck, path):
    import json

    c = json.loads(open(path).read())["replay"]
    now = [x for x in cases() if all(x.get(k) == c.get(k) for k in ("t", "o", "kind", "pdu", "seq"))]
    res = tlc.batch(ck, "cemi/Tpci_Judge", now)
    print("recorded:", c, "\nnow:", now, "\nrejected:", sorted(res.bad))
    return 1 if res.bad else 0
