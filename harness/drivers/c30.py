"""C30 - secure routing accepts only authenticated, timely frames.

spec : spec/io/SecGroup.tla (+ SecGroup_MC, latency 4 ticks), SecGroup_Trace.tla
code : real SecureGroup on a fake multicast socket under virtual time (random.uniform / randbytes seeded): after connect()
       (timer synchronisation answered - once or twice - or not answered), multicast histories of plain frames of every kind,
       TimerNotify frames with good and bad MAC and timer values around the local timer, SecureWrappers with good and bad MAC at
       every offset around the latency (1000 ms) and synchronisation (100 ms) windows, and outgoing wrappers.  Observed: frames
       passed to the callbacks, timer values of sent wrappers, current_timer_value() after each event, exceptions out of the
       datagram callback.
"""
from __future__ import annotations

import asyncio
import random
from unittest.mock import patch

from .. import tlc
from ..core import MachineryError
from ..vloop import ms, virtual_world

KEY = bytes(range(16))
OFFS = (5000, 500, 1, 0, -1, -50, -99, -100, -101, -500, -999, -1000, -1001, -5000)
PLAIN = ("SEARCH_REQUEST", "SEARCH_REQUEST_EXTENDED", "SEARCH_RESPONSE", "DESCRIPTION_REQUEST", "DESCRIPTION_RESPONSE", "ROUTING_INDICATION",
         "ROUTING_BUSY", "CONNECT_REQUEST", "TUNNELLING_REQUEST", "SESSION_REQUEST")


def run_hist(sync, history, seed=0):
    """sync: "none" | "once" | "twice" (replies to the synchronisation request) ; history: list of (gap_ms, kind, args)"""
    import xknx.knxip as k
    from xknx.io.const import XKNX_SERIAL_NUMBER
    from xknx.io.ip_secure import SecureGroup, SecureSequenceTimer, _IPSecureTransportLayer
    from xknx.io.transport import UDPTransport
    from xknx.knxip import KNXIPFrame

    ev = []
    with virtual_world(seed) as loop, patch.object(UDPTransport, "create_multicast_sock", staticmethod(lambda a, b: None)):
        now = lambda: int(loop.time() * 1000.0)      # the monotonic clock in whole milliseconds (truncated, as the timer reads it)

        class Peer(_IPSecureTransportLayer):
            session_id = 0

            def __init__(self):
                self._key, self.value, self.tag = KEY, 0, b"\x12\x34"

            def get_sequence_information(self):
                return self.value.to_bytes(6, "big")

            def get_message_tag(self):
                return self.tag

        async def main():
            grp = SecureGroup(("10.0.0.1", 0), ("224.0.23.12", 3671), backbone_key=KEY, latency_ms=1000)
            got = []
            grp.register_callback(lambda f, s, t: got.append(type(f.body).__name__))
            peer = Peer()
            sent_notifies = []
            cnt = {"n": 0}

            def notify_raw(value, serial, tag, bad=False):
                cap = []
                st = SecureSequenceTimer(backbone_key=KEY, latency_ms=1000, transport_send=lambda f, a: cap.append(f))
                st._clock_difference = value - st._monotonic_ms()
                st.send_timer_notify(message_tag=tag, serial_number=serial)
                raw = bytearray(cap[0].to_knx())
                if bad:
                    raw[-1] ^= 1
                return bytes(raw)

            def deliver(raw):
                try:
                    grp.data_received_callback(raw, ("10.0.0.9", 3671))
                except Exception as ex:  # noqa: BLE001 - nothing may escape the datagram callback
                    ev.append({"ev": "raised:" + type(ex).__name__})

            def on_send(tr, data, addr):
                f, _ = KNXIPFrame.from_knx(data)
                if isinstance(f.body, k.TimerNotify):
                    sent_notifies.append(f.body)
                    if not grp.secure_timer.timer_authenticated and sync != "none" and len(sent_notifies) == 1:
                        v = 777_000                       # the time keeper's timer
                        replies = {"once": [False], "twice": [False, False], "forged": [True], "forged+once": [True, False],
                                   "once+stale": [False], "once+fresh": [False]}[sync]
                        for k_, bad in enumerate(replies):   # bad: a forged reply echoing our serial number and tag (both visible on the wire)
                            vv = 360_000_000 if bad else v
                            raw = notify_raw(vv, XKNX_SERIAL_NUMBER, f.body.message_tag, bad)

                            def go(raw=raw, vv=vv, bad=bad):
                                deliver(raw)
                                ev.append({"ev": "rx_notify", "v": vv, "macok": 0 if bad else 1, "sync": 1, "t": now(), "tv": grp.secure_timer.current_timer_value()})
                                if "+" in sync and not bad and sync != "forged+once":
                                    # the next datagram of the same loop iteration is a wrapper: an old one of the group (a replay), or a current
                                    # one; the task waiting for the reply has not run yet
                                    before = len(got)
                                    peer.value = vv - 377_000 if sync == "once+stale" else vv + 1
                                    deliver(peer.encrypt_frame(KNXIPFrame.init_from_body(k.RoutingIndication(raw_cemi=bytes(11)))).to_knx())
                                    ev.append({"ev": "rx_wrapped", "v": peer.value, "macok": 1, "up": len(got) - before, "t": now(),
                                               "tv": grp.secure_timer.current_timer_value()})

                            loop.inject(go)
                elif isinstance(f.body, k.SecureWrapper):
                    try:                                   # what every other device of the secure backbone does with the frame
                        peer.decrypt_frame(f)
                        peerok = 1
                    except Exception:  # noqa: BLE001
                        peerok = 0
                    ev.append({"ev": "tx_wrapped", "v": int.from_bytes(f.body.sequence_information, "big"), "t": now(), "peerok": peerok})

            peer = Peer()
            loop.on_send = on_send
            await grp.connect()
            ev.append({"ev": "synced", "t": now(), "tv": grp.secure_timer.current_timer_value()})
            plain_frames = {
                "SEARCH_REQUEST": k.SearchRequest(), "SEARCH_REQUEST_EXTENDED": k.SearchRequestExtended(), "SEARCH_RESPONSE": k.SearchResponse(),
                "DESCRIPTION_REQUEST": k.DescriptionRequest(), "DESCRIPTION_RESPONSE": k.DescriptionResponse(), "ROUTING_INDICATION": k.RoutingIndication(raw_cemi=bytes(11)),
                "ROUTING_BUSY": k.RoutingBusy(), "CONNECT_REQUEST": k.ConnectRequest(), "TUNNELLING_REQUEST": k.TunnellingRequest(raw_cemi=bytes(11)),
                "SESSION_REQUEST": k.SessionRequest()}
            for gap, kind, args in history:
                if gap:
                    await asyncio.sleep(gap / 1000)
                before = len(got)
                local = grp.secure_timer.current_timer_value()
                if kind == "plain":
                    deliver(KNXIPFrame.init_from_body(plain_frames[args]).to_knx())
                    ev.append({"ev": "rx_plain", "svc": args, "up": len(got) - before, "t": now(), "tv": grp.secure_timer.current_timer_value()})
                elif kind == "notify":
                    off, bad = args
                    v = max(local + off, 0)
                    # every third notify is from another xknx on the backbone: it carries the very serial number we use (all xknx do), its own tag
                    cnt["n"] += 1
                    deliver(notify_raw(v, XKNX_SERIAL_NUMBER if cnt["n"] % 3 == 0 else bytes.fromhex("00fa12345678"), b"\xab\xcd", bad))
                    ev.append({"ev": "rx_notify", "v": v, "macok": 0 if bad else 1, "sync": 0, "t": now(), "tv": grp.secure_timer.current_timer_value()})
                elif kind == "wrapped":
                    off, bad = args
                    peer.value = max(local + off, 0)
                    raw = bytearray(peer.encrypt_frame(KNXIPFrame.init_from_body(plain_frames["ROUTING_INDICATION"])).to_knx())
                    if bad:
                        raw[-1] ^= 1
                    deliver(bytes(raw))
                    ev.append({"ev": "rx_wrapped", "v": peer.value, "macok": 0 if bad else 1, "up": len(got) - before, "t": now(),
                               "tv": grp.secure_timer.current_timer_value()})
                elif kind == "send":
                    try:
                        grp.send(KNXIPFrame.init_from_body(plain_frames["ROUTING_INDICATION"]))
                    except Exception as ex:  # noqa: BLE001
                        ev.append({"ev": "send_raised:" + type(ex).__name__})
            grp.stop()

        loop.run_until_complete(main())
    return ev


def plans(ck):
    rnd = random.Random(ck.seed)
    out = []
    for sync in ("none", "once", "twice", "forged", "forged+once", "once+stale", "once+fresh"):
        for p in PLAIN:
            out.append((sync, [(10, "plain", p)]))
        for off in OFFS:
            for bad in (False, True):
                out.append((sync, [(10, "wrapped", (off, bad)), (5, "send", None)]))
                out.append((sync, [(10, "notify", (off, bad)), (5, "send", None), (0, "wrapped", (0, False))]))
    for _ in range(250 if ck.tier == "quick" else 5000):
        h = []
        for _ in range(rnd.randrange(3, 16)):
            kind = rnd.choices(["plain", "notify", "wrapped", "send"], weights=[1, 3, 4, 2])[0]
            args = rnd.choice(PLAIN) if kind == "plain" else (rnd.choice(OFFS + (rnd.randrange(-3000, 3000),)), rnd.random() < 0.25) if kind != "send" else None
            h.append((rnd.choice([0, 0, 1, 20, 150, 1200, 11000]), kind, args))
        out.append((rnd.choice(["none", "once", "once", "twice", "forged", "forged+once", "once+stale", "once+fresh"]), h))
    return out


def run(ck):
    ck.assume("timer values stay below 2^31 ms in the generated histories (TLC integers); the 48-bit range is not exercised")
    tlc.mc(ck, "io/SecGroup_MC", require_actions=False)
    ps = plans(ck)
    traces = [run_hist(s, h, ck.seed) for s, h in ps]
    res = tlc.batch(ck, "io/SecGroup_Trace", traces, min_per_shard=50)
    for idx, info in sorted(res.bad.items()):
        t = traces[idx]
        l = info if isinstance(info, int) else 0
        e = t[l - 1] if 0 < l <= len(t) else None
        ck.violation({"sync": ps[idx][0], "rejected": {k: v for k, v in (e or {}).items() if k in ("ev", "macok", "sync", "up", "svc")}, "history_kinds": [x[1] for x in ps[idx][1]][:8]},
                     f"secure routing trace (synchronisation reply: {ps[idx][0]}) rejected at event {l}: {e}; before {t[max(0, l - 5):l - 1]}; history {ps[idx][1][:8]}",
                     {"sync": ps[idx][0], "history": ps[idx][1], "trace": t, "rejected_at": l})
    muts = []
    for i, t in enumerate(traces):
        if i in res.bad or len(muts) >= 150:
            continue
        w = [k for k, e in enumerate(t) if e["ev"] == "rx_wrapped" and e["macok"] == 0]
        if w:
            a = [dict(e) for e in t]
            a[w[0]]["up"] = 1                              # a wrapper with a bad MAC was forwarded
            muts.append(a)
        n = [k for k, e in enumerate(t) if e["ev"] == "rx_notify" and e["macok"] == 0 and e["sync"] == 0]
        if n:
            b = [dict(e) for e in t]
            b[n[0]]["tv"] += 1000                          # a notify with a bad MAC moved the timer
            muts.append(b)
        p = [k for k, e in enumerate(t) if e["ev"] == "rx_plain" and e["up"] == 0]
        if p:
            c = [dict(e) for e in t]
            c[p[0]]["up"] = 1                              # a plain routing frame was forwarded
            muts.append(c)
    r2 = tlc.batch(ck, "io/SecGroup_Trace", muts, min_per_shard=50)
    if not muts or len(r2.bad) != len(muts):
        raise MachineryError(f"binding self-test: {len(muts) - len(r2.bad)} of {len(muts)} corrupted traces accepted")
    ck.add(traces_validated_against_impl=res.accepted, trace_events=sum(len(t) for t in traces), histories=len(ps),
           wrappers_received=sum(1 for t in traces for e in t if e["ev"] == "rx_wrapped"), notifies_received=sum(1 for t in traces for e in t if e["ev"] == "rx_notify"),
           wrappers_sent=sum(1 for t in traces for e in t if e["ev"] == "tx_wrapped"), selftest_corrupted_rejected=len(muts))
    ck.sample({"sync": ps[-1][0], "history": ps[-1][1], "trace": traces[-1]})


def replay(ck, path):
    import json

    d = json.loads(open(path).read())["replay"]
    t = run_hist(d["sync"], [(g, k, tuple(a) if isinstance(a, list) else a) for g, k, a in d["history"]], ck.seed)
    res = tlc.batch(ck, "io/SecGroup_Trace", [t])
    print("trace:", t, "\nrejected at:", res.bad.get(0))
    return 1 if res.bad else 0
