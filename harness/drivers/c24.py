"""C24 - outgoing tunnel frames are sequenced and confirmed only by their own ACK.

spec : spec/io/TunSend.tla (client + gateway + lossy network, model-checked; TunSend_Dev.cfg shows that a client accepting
       any ACK violates OwnAckOnly), spec/io/TunSend_Trace.tla (wire monitor, trace validation)
code : real UDPTunnel against the simulated gateway under virtual time: every reaction plan (ok, lost, late, dup, stale,
       err, wrongchan, wrongseq) up to a bound, auto-reconnect on and off, sequential and concurrent senders, wrap-around.
"""
from __future__ import annotations

import asyncio
import itertools
import random

from .. import tlc
from ..core import MachineryError
from ..sim.gateway import GatewaySim
from ..vloop import virtual_world

REACT = ("ok", "lost", "late", "dup", "stale", "err", "errunk", "wrongchan", "wrongseq")
# "disc": no acknowledgement, the server sends a DisconnectRequest 0.3 s later while the request is pending


def cemi(i):
    from xknx.cemi import CEMIFrame, CEMILData, CEMIMessageCode
    from xknx.dpt import DPTArray
    from xknx.telegram import GroupAddress, IndividualAddress, Telegram
    from xknx.telegram.apci import GroupValueWrite

    return CEMIFrame(code=CEMIMessageCode.L_DATA_REQ,
                     data=CEMILData.init_from_telegram(Telegram(GroupAddress("1/2/3"), payload=GroupValueWrite(DPTArray((i & 0xFF,)))),
                                                       src_addr=IndividualAddress("1.1.9")))


def project(ev):
    out = []
    for e in ev:
        if e["ev"] == "tx" and e["kind"] == "TunnellingRequest":
            out.append({"ev": "tx_req", "chan": e["chan"], "seq": e["seq"], "id": e.get("cemi", -1), "t": e["t"]})
        elif e["ev"] == "rx" and e["kind"] == "TunnellingAck":
            out.append({"ev": "rx_ack", "chan": e["chan"], "seq": e["seq"], "st": e["st"], "t": e["t"]})
        elif e["ev"] == "rx" and e["kind"] == "ConnectResponse" and e["st"] == 0:
            out.append({"ev": "connected", "chan": e["chan"], "t": e["t"]})
        elif e["ev"] == "send_ret":
            out.append({"ev": "send_ret", "id": e["id"], "out": e["out"], "t": e["t"]})
        elif e["ev"] in ("tx", "rx"):
            out.append({"ev": "other", "kind": e["kind"], "t": e["t"]})
    return out


def run_plan(plan, auto_reconnect, nsend, concurrent=False, connect_plan=(), seed=0, other=False):
    from xknx.exceptions import CommunicationError

    with virtual_world(seed) as loop:
        sim = GatewaySim(loop, "udp", auto_reconnect=auto_reconnect, auto_reconnect_wait=1, tun_plan=plan,
                         connect_plan=connect_plan)
        # other: a second tunnel of the same process (its own XKNX, its own gateway) connects and sends while this one works
        sim2 = GatewaySim(loop, "udp", auto_reconnect=True, auto_reconnect_wait=1, first_chan=40) if other else None

        async def one(i):
            try:
                await sim.tun.send_cemi(cemi(i))
                o = "ok"
            except CommunicationError:
                o = "err"
            sim.log("send_ret", id=i & 0xFF, out=o)
            return o

        async def others():
            await sim2.tun.connect()
            for i in range(5):
                try:
                    await sim2.tun.send_cemi(cemi(100 + i))
                except CommunicationError:
                    pass
                await asyncio.sleep(0.17)

        async def main():
            await sim.tun.connect()
            bg = asyncio.ensure_future(others()) if sim2 is not None else None
            if isinstance(concurrent, tuple):          # ("stagger", step): sender i starts at i * step, whatever the others are doing
                async def later(i):
                    await asyncio.sleep(i * concurrent[1])
                    return await one(i)
                await asyncio.gather(*(later(i) for i in range(nsend)))
            elif concurrent:
                await asyncio.gather(*(one(i) for i in range(nsend)))
            else:
                for i in range(nsend):
                    o = await one(i)
                    if o == "err" and not auto_reconnect:
                        break
                    await asyncio.sleep(0.3)
            await asyncio.sleep(8 if connect_plan else 2)
            if connect_plan:
                await one(nsend)
            sim.quiesce()
            if bg is not None:
                await bg
                sim2.quiesce()

        loop.run_until_complete(main())
        return project(sim.ev)


def run(ck):
    rnd = random.Random(ck.seed)
    tlc.mc(ck, "io/TunSend", require_actions=False)
    dev = tlc.mc(ck, "io/TunSend", "io/TunSend_Dev", expect_error=True, record=False, coverage=False)
    ck.add(deviation_model_counterexample=("OwnAckOnly" in dev.out or "OwnSeq" in dev.out))
    plans = []
    depth = 3 if ck.tier == "quick" else 4
    for p in itertools.product(REACT, repeat=depth):
        for ar in (True, False):
            plans.append((list(p), ar, 3, False))
    for _ in range(120 if ck.tier == "quick" else 1500):
        n = rnd.randrange(4, 9)
        plans.append((rnd.choices(REACT + ("slow",), k=n), True, 4, rnd.random() < 0.7))
    # senders arriving while another one is being served, also across a reconnect started by the sender itself (two lost
    # acknowledgements) and while the first request on the new connection waits for a slow acknowledgement
    for step, head in itertools.product((0.1, 0.23, 0.5, 0.9), (["lost", "lost"], ["slow"], ["lost", "slow", "lost", "lost"], ["err"])):
        plans.append((head + ["slow"] * 8 + ["ok"] * 8, True, 16 if step < 0.4 else 9, ("stagger", step)))
    for _ in range(60 if ck.tier == "quick" else 600):
        plans.append((rnd.choices(("ok", "slow", "slow", "lost", "lost", "err", "dup"), k=12), True, rnd.randrange(4, 12), ("stagger", rnd.choice([0.05, 0.1, 0.3, 0.7, 1.1]))))
    # the tunnel is lost while a request awaits its acknowledgement; reconnecting takes 1..3 attempts
    for k, cp, tail in itertools.product(range(0, 4), (["ok"], ["ok", "lost"], ["ok", "lost", "lost"], ["ok", "err"]),
                                         (["ok"], ["lost", "ok"], ["disc"])):
        plans.append((["ok"] * k + ["disc"] + tail, True, k + 3, False, cp))
    plans.append(([], True, 300, False))  # wrap-around of the counter
    plans.append((["lost", "lost"] + ["ok"] * 280, True, 270, False))
    plans = [p if len(p) == 5 else (*p, ()) for p in plans]
    traces = [run_plan(*p, seed=ck.seed, other=(i % 5 == 2)) for i, p in enumerate(plans)]
    res = tlc.batch(ck, "io/TunSend_Trace", traces, min_per_shard=60)
    for idx, info in sorted(res.bad.items()):
        plan, ar, ns, conc, cp = plans[idx]
        t = traces[idx]
        l = info if isinstance(info, int) else 0
        ev = t[l - 1] if 0 < l <= len(t) else None
        evk = {k: v for k, v in (ev or {}).items() if k != "t"}
        ck.violation({"plan": plan[:8], "auto_reconnect": ar, "concurrent": conc, "connect_plan": list(cp), "event": evk},
                     f"tunnel send trace rejected at event {l}: {ev} (plan={plan[:8]} auto_reconnect={ar} concurrent={conc})",
                     {"plan": plan, "auto_reconnect": ar, "nsend": ns, "concurrent": conc, "connect_plan": list(cp), "other": idx % 5 == 2, "trace": t[:200], "rejected_at": l})
    muts = []
    for t in [t for i, t in enumerate(traces[:400]) if i not in res.bad]:
        ks = [k for k, e in enumerate(t) if e["ev"] == "rx_ack" and e["st"] == 0]
        rets = [k for k, e in enumerate(t) if e["ev"] == "send_ret" and e["out"] == "ok"]
        if ks and rets and ks[0] < rets[0] and sum(1 for k in ks if k < rets[0]) == 1 and len(muts) < 80:
            a = [dict(e) for e in t]
            a[ks[0]]["seq"] = (a[ks[0]]["seq"] + 1) % 256     # the ACK was not the own one
            muts.append(a)
            b = [dict(e) for e in t]
            k = next(k for k, e in enumerate(b) if e["ev"] == "tx_req")
            b[k]["seq"] = (b[k]["seq"] + 1) % 256             # wrong counter on the wire
            muts.append(b)
    r2 = tlc.batch(ck, "io/TunSend_Trace", muts)
    if len(r2.bad) != len(muts) or not muts:
        raise MachineryError(f"binding self-test: {len(muts) - len(r2.bad)} of {len(muts)} corrupted traces accepted")
    ck.add(traces_validated_against_impl=res.accepted, trace_events=sum(len(t) for t in traces), plans=len(plans),
           selftest_corrupted_rejected=len(muts))
    ck.sample({"plan": plans[9][0], "auto_reconnect": plans[9][1], "trace": traces[9]})
    ck.sample({"plan": plans[-3][0], "concurrent": plans[-3][3], "trace": traces[-3][:40]})


def replay(ck, path):
    import json

    d = json.loads(open(path).read())["replay"]
    t = run_plan(d["plan"], d["auto_reconnect"], d["nsend"], tuple(d["concurrent"]) if isinstance(d["concurrent"], list) else d["concurrent"], d.get("connect_plan", ()), ck.seed, bool(d.get("other")))
    res = tlc.batch(ck, "io/TunSend_Trace", [t])
    l = res.bad.get(0)
    print("trace:", t[:60], "\nrejected at:", l, t[l - 1] if l else None)
    return 1 if res.bad else 0
