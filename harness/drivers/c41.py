"""C41 - exposed values respect cooldown and always end up on the bus.

spec : spec/dev/Expose.tla (what must reach the bus and when), Expose_MC (operational model of set / cooldown task / read
       judged by the same clauses, exhaustive), Expose_Trace.tla
code : real ExposeSensor in a started XKNX (real telegram queue, task registry, devices) with a mocked interface under virtual
       time: histories of set / set(skip_unchanged) / initialize_value / GroupValueRead with gaps before, at and after the
       cooldown expiry and bursts; cooldown 0, 2 s, 10 s.
"""
from __future__ import annotations

import asyncio
import itertools
import random

from .. import tlc
from ..core import MachineryError
from ..fx import make_xknx, start_xknx, stop_xknx
from ..vloop import ms, virtual_world


# the values behind the abstract values 1..4 of a history.  "percent" (DPT 5.001): 50 and 49.9 travel as different octets (0x80, 0x7F)
# that both read back as 50 - what is "on the bus" is the octet
VALS = {"pulse": {1: 1, 2: 2, 3: 3, 4: 4}, "percent": {1: 50, 2: 49.9, 3: 10, 4: 70}}


def run_hist(cd_ms, events, seed=0, periodic_ms=0, vt="pulse"):
    """events: list of (gap_ms, kind, value) with kind in set | skip | init | read"""
    from xknx.devices import ExposeSensor
    from xknx.telegram import GroupAddress, IndividualAddress, Telegram, TelegramDirection
    from xknx.telegram.apci import GroupValueRead, GroupValueResponse, GroupValueWrite

    ev = []
    with virtual_world(seed) as loop:
        now = lambda: ms(loop.time())

        async def main():
            xknx, sent = make_xknx(loop)
            es = ExposeSensor(xknx, "e", group_address="1/1/1", value_type=vt, cooldown=cd_ms / 1000, periodic_send=periodic_ms / 1000)
            wire = {es.sensor_value.to_knx(x).value[0]: k for k, x in VALS[vt].items()}
            xknx.devices.async_add(es)
            await start_xknx(xknx)
            orig = xknx.knxip_interface.send_cemi

            async def send_cemi(cemi):
                p = cemi.data.payload
                if isinstance(p, (GroupValueWrite, GroupValueResponse)):
                    ev.append({"ev": "tx", "kind": "write" if isinstance(p, GroupValueWrite) else "response", "v": wire.get(p.value.value[0], 99), "t": now()})
                await orig(cemi)

            xknx.knxip_interface.send_cemi = send_cemi
            for gap, kind, v in events:
                if gap:
                    await asyncio.sleep(gap / 1000)
                if kind == "skip" and vt != "pulse":
                    kind = "set"           # "unchanged" is judged on the decoded value: only meaningful where values and octets correspond
                if kind in ("set", "skip"):
                    ev.append({"ev": "set", "v": v, "skip": 1 if kind == "skip" else 0, "t": now()})
                    try:
                        await es.set(VALS[vt][v], skip_unchanged=(kind == "skip"))
                    except Exception as ex:  # noqa: BLE001 - recorded, nothing explains it
                        ev.append({"ev": "raised:" + type(ex).__name__, "t": now()})
                elif kind == "init":
                    ev.append({"ev": "init", "v": v, "t": now()})
                    es.initialize_value(VALS[vt][v])
                elif kind == "read":
                    ev.append({"ev": "read", "t": now()})
                    xknx.telegrams.put_nowait(Telegram(GroupAddress("1/1/1"), direction=TelegramDirection.INCOMING,
                                                       payload=GroupValueRead(), source_address=IndividualAddress("1.1.7")))
            await asyncio.sleep(3 * cd_ms / 1000 + 5 + 2 * periodic_ms / 1000)
            ev.append({"ev": "end", "t": now()})
            await stop_xknx(xknx)

        loop.run_until_complete(main())
    return {"cd": cd_ms, "per": 1 if periodic_ms else 0, "ev": ev}


def plans(ck):
    rnd = random.Random(ck.seed)
    out = []
    kinds = [("set", 1), ("set", 2), ("skip", 1), ("skip", 2), ("read", 0), ("init", 3)]
    for cd in (0, 2000, 10000):
        gaps = (0, cd // 2, cd - 1, cd, cd + 1) if cd else (0, 500)
        n = 3 if ck.tier == "quick" else 4
        for ks in itertools.product(kinds, repeat=n):
            for gs in itertools.product(gaps, repeat=n - 1):
                if ck.tier == "quick" and rnd.random() > (0.12 if cd else 0.6):
                    continue
                out.append((cd, [(0 if i == 0 else gs[i - 1], k, v) for i, (k, v) in enumerate(ks)]))
        for _ in range(150 if ck.tier == "quick" else 3000):
            m = rnd.randrange(4, 14)
            out.append((cd, [(rnd.choice([0, 0, 1, 300, cd // 3, cd // 2, max(cd - 1, 0), cd, cd + 1, 2 * cd + 7]),
                              *rnd.choice(kinds + [("set", 4), ("skip", 4), ("set", 1)])) for _ in range(m)]))
    # periodic sending configured (period shorter and longer than the cooldown): the pending value must still get out
    for cd, per in ((10000, 4000), (2000, 4000), (0, 4000)):
        for _ in range(60 if ck.tier == "quick" else 800):
            m = rnd.randrange(2, 8)
            out.append((cd, [(rnd.choice([0, 1000, cd // 2, cd + 1, per - 1, per + 1]), *rnd.choice(kinds + [("set", 4)])) for _ in range(m)], per))
    return out


def run(ck):
    ck.assume("the mocked interface sends at once (queue latency 0 in virtual time); values are one-octet counters (DPT 5.010), so equal values have equal payloads")
    ck.assume("initialize_value counts as 'treated as sent': it creates no obligation to transmit")
    tlc.mc(ck, "dev/Expose_MC", require_actions=False)
    ps = plans(ck)
    ps = [p if len(p) == 3 else (*p, 0) for p in ps]
    vts = ["percent" if i % 3 == 1 else "pulse" for i in range(len(ps))]
    traces = [run_hist(cd, evs, ck.seed, per, vts[i]) for i, (cd, evs, per) in enumerate(ps)]
    res = tlc.batch(ck, "dev/Expose_Trace", traces, min_per_shard=100)
    for idx, info in sorted(res.bad.items()):
        t = traces[idx]["ev"]
        l = info if isinstance(info, int) else 0
        e = t[l - 1] if 0 < l <= len(t) else None
        ck.violation({"cooldown_ms": ps[idx][0], "periodic_ms": ps[idx][2], "history": [list(x) for x in ps[idx][1]], "rejected": {k: v for k, v in (e or {}).items() if k != "t"}},
                     f"expose sensor ({vts[idx]}) trace (cooldown {ps[idx][0]} ms) rejected at event {l}: {e}; history {ps[idx][1]}; trace {t[:l]}",
                     {"cd": ps[idx][0], "events": ps[idx][1], "per": ps[idx][2], "vt": vts[idx], "trace": t, "rejected_at": l})
    muts = []
    for i, tr in enumerate(traces):
        if i in res.bad or len(muts) >= 200:
            continue
        t = tr["ev"]
        ws = [k for k, e in enumerate(t) if e["ev"] == "tx" and e["kind"] == "write"]
        if tr["cd"] and len(ws) >= 2 and not tr["per"]:
            a = [dict(e) for e in t]
            a[ws[1]]["t"] = a[ws[0]]["t"] + tr["cd"] - 100          # second update telegram inside the cooldown
            if all(a[j]["t"] <= a[j + 1]["t"] for j in range(len(a) - 1)):
                muts.append({"cd": tr["cd"], "per": tr["per"], "ev": a})
        if ws and t[ws[-1]]["v"] != 9:
            last_sets = [e for e in t if e["ev"] in ("set", "init")]
            if last_sets and last_sets[-1]["ev"] == "set" and last_sets[-1]["v"] == t[ws[-1]]["v"] and \
               not any(e["ev"] == "tx" and e["kind"] == "response" for e in t[ws[-1]:]) and \
               sum(1 for e in t if e["ev"] == "tx" and e["v"] == t[ws[-1]]["v"]) == 1 and \
               not any(e["ev"] == "init" and e["v"] == t[ws[-1]]["v"] for e in t):
                muts.append({"cd": tr["cd"], "per": tr["per"], "ev": [e for k, e in enumerate(t) if k != ws[-1]]})   # the last value never reached the bus
        rs = [k for k, e in enumerate(t) if e["ev"] == "tx" and e["kind"] == "response"]
        if rs:
            c = [dict(e) for e in t]
            c[rs[0]]["v"] = 77                                       # a read answered with another value
            muts.append({"cd": tr["cd"], "per": tr["per"], "ev": c})
    r2 = tlc.batch(ck, "dev/Expose_Trace", muts, min_per_shard=100)
    if not muts or len(r2.bad) != len(muts):
        acc = [m for k, m in enumerate(muts) if k not in r2.bad][:2]
        raise MachineryError(f"binding self-test: {len(muts) - len(r2.bad)} of {len(muts)} corrupted traces accepted: {acc}")
    ck.add(traces_validated_against_impl=res.accepted, trace_events=sum(len(t["ev"]) for t in traces), histories=len(ps),
           value_telegrams=sum(1 for t in traces for e in t["ev"] if e["ev"] == "tx"), selftest_corrupted_rejected=len(muts))
    ck.sample({"cooldown_ms": ps[-1][0], "history": ps[-1][1], "trace": traces[-1]["ev"][:20]})


def replay(ck, path):
    import json

    d = json.loads(open(path).read())["replay"]
    t = run_hist(d["cd"], [tuple(x) for x in d["events"]], ck.seed, d.get("per", 0), d.get("vt", "pulse"))
    res = tlc.batch(ck, "dev/Expose_Trace", [t])
    l = res.bad.get(0)
    print("trace:", t["ev"], "\nrejected at:", l)
    return 1 if res.bad else 0
