"""C04 / C05 / C06 - application-layer PDUs: decoding is total, decoded PDUs re-encode to the same octets (reserved bits aside),
encoding never silently changes a field.

spec : spec/codec/ApciTable.tla (service of each ten-bit APCI value), spec/codec/Apci.tla (reserved bits per service, laws), Apci_Judge.tla
code : real xknx.telegram.apci:
       C04 - every APDU of length 0..2, a stride of length 3, and for every ten-bit code APDUs of every length 2..48, 64, 254, 255 (thorough: every length up to 255)
             with all-zero / all-one / alternating / random content; 1 s watchdog.
       C05 - every APDU of that plan that decodes: to_knx(), calculated_length(), decode again, bitwise comparison.
       C06 - every service class built with boundary values for each constructor argument (0, 1, 2^k - 1, 2^k, -1, 2^32 - thorough: every value -2..4099 and around every power of two; byte strings of
             every length 0..20 and around 250; addresses; group values), encoded and decoded again.
"""
from __future__ import annotations

import inspect
import random
import signal

from .. import tlc
from ..core import MachineryError


class _Hang(BaseException):
    pass


def _alarm(signum, frame):
    raise _Hang()


def decode(raw):
    from xknx.exceptions import ConversionError, UnsupportedAPCIService
    from xknx.telegram.apci import APCI

    signal.setitimer(signal.ITIMER_VIRTUAL, 2.0)   # CPU time of this process: a busy machine does not trip the watchdog
    try:
        o = APCI.from_knx(raw)
        return "svc:" + type(o).__name__, o
    except UnsupportedAPCIService:
        return "unsup", None
    except ConversionError:
        return "conv", None
    except _Hang:
        return "hang", None
    except Exception as ex:  # noqa: BLE001
        return "other:" + type(ex).__name__, None
    finally:
        signal.setitimer(signal.ITIMER_VIRTUAL, 0)


def apdus(ck, rnd):
    quick = ck.tier == "quick"
    yield b""
    for a in range(256):
        yield bytes([a])
    for a in range(256):
        for b in range(256):
            if not quick or a < 4 or (a * 256 + b) % 17 == 0:
                yield bytes([a, b])
    for v in range(1024):
        for ln in (list(range(3, 49)) + [64, 254, 255]) if quick else range(3, 256):
            for fill in ((0, 0xFF, 0x55) if quick else (0, 0xFF, 0x55, 0xAA, 1)):
                yield bytes([v >> 8, v & 0xFF]) + bytes([fill]) * (ln - 2)
            yield bytes([v >> 8 | (rnd.randrange(64) << 2), v & 0xFF]) + bytes(rnd.randrange(256) for _ in range(ln - 2))
    for _ in range(2000 if quick else 100000):
        yield bytes(rnd.randrange(256) for _ in range(rnd.choice([3, 3, 4, 5, 8, 12])))
    # one bit set / one bit clear in an otherwise uniform body: a flag together with an all-zero (or all-one) field next to it
    # (for the codes some length of which is not refused as an unknown service; all codes in the thorough tier)
    known, per = [], {}
    for v in range(1024):
        outs = {decode(bytes([v >> 8, v & 0xFF]) + bytes(n))[0] for n in range(0, 15)} - {"unsup"}
        name = ",".join(sorted(outs))
        if not quick or (outs and per.get(name, 0) < 3):      # quick: three codes per service (the 6-bit services own 64 codes each)
            per[name] = per.get(name, 0) + 1
            known.append(v)
    for v in known:
        for ln in (3, 4, 5, 6, 7, 8, 10, 12, 16) if quick else range(3, 24):
            for pos in range(2, min(ln, 10)):
                for bit in range(8):
                    for bg in (0x00, 0xFF):
                        b = bytearray([v >> 8, v & 0xFF]) + bytearray([bg]) * (ln - 2)
                        b[pos] ^= 1 << bit
                        yield bytes(b)


def run04(ck):
    rnd = random.Random(ck.seed)
    old = signal.signal(signal.SIGVTALRM, _alarm)
    cases = []
    try:
        for raw in apdus(ck, rnd):
            out, _o = decode(raw)
            cases.append({"t": "dec", "n": len(raw), "b0": raw[0] if raw else 0, "b1": raw[1] if len(raw) > 1 else 0, "out": out, "hex": raw[:24].hex()})
    finally:
        signal.signal(signal.SIGVTALRM, old)
    send = [{k: v for k, v in c.items() if k != "hex"} for c in cases]
    res = tlc.batch(ck, "codec/Apci_Judge", send, min_per_shard=8000)
    seen = set()
    for idx in sorted(res.bad):
        c = cases[idx]
        key = {"apci": (c["b0"] % 4) * 256 + c["b1"] if c["n"] >= 2 else -1, "n_class": min(c["n"], 3), "out": c["out"]}
        if str(key) in seen or len(seen) > 50:
            continue
        seen.add(str(key))
        ck.violation(key, f"APCI.from_knx({c['hex']}) ({c['n']} octets) -> {c['out']}", c)
    muts = [dict(c, out="unsup") for c in send if c["out"].startswith("svc:")][:20] + [dict(c, out="other:IndexError") for c in send[:10]]
    r2 = tlc.batch(ck, "codec/Apci_Judge", muts)
    if not muts or len(r2.bad) != len(muts):
        raise MachineryError(f"binding self-test: {len(muts) - len(r2.bad)} of {len(muts)} corrupted cases accepted")
    import collections

    ck.add(evaluations=len(cases), distinct_nontrivial=len({(c["b0"] % 4, c["b1"], c["out"]) for c in cases}), exhaustive_up_to_octets=2 if ck.tier != "quick" else 1,
           outcomes=dict(collections.Counter(c["out"].split(":")[0] for c in cases)), selftest_corrupted_rejected=len(muts), rule="distinct = (ten-bit code, outcome)")
    ck.sample(cases[700])


def run05(ck):
    from xknx.cemi import CEMIFrame, CEMILData, CEMIMessageCode
    from xknx.exceptions import ConversionError
    from xknx.telegram import IndividualAddress
    from xknx.telegram.apci import APCI
    from xknx.telegram.tpci import TDataConnected

    rnd = random.Random(ck.seed)
    old = signal.signal(signal.SIGVTALRM, _alarm)
    cases = []
    try:
        for k, raw in enumerate(apdus(ck, rnd)):
            out, o = decode(raw)
            if o is None:
                continue
            c = {"t": "re", "svc": type(o).__name__, "n": len(raw), "out": "ok", "lendiff": 0, "calcdiff": 0, "diff": [], "eq": 0, "hex": raw[:40].hex()}
            try:
                enc = bytes(o.to_knx())
                c["lendiff"] = len(enc) - len(raw)
                c["calcdiff"] = o.calculated_length() + 1 - len(enc)
                c["diff"] = [[i, b] for i in range(min(len(enc), len(raw))) for b in range(8) if (enc[i] ^ (raw[i] if i else raw[0] & 3)) >> b & 1]
                o2 = APCI.from_knx(enc)
                c["eq"] = 1 if o2 == o else 0
                # relaying: the object is serialised inside a numbered point-to-point cEMI frame; its own encoding must not change by that
                if len(enc) <= 254 and k % 3 == 0:
                    try:
                        CEMIFrame(code=CEMIMessageCode.L_DATA_IND, data=CEMILData(src_addr=IndividualAddress(0x1101), dst_addr=IndividualAddress(0x1102),
                                                                                 tpci=TDataConnected(sequence_number=11), payload=o)).to_knx()
                    except ConversionError:
                        pass
                    if bytes(o.to_knx()) != enc:
                        c["eq"] = 0
                        c["note"] = "encoding changed after the object was serialised in a cEMI frame"
            except (ConversionError, NotImplementedError):
                c["out"] = "refused"
            except Exception as ex:  # noqa: BLE001
                c["out"] = "raised:" + type(ex).__name__
            cases.append(c)
    finally:
        signal.signal(signal.SIGVTALRM, old)
    send = [{k: v for k, v in c.items() if k not in ("hex", "note")} for c in cases]
    res = tlc.batch(ck, "codec/Apci_Judge", send, min_per_shard=6000)
    seen = set()
    for idx in sorted(res.bad):
        c = cases[idx]
        key = {"svc": c["svc"], "out": c["out"], "lendiff": c["lendiff"], "calcdiff": c["calcdiff"], "eq": c["eq"], "diff": c["diff"][:3]}
        if c.get("note"):
            key["note"] = c["note"]
        if str(key) in seen or len(seen) > 50:
            continue
        seen.add(str(key))
        ck.violation(key, f"{c['svc']} decoded from {c['hex']} ({c['n']} octets) does not re-encode faithfully: {key}", c)
    muts = [dict(c, diff=c["diff"] + [[2, 0]]) for c in send if c["out"] == "ok" and c["n"] > 3 and c["svc"] not in ("AuthorizeRequest",)][:20] + \
           [dict(c, eq=0) for c in send if c["out"] == "ok"][:10]
    r2 = tlc.batch(ck, "codec/Apci_Judge", muts)
    if not muts or len(r2.bad) != len(muts):
        raise MachineryError(f"binding self-test: {len(muts) - len(r2.bad)} of {len(muts)} corrupted cases accepted")
    ck.add(evaluations=len(cases), services=len({c["svc"] for c in cases}), refused=sum(1 for c in cases if c["out"] == "refused"),
           distinct_nontrivial=len({(c["svc"], c["n"], c["out"]) for c in cases}), selftest_corrupted_rejected=len(muts), rule="distinct = (service, length, outcome)")
    ck.sample(cases[100])


INTS = [0, 1, 3, 4, 7, 8, 15, 16, 63, 64, 127, 128, 255, 256, 4095, 4096, 65535, 65536, 2**24 - 1, 2**24, 2**32 - 1, 2**32, -1]


def run06(ck):
    from xknx.dpt import DPTArray, DPTBinary
    from xknx.telegram import GroupAddress, IndividualAddress, apci
    from xknx.telegram.apci import APCI

    rnd = random.Random(ck.seed)
    classes = [c for n, c in vars(apci).items() if inspect.isclass(c) and issubclass(c, APCI) and c is not APCI and not inspect.isabstract(c)
               and c.__name__ != "SecureAPDU"]
    cases, info = [], []

    def default(name, ann):
        a = str(ann)
        if "DPTBinary" in a or "DPTArray" in a:
            return DPTArray((1, 2))
        if "IndividualAddress" in a:
            return IndividualAddress(0x1101)
        if "GroupAddress" in a and "list" in a:
            return [GroupAddress(0x0801)]
        if "GroupAddress" in a:
            return GroupAddress(0x0801)
        if "bytes" in a:
            return {"serial": bytes(6), "domain_address": bytes(2), "backbone_key": bytes(16), "and_data": b"\x01", "xor_data": b"\x02"}.get(name, b"\x01\x02")
        if "bool" in a:
            return False
        if "ReturnCode" in a:
            from xknx.telegram.apci import ReturnCode  # noqa: PLC0415
            return list(ReturnCode)[0]
        return 1

    def variants(name, ann):
        a = str(ann)
        if "DPTBinary" in a or "DPTArray" in a:
            return [DPTBinary(0), DPTBinary(63), DPTArray(()), DPTArray((0,)), DPTArray(tuple(range(14))), DPTArray(tuple([255] * 253)), DPTArray(tuple([1] * 254)), DPTArray(tuple([1] * 255))]
        if "IndividualAddress" in a:
            return [IndividualAddress(0), IndividualAddress(65535)]
        if "GroupAddress" in a and "list" in a:
            return [[], [GroupAddress(1)], [GroupAddress(i + 1) for i in range(7)], [GroupAddress(65535)],
                    # the same address more than once (legal on the wire), also as equal but distinct objects
                    [GroupAddress(5), GroupAddress(5)], [GroupAddress(1), GroupAddress(2), GroupAddress(1)], [GroupAddress(9)] * 6, [GroupAddress(3)] * 7,
                    [GroupAddress(i % 3 + 1) for i in range(6)], [GroupAddress(i + 1) for i in range(6)]]
        if "GroupAddress" in a:
            return [GroupAddress(0), GroupAddress(65535)]
        if "bytes" in a:
            return [bytes(rnd.randrange(256) for _ in range(n)) for n in list(range(0, 21)) + [63, 64, 249, 250, 251, 252, 253, 254, 255, 256]]
        if "bool" in a:
            return [True, False]
        if "ReturnCode" in a:
            from xknx.telegram.apci import ReturnCode  # noqa: PLC0415
            return list(ReturnCode)
        return (sorted(set(INTS) | set(range(0, 72))) if ck.tier == "quick" else sorted(set(INTS) | set(range(-2, 4100)) | {2**k + d for k in range(12, 33) for d in (-1, 0, 1)})) + ([None] if "None" in a else [])

    for cls in classes:
        sig = inspect.signature(cls.__init__)
        params = [(n, p) for n, p in sig.parameters.items() if n != "self"]
        base = {n: (p.default if p.default is not inspect.Parameter.empty and p.default is not None else default(n, p.annotation)) for n, p in params}
        plans = [dict(base)]
        for n, p in params:
            for v in variants(n, p.annotation):
                plans.append(dict(base, **{n: v}))
        bools = [n for n, p in params if "bool" in str(p.annotation)]
        if len(bools) >= 2:                                        # every combination of the flags
            import itertools  # noqa: PLC0415
            for combo in itertools.product((False, True), repeat=len(bools)):
                plans.append(dict(base, **dict(zip(bools, combo))))
        for _ in range(20 if ck.tier == "quick" else 300):        # two arguments varied together
            if len(params) >= 2:
                (n1, p1), (n2, p2) = rnd.sample(params, 2)
                plans.append(dict(base, **{n1: rnd.choice(variants(n1, p1.annotation)), n2: rnd.choice(variants(n2, p2.annotation))}))
        for kw in plans:
            c = {"t": "enc", "svc": cls.__name__, "out": "refused"}
            try:
                o = cls(**kw)
                enc = bytes(o.to_knx())
            except Exception as ex:  # noqa: BLE001 - a refusal (at construction or encoding)
                c["note"] = type(ex).__name__
            else:
                try:
                    o2 = APCI.from_knx(enc)
                    c["out"] = "equal" if (o2 == o and type(o2) is type(o)) else "different"
                    if c["out"] == "different":
                        c["note"] = f"decoded as {o2}"[:200]
                except Exception as ex:  # noqa: BLE001 - the encoder's own output is not decodable
                    c["out"] = "undecodable"
                    c["note"] = f"{enc[:20].hex()} ({len(enc)} octets) is refused by the decoder: {type(ex).__name__}: {ex}"[:200]
            cases.append(c)
            info.append(f"{cls.__name__}({', '.join(f'{k}={v!r}'[:40] for k, v in kw.items())})"[:300])
    send = [{k: v for k, v in c.items() if k != "note"} for c in cases]
    res = tlc.batch(ck, "codec/Apci_Judge", send, min_per_shard=6000)
    seen = {}
    for idx in sorted(res.bad):
        c = cases[idx]
        n = seen.get(c["svc"], 0)
        seen[c["svc"]] = n + 1
        if n < 40:
            ck.violation({"svc": c["svc"], "out": c["out"], "call": info[idx][:160]}, f"{info[idx]} -> {c['out']}: {c.get('note')}", {"call": info[idx], "case": c})
    muts = [dict(c, out="different") for c in send[:30]]
    r2 = tlc.batch(ck, "codec/Apci_Judge", muts)
    if not muts or len(r2.bad) != len(muts):
        raise MachineryError(f"binding self-test: {len(muts) - len(r2.bad)} of {len(muts)} corrupted cases accepted")
    ck.add(evaluations=len(cases), services=len(classes), equal=sum(1 for c in cases if c["out"] == "equal"), refused=sum(1 for c in cases if c["out"] == "refused"),
           distinct_nontrivial=len({(c["svc"], c["out"]) for c in cases}), selftest_corrupted_rejected=len(muts), rule="distinct = (service, outcome)")
    ck.sample({"call": info[5], "case": cases[5]})


def replay(ck, path):
    import json

    print(json.loads(open(path).read())["replay"])
    return 1
