"""Parser for TLC's value syntax (PrintT output, -simulate dumps): ints, strings, booleans, sets {..},
tuples <<..>>, records [a |-> v, ..], functions (k :> v @@ ..), model values."""
from __future__ import annotations

import re

_TOK = re.compile(r'\s*(<<|>>|\|->|:>|@@|[{}\[\](),]|"(?:[^"\\]|\\.)*"|-?\d+|[A-Za-z_][A-Za-z0-9_!]*)')


class TlaParseError(Exception):
    pass


def _tokens(s: str):
    pos = 0
    out = []
    n = len(s)
    while pos < n:
        m = _TOK.match(s, pos)
        if not m:
            if s[pos:].strip() == "":
                break
            raise TlaParseError(f"bad token at {s[pos:pos+30]!r}")
        out.append(m.group(1))
        pos = m.end()
    return out


def parse(s: str):
    toks = _tokens(s)
    v, i = _val(toks, 0)
    if i != len(toks):
        raise TlaParseError(f"trailing tokens {toks[i:i+5]}")
    return v


def _val(t, i):
    tok = t[i]
    if tok == "<<":
        out = []
        i += 1
        while t[i] != ">>":
            v, i = _val(t, i)
            out.append(v)
            if t[i] == ",":
                i += 1
        return out, i + 1
    if tok == "{":
        out = []
        i += 1
        while t[i] != "}":
            v, i = _val(t, i)
            out.append(v)
            if t[i] == ",":
                i += 1
        return out, i + 1
    if tok == "[":
        out = {}
        i += 1
        while t[i] != "]":
            k = t[i]
            if t[i + 1] != "|->":
                raise TlaParseError("record")
            v, i = _val(t, i + 2)
            out[k] = v
            if t[i] == ",":
                i += 1
        return out, i + 1
    if tok == "(":
        out = {}
        i += 1
        while t[i] != ")":
            k, i = _val(t, i)
            if t[i] != ":>":
                raise TlaParseError("function")
            v, i = _val(t, i + 1)
            out[k if not isinstance(k, list) else tuple(k)] = v
            if t[i] == "@@":
                i += 1
        return out, i + 1
    if tok[0] == '"':
        return bytes(tok[1:-1], "utf-8").decode("unicode_escape"), i + 1
    if tok in ("TRUE", "FALSE"):
        return tok == "TRUE", i + 1
    if re.fullmatch(r"-?\d+", tok):
        return int(tok), i + 1
    return tok, i + 1  # model value / identifier


def extract(output: str, tag: str):
    """Find every PrintT'ed tuple whose first element is the string `tag` and return the parsed tuples.
    Works on multi-line output by bracket matching from the `<<"tag"` marker."""
    res = []
    marker = re.compile(r'<<\s*"' + re.escape(tag) + '"')
    pos = 0
    while True:
        mm = marker.search(output, pos)
        if mm is None:
            break
        k = mm.start()
        depth = 0
        j = k
        instr = False
        while j < len(output):
            c = output[j]
            if instr:
                if c == "\\":
                    j += 1
                elif c == '"':
                    instr = False
            elif c == '"':
                instr = True
            elif output.startswith("<<", j):
                depth += 1
                j += 1
            elif output.startswith(">>", j):
                depth -= 1
                j += 1
                if depth == 0:
                    break
            j += 1
        res.append(parse(output[k : j + 1]))
        pos = j + 1
    return res
