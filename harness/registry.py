"""Claimed properties: one entry per check registered in MANIFEST.json (tools/gen_manifest.py writes MANIFEST.json
from this table, so the two cannot drift apart)."""

REGISTRY: dict[str, dict] = {}


def reg(pid, level, technique, text, note, design_ref, **kw):
    REGISTRY[pid] = dict(level=level, technique=technique, text=text, note=note, design_ref=design_ref, **kw)


reg("C23", "model_checking", "TLA+ spec (SeqCounter, TunnelRx) model-checked with TLC; trace validation of real UDPTunnel/DeviceManagement receive histories",
    "The receive rule is model-checked exhaustively for the real modulus (256 states x 256 inputs) and end to end against a lossy/duplicating/"
    "reordering network with wrap-around (M=4); every recorded receive history of the real UDPTunnel and DeviceManagement classes "
    "(exhaustive short histories, long random ones with two wrap-arounds and reconnects, TLC-simulated network behaviours) must be a behaviour of the spec.",
    "Trusted: TLC, the virtual-time loop (real asyncio _run_once), the simulated gateway. Packet lifetime < M-1 frames is an explicit model assumption.",
    "DESIGN.md section 5 C23")
