"""Claimed properties: one entry per check registered in MANIFEST.json (tools/gen_manifest.py writes MANIFEST.json
from this table, so the two cannot drift apart)."""

REGISTRY: dict[str, dict] = {}


def reg(pid, level, technique, text, note, design_ref, **kw):
    REGISTRY[pid] = dict(level=level, technique=technique, text=text, note=note, design_ref=design_ref, **kw)
