"""Claimed properties: one entry per check registered in MANIFEST.json (tools/gen_manifest.py writes MANIFEST.json
from this table, so the two cannot drift apart)."""

REGISTRY: dict[str, dict] = {}


def reg(pid, level, technique, text, note, design_ref, **kw):
    REGISTRY[pid] = dict(level=level, technique=technique, text=text, note=note, design_ref=design_ref, **kw)


reg("C23", "model_checking", "TLA+ spec (SeqCounter, TunnelRx) model-checked with TLC; trace validation of real UDPTunnel/DeviceManagement receive histories",
    "The receive rule is model-checked exhaustively for the real modulus (256 states x 256 inputs) and end to end against a lossy/duplicating/"
    "reordering network with wrap-around (M=4); every recorded receive history of the real UDPTunnel and DeviceManagement classes "
    "(exhaustive short histories, long random ones with two wrap-arounds and reconnects, TLC-simulated network behaviours) must be a behaviour of the spec.",
    "Trusted: TLC, the virtual-time loop (real asyncio _run_once), the simulated gateway. Packet lifetime < M-1 frames is an explicit model assumption.",
    "DESIGN.md section 5 C23")

reg("C03", "exploration", "TLA+ TPDU table (Tpci.tla) evaluated by TLC over every recorded decode/encode of the real TPCI classes",
    "Exhaustive: all 256 octets x 3 destination kinds and all constructible PDUs are run through the real TPCI.resolve/to_knx and each "
    "recorded result is judged by TLC against the executable TLA+ transcription of the TPDU table, whose own round-trip laws TLC checks first.",
    "Trusted: TLC's evaluator and the transcription of the KNX TPDU table in Tpci.tla (anchored by its own injectivity/round-trip ASSUMEs).",
    "DESIGN.md section 5 C03")

reg("C26", "model_checking", "TLA+ spec Heartbeat model-checked with TLC; trace validation of the real ConnectionHeartbeat and UDPTunnel heartbeat under virtual time",
    "The heartbeat automaton is model-checked for every outcome sequence up to length 9 (properties stated over the outcome history, "
    "independently of the failure counter); every outcome sequence up to length 4 (6 thorough) plus long random ones is executed on the real "
    "ConnectionHeartbeat, and ok/fail/no-response plans on the real UDPTunnel, each recorded trace (request times, on_failure calls, task liveness) must be a behaviour of the spec.",
    "Trusted: TLC, the virtual-time loop, the simulated gateway. The period is read from xknx.io.const.HEARTBEAT_RATE.",
    "DESIGN.md section 5 C26")

reg("C36", "model_checking", "TLA+ spec TaskReg model-checked with TLC; trace validation of the real Task/TaskRegistry/ConnectionManager under virtual time",
    "The registry/connection automaton is model-checked for both values of restart_after_reconnect; every operation sequence up to length 4 (5 thorough) "
    "over start/remove/stop/lost/connected/time for all 24 option combinations, plus long random ones, runs on the real classes and each recorded trace "
    "(live asyncio instances, new instance created, target invocations in progress after every call) must be a behaviour of the spec with its invariants.",
    "Trusted: TLC, the virtual-time loop. Reading: the registry is not used after stop(); an instance may end by itself at any time.",
    "DESIGN.md section 5 C36")

reg("C46", "model_checking", "TLA+ spec AutoConnect model-checked with TLC; trace validation of the real _start_automatic; TLA+ filter reference judged by TLC",
    "AutoConnect (scan loop that may pick any method the gateway supports and whose security agrees) is model-checked over every scan of up to two gateways "
    "(NoDowngrade); the real _start_automatic is run for every single-gateway capability combination (with success and failure) and random 2-3 gateway scans "
    "with failures and a keyring host filter, each recorded attempt sequence must be a behaviour of the spec; GatewayScanFilter.match is compared "
    "with the TLA+ FilterMatch on all 32 x 96 combinations.",
    "Trusted: TLC; stubbed _start_* methods and scanner generator (descriptors are built by the real parse_dibs from real DIB objects).",
    "DESIGN.md section 5 C46")

reg("C24", "model_checking", "TLA+ spec TunSend model-checked with TLC; wire-monitor trace validation of the real UDPTunnel against a faulty simulated gateway",
    "TunSend (client send/retry, gateway, lossy network) is model-checked for OwnAckOnly/OwnSeq, and its deviation configuration (client accepts any ACK) "
    "must produce a counterexample; the real UDPTunnel is driven through every plan of gateway reactions (ok, lost, late, duplicate, stale, error, wrong channel, "
    "wrong counter) of length 3 (4 thorough) with auto-reconnect on and off, random longer plans with concurrent senders and a 300-frame wrap-around run; "
    "every wire trace must be accepted by the TLA+ monitor (counter, single repetition, one outstanding frame, success only after own error-free ACK).",
    "Trusted: TLC, virtual-time loop, simulated gateway. No timing requirement on the repetition (the property states none).",
    "DESIGN.md section 5 C24")

reg("C37", "model_checking", "TLA+ spec DevReg (naive scan) model-checked with TLC; trace validation of the real Devices index with real devices of 13 kinds",
    "DevReg is model-checked (no duplicates, each user exactly once in registration order); random add/remove/re-add/duplicate/unregistered/process "
    "histories over real devices sharing group addresses (passive and internal ones included) run on the real Devices class and each recorded result "
    "(error or not, registry size, devices that processed the telegram in order, devices_by_group_address) must equal the spec's naive scan.",
    "Trusted: TLC. Device.process is replaced by a recorder on each instance; group address sets are taken from Device.group_addresses().",
    "DESIGN.md section 5 C37")

reg("C40", "model_checking", "TLA+ spec TravelCalc (integer ticks, estimate specified up to rounding) model-checked with TLC; trace validation of the real TravelCalculator on a tick clock",
    "TravelCalc is model-checked with small travel times (an admissible estimate always exists, stays between last known position and target); thousands of random "
    "command/report/stop/query histories with clock advances 0, one tick, fractions of and beyond the travel time run on the real class with internal scalar state logged after each call, "
    "and every trace must be a behaviour of the spec (no call raises, estimate within one unit of the exact rational value, monotone, exactly the target once the travel time has elapsed).",
    "Trusted: TLC (32-bit integers: 1 tick = 1/1024 s, travel times <= 60 s). time.time is replaced by a tick clock.",
    "DESIGN.md section 5 C40")

reg("C19", "exploration", "TLA+ reference of KNX Data Secure CCM (AES-128, CBC-MAC, CTR) evaluated by TLC on recorded SecureData outputs",
    "An independent executable TLA+ transcription of AES-128 and the KNX CCM construction, first validated against two frames not produced by xknx "
    "(a captured group frame and the AN158 Annex A example), recomputes MAC and ciphertext for every recorded SecureData.init_from_plain_apdu output; "
    "random keys, addresses, address types, frame formats, TPCI, SCF, sequence numbers, APDU lengths (boundary set quick, 0..240 thorough), both algorithms.",
    "Trusted: TLC's evaluator; the reference is anchored to external vectors at every run. Sampling, not exhaustive.",
    "DESIGN.md section 5 C19")

reg("C17", "model_checking", "TLA+ spec DsSeq model-checked with TLC; trace validation of the real DataSecure with frames from three senders and sends near 2^48",
    "DsSeq (last-valid-counter table, sending counter) is model-checked (delivered numbers strictly increase per sender, only known senders, sends within 48 bits); "
    "random histories of genuine, replayed, reordered, MAC-forged, body-tampered, wrong-key and unknown-sender frames (produced by the real SecureData) and "
    "outgoing frames with counters around 2^48-1 run on the real DataSecure; every trace (delivered or not, table entry afterwards, numbers sent, errors) must be a behaviour of the spec.",
    "Trusted: TLC; the rank abstraction of 48-bit numbers (order-preserving); frames are built with xknx's own SecureData (its correctness is C15/C19).",
    "DESIGN.md section 5 C17")

reg("C34", "model_checking", "TLA+ spec Callbacks model-checked with TLC; trace validation of the real TelegramQueue callback dispatch",
    "Callbacks (registration list, match rule, dispatch) is model-checked; random histories of registrations (filters, address lists, both, none, empty lists; outgoing flag; raising callables), "
    "unregistrations and incoming/outgoing telegrams to group, internal and individual addresses run through a started XKNX with the real TelegramQueue; for every telegram the "
    "callbacks invoked (in order) and device processing must equal the spec's.",
    "Trusted: TLC, virtual-time loop, mocked interface. Filter denotations are written by hand for the filters used.",
    "DESIGN.md section 5 C34")

reg("C33", "model_checking", "TLA+ spec TgQueue model-checked with TLC; trace validation of the real TelegramQueue/CEMIHandler with a fault-injecting interface under virtual time",
    "TgQueue (queue order, one in flight, spacing, done accounting) is model-checked; random mixes of incoming/outgoing/internal telegrams with injected send errors "
    "(CommunicationError, ConversionError, unexpected exception), slow sends, missing confirmations, raising callbacks and device errors at rate limits 0/5/20 run through a started XKNX; "
    "every trace of interface calls (order, overlap, start times), device processing and join()/stop() returns must be a behaviour of the spec.",
    "Trusted: TLC, virtual-time loop, mocked interface. Liveness is observed as join()/stop() returning within 600 virtual seconds.",
    "DESIGN.md section 5 C33")

reg("C25", "model_checking", "TLA+ design model Life model-checked with TLC (repaired, deviation, no auto-reconnect); monitor trace validation of real UDP/TCP tunnel sessions with failures injected at every loop iteration",
    "Life is model-checked for the repaired behaviour and must produce a counterexample for the pinned one; a real UDPTunnel/TCPTunnel session (connect, send, heartbeats, send, disconnect) is run "
    "with a server DisconnectRequest, two of them, a user disconnect() and pairs of these injected at every event-loop iteration, plus lost/failed heartbeats, with auto-reconnect on and off; "
    "every trace must satisfy the TLA+ monitor: at most one reconnect task, no frame after disconnect() returned, real transitions only, every callback once per change, CONNECTED only after an error-free ConnectResponse.",
    "Trusted: TLC, virtual-time loop (real asyncio scheduling order), simulated gateway. Secure tunnels are not driven (their lifecycle code is the shared _Tunnel).",
    "DESIGN.md section 5 C25")

reg("C27", "model_checking", "TLA+ spec Routing model-checked with TLC (and its unserialised deviation refuted); trace validation of the real Routing class under virtual time",
    "Routing (busy flow-control automaton, pacing, confirmations) is model-checked with three concurrent senders and busy frames at every tick "
    "(no indication while pausing or within 20 ms of the previous one, a waiting sender transmits when permitted); the unserialised throttle must "
    "yield a counterexample; the real Routing runs grid schedules of busy frames and concurrent send_cemi calls around cooldown, pacing and pause ends "
    "plus random bursts, and every trace (busy frames, drawn random extensions, transmissions, confirmations, returns) must be a behaviour of the spec.",
    "Trusted: TLC, the virtual-time loop, the fake multicast socket. The busy-frame counter and its decay follow KNX 03.08.05 2.3.5 as modelled in Routing.tla.",
    "DESIGN.md section 5 C27")

reg("C32", "model_checking", "TLA+ spec DevMgmt model-checked with TLC; trace validation of the real UDP/TCP device management connections against a scripted server under virtual time",
    "DevMgmt (one outstanding request, repetition with the same counter, acceptance, eligible answers, close) is model-checked against an arbitrary server; "
    "the real UDPDeviceManagementConnection and TCPDeviceManagementConnection run every pair of 17 server reactions for sequential and concurrent "
    "read/write requests, user disconnect() and TCP loss at instants around the 10 s waits, plus random scripts; every trace (requests on the wire with "
    "counters, acknowledgements, frames passed up, indication callbacks, results with the value returned and its time) must be a behaviour of the spec.",
    "Trusted: TLC, the virtual-time loop, the scripted server (numbers its frames correctly; every answer carries a distinct value so the result identifies the answer used).",
    "DESIGN.md section 5 C32")

reg("C35", "model_checking", "TLA+ specs StateUpd (policy monitor) and StateUpdModel (tracker tasks, model-checked with its deviation refuted); trace validation of the real StateUpdater under virtual time",
    "StateUpdModel (tracker tasks, shielded reads, read slots) is model-checked for three trackers (at most two reads in progress, none while disconnected, "
    "init trackers once per connection) and its deviation (slot freed on cancellation) must give a counterexample; the real StateUpdater runs random histories "
    "of connection loss and return with gaps from 50 ms to minutes, state telegrams, registrations and removals, answered and unanswered reads, and every trace "
    "(reads issued and finished, updates, connection changes with times) must satisfy StateUpd: a read only when its policy permits and whenever it is due.",
    "Trusted: TLC, the virtual-time loop, the mocked interface. Readings: see the assumptions in the evidence (first read of an expire value, 15 s slack for due reads).",
    "DESIGN.md section 5 C35")

reg("C41", "model_checking", "TLA+ spec Expose (bus obligations) with operational model Expose_MC model-checked by TLC; trace validation of the real ExposeSensor in a started XKNX under virtual time",
    "Expose_MC (set, skip_unchanged, cooldown task, read, initialize, telegrams processed back) is explored for every interleaving of five user events within "
    "three cooldowns and judged by the clauses of Expose (update telegrams a cooldown apart, last value on the bus within one cooldown, reads answered with the "
    "most recent value, sound skipping); the real ExposeSensor runs all three-event histories over set/skip/read/initialize with gaps before, at and after the cooldown "
    "expiry (sampled in quick) and random bursts for cooldown 0, 2 s and 10 s; every trace of calls and value telegrams must be a behaviour of Expose.",
    "Trusted: TLC, the virtual-time loop, the mocked interface (sends at once). initialize_value is read as 'treated as sent'.",
    "DESIGN.md section 5 C41")

reg("C42", "model_checking", "TLA+ reference ResetCounter (reported state and counter as functions of the telegram history) explored with TLC; trace validation of the real Switch / BinarySensor under virtual time",
    "ResetCounter is explored over every telegram sequence of length four over the gap classes around the configured time (reports 'on' exactly while an 'on' is "
    "younger than the reset time, counter at least one); the real Switch(reset_after), BinarySensor(reset_after) and BinarySensor(context_timeout) process on/off histories "
    "with gaps below, at and above the configured times, and every recorded telegram, callback and sample (state, counter, time; samples 10-50 ms around each expiry) "
    "must be explained by the reference.",
    "Trusted: TLC, the virtual-time loop. Instants within 2 ms of an expiry may read either state; alternation inside one context window is left open.",
    "DESIGN.md section 5 C42")

reg("C43", "model_checking", "TLA+ spec P2P (transport-layer connection, modulus 16) model-checked with TLC (modulus 4); trace validation of the real Management / P2PConnection against a scripted KNX device under virtual time; known deviation as a named action",
    "P2P is model-checked against an arbitrary peer (T_ACK only for the expected or preceding number of an open connection, outgoing numbers advance by one, "
    "responses used once); the real Management/P2PConnection runs every pair of 18 device reactions for three requests, 20-request runs with number wrap-around "
    "and repetitions, and random scripts; every trace (frames sent and received with numbers, results with type, number and time, exceptions out of the receive path) "
    "must be a behaviour of the spec. Traces that only the named deviation DEV_ACK_ALL explains are the open known finding.",
    "Trusted: TLC, the virtual-time loop, the scripted device. Which acknowledgement ends a wait is not constrained (not observable).",
    "DESIGN.md section 5 C43")

reg("C44", "model_checking", "TLA+ model AddrWrite (procedure steps on a bus population) model-checked with TLC over every population; trace validation of the real procedures on a simulated KNX bus; TLA+ reference for serial-number procedures and two-step authorization",
    "AddrWrite is model-checked over all 5832 populations of three devices (write only with exactly one device in programming mode and no other reacting device at "
    "the target, restart only at the target, no new conflict); the real nm_individual_address_write runs on every population of up to two devices and a sample of "
    "three-device populations (all of them in thorough) with simulated devices that apply writes and restarts, and every trace (write broadcast, restarts, result, bus "
    "afterwards) must satisfy the same clauses; serial-number read/write and dmp_authorize2_r_co results are judged by the TLA+ reference on all response / level combinations.",
    "Trusted: TLC, the virtual-time loop, the simulated bus (20 ms reaction latency).",
    "DESIGN.md section 5 C44")

reg("C20", "exploration", "TLA+ framing reference KnxIpFrame evaluated by TLC on every recorded KNXIPFrame.from_knx outcome (structure-aware mutation of a corpus of all body classes, watchdog)",
    "Every body class (DIB/SRP/CRI/CRD/HPAI variants, every error code, feature type, session status) is serialised, then truncated at every length, substituted at "
    "every octet (0, 1, 2, 0xFF, +-1; header octets also with neighbouring legal values), given wrong announced lengths and trailing octets; plus synthetic bodies for every "
    "service type and random strings. Each outcome of the real parser, run under a 1 s watchdog, is judged by TLC: only frame/incomplete/parse error; a frame consumed "
    "exactly the announced length; 'incomplete' only when more octets could complete the frame.",
    "Trusted: TLC, the header-level reading of 'could complete the frame'. Sampling of octet positions in quick; all positions in thorough.",
    "DESIGN.md section 5 C20")

reg("C21", "exploration", "TLA+ law RoundTripOk (KnxIpFrame.tla) evaluated by TLC on every recorded serialise / parse / re-serialise session of the KNX/IP body corpus",
    "Every body class with the field shapes the standard allows (HPAI variants, CRI/CRD, DIB lists of every kind and length, SRP lists, all error codes, feature types, "
    "session status codes, raw cEMI of 0..254 octets, SecureWrapper payloads) is put into a frame, serialised, parsed and serialised again by the real classes; TLC judges "
    "each session: length equals the announced total, total = 6 + calculated_length, nothing left over, equal body, identical octets the second time.",
    "Trusted: TLC; equality is the library's own. Error ConnectResponses (8 octets on the wire) cannot be built by the library and are covered by C20 only.",
    "DESIGN.md section 5 C21")

reg("C22", "model_checking", "TLA+ reference TcpStream (delivery for a stream of good / framed-but-malformed / unreadable frames) with the buffering parser model-checked over every chunking; TLC judges every recorded run of the real TCPTransport / SecureSession / UDPTransport",
    "The buffering parser automaton is model-checked over every chunking of three streams (delivery equals the reference, monotone); the real TCPTransport is fed "
    "every chunking of nine short streams (4096 per stream in quick, all in thorough) and random chunkings of streams of up to 50 frames, the real SecureSession "
    "(before its handshake) streams with wrappers, and the real UDPTransport the datagrams of the C20 plan; TLC judges each run: no exception leaves the callback, "
    "every well-formed frame is delivered once in stream order, framed-but-malformed frames are skipped, nothing is delivered twice.",
    "Trusted: TLC. Frame identity travels in the channel / session id octet of the generated frames.",
    "DESIGN.md section 5 C22")

reg("C14", "model_checking", "TLA+ spec CemiHandler (dispatch table, fresh-confirmation rule) with the shared-event design model-checked by TLC (deviation refuted); trace validation of the real CEMIHandler with a scripted interface under virtual time",
    "The shared confirmation event design (clear, hand over, wait) is model-checked with two senders and confirmations at any point; never clearing the event must give "
    "a counterexample; the real CEMIHandler receives real cEMI octets of every message code x destination x transport PDU and runs 1-3 concurrent sends whose interface call "
    "is slow / raises and whose confirmation arrives before the call returns, after it, twice, late or never; every trace (telegrams queued and management calls per frame, "
    "hand-over, results with times) must be a behaviour of the spec: group data to the queue exactly once, management only for broadcast / own frames, success only after a "
    "confirmation that followed the hand-over, failure within 3 s of the interface call returning.",
    "Trusted: TLC, the virtual-time loop, the scripted interface. T_Data_Tag_Group frames may or may not reach management (the statement is silent).",
    "DESIGN.md section 5 C14")

reg("C15", "exploration", "TLA+ law C15Ok (DataSecure.tla, symbolic protocol model-checked) evaluated by TLC on recorded sender/receiver sessions of two real XKNX instances",
    "The symbolic Data Secure protocol with an attacker is model-checked (only what was sent is delivered); two real XKNX instances with the same group key exchange "
    "GroupValueRead / Write / Response telegrams of APDU lengths 1..240 (boundary lengths in quick) with random keys through CEMIHandler.send_telegram and handle_raw_cemi, plus "
    "authentication-only frames; TLC judges each session: delivered, equal APDU, marked Data Secure, no key issue.",
    "Trusted: TLC; the frame octets themselves are judged by C19.",
    "DESIGN.md section 5 C15", driver="c15", entry="run15")
reg("C16", "exploration", "TLA+ bit map of a secured L_Data frame with the verdict per field (DataSecure.tla) evaluated by TLC on every single-bit mutant of real secured frames",
    "Every single bit of secured frames (APDU lengths 2, 3, 15; both algorithms; more lengths in thorough) is flipped and the frame given to a real receiver; wrong key, "
    "truncations and an unknown sender likewise; TLC classifies the bit with the TLA+ bit map and judges: protected fields (addresses, address type, frame format, TPCI, SCF, "
    "sequence number, payload, MAC) -> discarded; priority / repeat / hop count / frame type -> delivered unchanged; structural bits -> never raises, never another APDU.",
    "Trusted: TLC, the transcription of the cEMI L_Data layout in DataSecure.tla (asserted at the field borders).",
    "DESIGN.md section 5 C16", driver="c15", entry="run16")
reg("C18", "exploration", "TLA+ laws C18Ok (DataSecure.tla) evaluated by TLC on recorded plain / outgoing / authenticated-but-malformed / garbage frames at a real receiver",
    "Plain GroupValueWrite / Response / Read frames to a keyed and an unkeyed address (devices, telegram callbacks and key-issue callbacks observed), outgoing telegrams to both, "
    "correctly authenticated frames whose decrypted APDU is malformed (fixed list plus random octets), and random garbage after a valid L_Data header are given to a real receiver; "
    "TLC judges: plain data to a secured address is reported to the key-issue callback only, outgoing telegrams to it are secured, nothing raises.",
    "Trusted: TLC; authenticated frames are built with the library's own SecureData (octets judged by C19).",
    "DESIGN.md section 5 C18", driver="c15", entry="run18")

reg("C12", "exploration", "TLA+ grammar of a cEMI L_Data frame (CemiLData.tla) evaluated by TLC on every recorded outcome of CEMIFrame.from_knx and of the receive handlers (watchdog, last-resort guards counted)",
    "Valid frames of every transport PDU x destination kind x APDU length are truncated at every length, substituted at their octets, given additional-info "
    "variants and trailing octets; every message code with typical bodies, all one-octet strings (all two-octet strings in thorough) and random strings are added. "
    "TLC judges each outcome of the real parser and of handle_raw_cemi / _cemi_received: only frame / CouldNotParseCEMI / UnsupportedCEMIMessage, never the last-resort "
    "guard or a hang, and never a frame for octets whose own length fields do not describe an L_Data frame.",
    "Trusted: TLC, the grammar transcription (anchored by ASSUMEs in the judge module).",
    "DESIGN.md section 5 C12", driver="c12", entry="run12")
reg("C13", "exploration", "TLA+ rules BuildOk / ReserialiseOk (CemiLData.tla: frame type, address type, length, hop count, what re-serialising may change) evaluated by TLC on recorded sessions of the real cEMI classes",
    "Telegrams of every transport PDU x destination kind x APDU length 1..256 x priority / repeat / acknowledge x hop counts -1..8 are turned into link frames, serialised and parsed "
    "back; every frame accepted by the parser in the C12 plan is serialised again and compared bit by bit. TLC judges: frame type 'standard' exactly up to 15 NPDU octets, address type "
    "bit = destination kind, NPDU length octet, same addresses / TPDU / payload / flags after parsing, APDUs above 254 octets and hop counts outside 0..7 refused, re-serialising "
    "changes only the frame type bit, the reserved bit of control field 1 and the reserved application bits of services without data.",
    "Trusted: TLC; the list of services whose low APCI bits are reserved (GroupValueRead, long group values, IndividualAddressRead / Response / Write).",
    "DESIGN.md section 5 C13", driver="c12", entry="run13")

reg("C01", "exploration", "TLA+ reference reading of address text and wire form (Address.tla) evaluated by TLC on recorded render / parse / serialise sessions of the real address classes",
    "Every raw value (all 65 536 in thorough; boundaries, a stride and random values in quick) of individual and group addresses under the three notations is rendered, parsed back, "
    "serialised and deserialised by the real classes; TLC judges each session with an independent reader of the rendered text (levels, ranges, number of parts per notation) and the "
    "two-octet wire form. Malformed text built from tokens (overflow widths, separators, whitespace, signs, non-ASCII digits) and non-string objects go through GroupAddress, "
    "IndividualAddress and parse_device_group_address under each notation: only a fixed point or the address parse error is allowed.",
    "Trusted: TLC, the reader in Address.tla (anchored to documented examples by ASSUMEs).",
    "DESIGN.md section 5 C01", driver="c01", entry="run01")
reg("C02", "exploration", "TLA+ filter semantics (Address.tla: levels, open ends, clamping, reversed ranges) evaluated by TLC on recorded AddressFilter.match results",
    "Random pattern ASTs with 1..3 levels, 1..2 ranges per level, bounds from the boundary set of each level, open ends, reversed and single-value ranges are printed in a random "
    "spelling of the documented grammar and matched by the real AddressFilter (address object, address text, and the telegram queue's callback filter) against the addresses at and "
    "around every range bound; TLC judges each result against Match.",
    "Trusted: TLC. A 3-level pattern is matched under the 3-level notation, 2-level under 2-level, 1-level under free (matching a pattern under another notation raises in the library and is not generated).",
    "DESIGN.md section 5 C02", driver="c01", entry="run02")

reg("C29", "model_checking", "TLA+ spec SecSession model-checked with TLC over every receive history up to length 4; trace validation of the real SecureSession against a simulated secure server under virtual time",
    "SecSession is explored for every receive history of length four over eight frame classes and four sequence numbers plus every send (only fresh genuine wrappers or the "
    "pre-authentication SessionResponse are passed on; accepted and sent numbers strictly increase); the real SecureSession completes the real handshake with a simulated server "
    "and receives all one- and two-frame histories and random histories of up to 20 frames (genuine fresh / replayed / older, forged MAC, wrong key, wrong session, nested wrapper, "
    "wrapped remote diagnosis, plain frames; numbers up to 2^48-1; frames before the handshake), then sends a request, stays silent for 55 s (keep-alive) and stops; every trace of "
    "frames received (with the callbacks they caused) and frames sent (plain / wrapped, service, number) must be a behaviour of the spec.",
    "Trusted: TLC, the virtual-time loop, the simulated server (library primitives for X25519 / PBKDF2 / CCM - their octets are C28). Sequence numbers travel as ranks.",
    "DESIGN.md section 5 C29")

reg("C30", "model_checking", "TLA+ spec SecGroup (timer events E1-E11, forwarding rules) model-checked with TLC; trace validation of the real SecureGroup on a fake multicast socket under virtual time",
    "SecGroup is explored with a latency of 4 ticks over every history of three received frames (notifies with good / bad MAC and synchronisation replies, wrappers at every offset "
    "around the tolerance windows) interleaved with time and outgoing wrappers: only authenticated frames move the timer, it never runs backwards, outgoing values never decrease; "
    "the real SecureGroup synchronises (reply absent, once, duplicated) and receives every plain service, notifies and wrappers with good and bad MAC at 14 offsets around the "
    "1000 ms / 100 ms windows plus random histories, and sends wrappers; every trace (callbacks caused, timer after each event, timer values sent, exceptions) must be a behaviour of the spec.",
    "Trusted: TLC, the virtual-time loop, the peer built from the library's own wrapper / notify writers (their octets are C28). Timer values below 2^31 ms.",
    "DESIGN.md section 5 C30")

reg("C28", "exploration", "TLA+ reference of the KNX IP Secure CCM construction (AES-128, CBC-MAC, CTR; IpSecure.tla) evaluated by TLC on recorded wrapper / timer-notify / handshake octets of the real classes, anchored to the specification examples",
    "The TLA+ reference first has to reproduce the KNX specification examples (wrapped routing indication, session response MAC, session authenticate MAC). Then every "
    "recorded case is recomputed: wrappers of corpus frames under random keys, session ids, sequence information (limb boundaries, 2^48-1), serial numbers and tags must equal "
    "the reference octet for octet and unwrap to the identical frame; every single-bit change of a wrapper, a wrong key and a wrong session id must be rejected; TimerNotify MACs "
    "sent and the verdicts on changed notifies, the client's verdict on correct and changed SessionResponse MACs and the SessionAuthenticate MAC it produces must agree with the reference.",
    "Trusted: TLC's evaluator; PBKDF2 and X25519 come from the cryptography package on both sides (not specified in TLA+).",
    "DESIGN.md section 5 C28")

reg("C04", "exploration", "TLA+ table of application services per ten-bit APCI value (ApciTable.tla) and law DecodeOk evaluated by TLC on every recorded APCI.from_knx outcome (watchdog)",
    "All APDUs of 0 and 1 octets, all (a stride in quick) of 2 octets, and for each of the 1024 ten-bit codes APDUs of every length 3..48, 64, 254, 255 (thorough: every length 3..255) with constant and "
    "random content are decoded by the real APCI.from_knx under a 1 s watchdog; TLC judges each outcome against the service table: only a service, ConversionError or "
    "UnsupportedAPCIService; for a code of an implemented service never 'unsupported' and never another service; for other codes 'unsupported'.",
    "Trusted: TLC; the service table (a frozen transcription, anchored by ASSUMEs for well-known codes).",
    "DESIGN.md section 5 C04", driver="c04", entry="run04")
reg("C05", "exploration", "TLA+ table of reserved bits per service and law ReencodeOk (Apci.tla) evaluated by TLC on recorded decode / encode / decode sessions",
    "Every APDU of the C04 plan that decodes is encoded again (a refusal is allowed), its calculated_length compared, the octets compared bit by bit and the result decoded once more; "
    "TLC judges: same length, correct reported length, equal object, and every differing bit is one the reserved-bit table of the service lists.",
    "Trusted: TLC; the reserved-bit table (13 service groups, each annotated with the field it comes from).",
    "DESIGN.md section 5 C05", driver="c04", entry="run05")
reg("C06", "exploration", "TLA+ law EncodeOk (refused or equal) evaluated by TLC on recorded construct / encode / decode sessions of every service class with boundary values per argument",
    "Each of the 84 service classes (SecureAPDU is covered by C15/C19) is built with boundary values for every constructor argument (integers around every power of two up to 2^32 and -1, "
    "byte strings of every length 0..20 and around 63 / 250..256, address extremes, group values up to 255 octets, every ReturnCode) and with random pairs of arguments; the object is "
    "encoded and decoded; TLC judges: refused (any exception at the call) or an equal object of the same class - never a different one.",
    "Trusted: TLC; equality is the library's own.",
    "DESIGN.md section 5 C06", driver="c04", entry="run06")

reg("C07", "exploration", "TLA+ law DecodeOk / ConsumerOk (Dpt.tla) evaluated by TLC on recorded from_knx outcomes of every datapoint class and on sessions of a started XKNX",
    "Every concrete datapoint class x every 6-bit payload, the empty array, every 1-octet array, every (quick: a stride of) 2-octet array, arrays of every length 3..16 / 30 / 254 and, at the "
    "declared length, every octet value in every position: the real from_knx; TLC judges the outcome classes (value, CouldNotParseTelegram, ConversionError - nothing else). One payload "
    "per (class, shape, outcome) is also received as GroupValueWrite and GroupValueResponse on a configured group address by a started XKNX (virtual time); TLC judges that the "
    "telegram consumer is alive afterwards and processed the telegrams.",
    "Trusted: TLC; outcome classification by exception type in the driver.",
    "DESIGN.md section 5 C07", driver="c07", entry="run07")
reg("C08", "exploration", "TLA+ law ReencodeOk (Dpt.tla: equal value, or documented '?' replacement bounded by the non-ASCII octets) evaluated by TLC on recorded decode / encode / decode sessions",
    "Every payload of the C07 plan of the declared shape that decodes: to_knx of the decoded value, from_knx of the result, comparison (NaN by identity of kind; text by code points); TLC "
    "judges: encoder accepted, decoder accepted, same value - for ASCII text types only U+FFFD -> '?' changes, no more of them than octets >= 80h in the payload.",
    "Trusted: TLC; Python equality of decoded values.",
    "DESIGN.md section 5 C08", driver="c07", entry="run08")
reg("C09", "exploration", "TLA+ reference decoders (fixed point, 0..255 scaling, KNX float16 with minimal-exponent step) and range / resolution law NumOk (Dpt.tla) evaluated by TLC on recorded to_knx / from_knx sessions, exact integer arithmetic",
    "Every numeric class: its declared minimum, maximum and resolution are read from the class; 1- and 2-octet fixed-point types: every representable value of the declared range (quick: a stride), "
    "values between them (1/4, 1/2, 3/4 step, one thousandth of a step above / below), whole numbers, and values beyond both ends; DPT 9: every mantissa boundary of every exponent with "
    "half-step and infinitesimal displacements, whole numbers across the range, range ends; 32 / 64-bit integers relative to both range ends and inside; DPT 14 against the binary32 grid. "
    "TLC decodes each produced payload with its own reference decoder and judges: in range - accepted, declared length, |decoded - given| < one step, the type decodes its own "
    "encoding and to the reference value; out of range - ConversionError.",
    "Trusted: TLC; for DPT 14 and 32 / 64-bit integers the arithmetic beyond 31 bits is the driver's (offsets to an anchor are judged by TLC).",
    "DESIGN.md section 5 C09", driver="c07", entry="run09")
reg("C10", "exploration", "TLA+ law JsonOk evaluated by TLC on recorded decode / JSON form / json.dumps / json.loads / encode / decode sessions",
    "Every complex and enumerated class over the C07 payload plan of the declared shape (exhaustive up to two octets; every octet value in every position for longer ones, which covers every "
    "combination of one validity flag octet with typical remainder, plus random payloads): the decoded value's as_dict() / lower-case name is passed through the standard JSON encoder "
    "and decoder, given to to_knx, and the result decoded; TLC judges: serialisable, accepted, same value.",
    "Trusted: TLC; Python equality of decoded values.",
    "DESIGN.md section 5 C10", driver="c07", entry="run10")

reg("C11", "exploration", "TLA+ law SendOk (SendPath.tla: accepted => every queued telegram wire-valid; rejected => nothing queued, ConversionError for a value of the right kind) evaluated by TLC on recorded calls",
    "Every RemoteValue class (numeric / sensor classes for every numeric value type, strings, raw lengths, scaling ranges, setpoint-shift modes), group_value_write / group_value_response "
    "without a DPT (ints, lists, bytes, payload objects) and with DPTs, the MCP write tool, and device setters (Light, Cover, Fan, Climate, RawValue, NumericValue, ExposeSensor, "
    "Notification) are called with ~140 values each: numbers across and beyond every range (63/64, 255/256, 2^15..2^64, negative, fractions, 1e39, inf, nan), texts, lists with octets "
    "out of range and of 253..256 elements, and foreign arguments. The telegram queue is inspected after each call; each queued telegram is serialised the way CEMIHandler.send_telegram "
    "does and parsed back. TLC judges each call.",
    "Trusted: TLC; classification of the argument kind (number / text / list / foreign) per API in the driver.",
    "DESIGN.md section 5 C11", driver="c11", entry="run")

reg("C38", "model_checking", "TLC exhaustive on EagerDecode (two receive paths, SameState invariant; deviation 'use the attached value whenever present' must give a counterexample) + law TelegramOk judged by TLC on a differential run of two real XKNX instances",
    "Model: every table setting x every payload for own types A and B, invariants SameState and CarriesTableValue; the deviation configuration is required to violate SameState. Binding: two "
    "started XKNX instances (virtual time) with the same ~60 devices behind which every RemoteValue class sits (inverted switches / covers, climate with modes and setpoint shift, light with "
    "every colour mode, sensors and numeric values of 16 value types, raw values, strings, date / time, weather); one has group_address_dpt.set(table) with, per round, the remote value's own "
    "type / another type of the same payload shape / a super- or subclass / a type of another shape / a random mix including missing and invalid entries (as DPT number string, dict and "
    "value-type name); the same 700 (thorough: 3000) incoming GroupValueWrite / Response / Read telegrams per round with payloads of the right and of wrong shapes. After every telegram "
    "TLC judges: decoded data attached exactly when the table's type decodes the payload, its value is that type's, none attached without a table, both instances ran the callbacks, and "
    "the state of every remote value and device property is equal in both instances.",
    "Trusted: TLC; repr-equality of device state; the reference value is the table type's own from_knx called separately.",
    "DESIGN.md section 5 C38", driver="c38", entry="run")

reg("C39", "exploration", "TLA+ reference pipelines (exact / 0..255 scaling in both orientations / nearest multiple of a step; DeviceLoop.tla, model-level statements checked by TLC as assumptions) and law LoopOk evaluated by TLC on recorded setter -> queue -> outgoing processing -> state sessions",
    "A started XKNX under virtual time with a confirming interface: switches (inverted or not), light (brightness, tunable white, colour temperature in both encodings, RGB, RGBW, xyY command sequences, hue and "
    "saturation), covers with every combination of inverted position / angle (positions 0..100, travel time elapsed before reading), fan (percent and steps), climate target temperature "
    "directly and through a setpoint shift (DPT 6.010 with steps 0.05 / 0.1 / 0.2 / 0.25 / 0.5 / 1.0 and DPT 9.002, writable and read-only target temperature, shifts on and between steps), climate modes "
    "(byte and binary group objects), numeric values and expose sensors of ten value types, raw values, notifications. Each setter is awaited, the queue sends and processes the outgoing "
    "telegrams, the state property is read; TLC judges the state against the reference pipeline of the configuration (ties go either way).",
    "Trusted: TLC; which pipeline applies to which configuration (a table in the driver); the mocked interface confirms every frame.",
    "DESIGN.md section 5 C39", driver="c39", entry="run")

reg("C45", "model_checking", "TLC exhaustive on the paging protocol of list_dpts (Mcp.tla: Complete, NoDuplicates, Terminates for every N <= 7 and limit; the deviation 'an empty page announces a next page' must violate Terminates) + laws PagesOk / JsonOk / InverseOk judged by TLC on recorded tool sessions",
    "Binding: the real xknx.mcp.tools. list_dpts is followed page by page (next_offset) for every main-number filter, 15 text filters and page sizes 1, 2, 3, 7, 50..250, 0 and negative "
    "(thorough: every size -2..259); every page is judged against the server function of the model (window length, limit flag, next offset, total) and its items against the positions "
    "of the unpaged listing; the session must end. Every result of list_dpts, describe_dpt (every DPT number and value-type name), get_connection_status, send_group_value_read / write, "
    "encode / decode is passed through dataclasses.asdict and the standard JSON encoder and loaded back. decode_dpt_payload -> JSON -> encode_dpt_payload -> decode_dpt_payload over the "
    "payload plan of C07 (declared shape) for every DPT: same JSON value.",
    "Trusted: TLC; JSON text equality of decoded values.",
    "DESIGN.md section 5 C45", driver="c45", entry="run")

reg("C31", "exploration", "TLC: canonical signed form Canon (Keyring.tla) injective on bounded trees (deviation without length octets must fail) + laws LoadOk (with the sender table computed by TLC) / CanonOk / TamperOk judged by TLC on load and tamper sessions of keyrings written by an independent writer",
    "An independent writer (XML text, canonical octets - compared with TLC's Canon for the first files -, AES-128-CBC, PBKDF2, SHA-256 from cryptography / hashlib) generates keyrings from "
    "random project data: 0..8 interfaces of every type with 0..3 group entries of 0..5 (every tenth file: 40..60) senders, 0..12 group keys, 0..6 devices (also without sequence number, "
    "duplicated addresses), with / without backbone, passwords and project names with non-ASCII and XML-special characters, attributes in random order. sync_load_keyring loads each; TLC judges the "
    "loaded sender table against SenderTable(content) and the group keys, backbone, interfaces (passwords, user ids, authentication codes, sender lists) and devices against the content. "
    "Each file and each ETS export shipped with the tests is then loaded with single changes (attribute value / name / removed / added, element renamed / removed / duplicated / swapped, "
    "signature bits, wrong passwords) - TLC judges: refused with InvalidSecureConfiguration - and with changes outside the signed content (white space, a comment): accepted with the same content.",
    "Trusted: TLC; cryptography / hashlib primitives (shared with the implementation); the keyring layout (KNX keyring 1, as written by ETS and read by Calimero: one length octet, modulo 256).",
    "DESIGN.md section 5 C31", driver="c31", entry="run")

# ---- supplements: parts of the specification beyond the listed properties (not in MANIFEST.json; ./check S01 runs them; DESIGN.md section 0.9)
reg("S01", "model_checking", "TLC exhaustive on ValueReader (every environment) + trace validation of real ValueReader.read / read_group_value sessions",
    "Supplement: reading a group value returns only a response / write to its own address seen while it waited, None exactly at the timeout, and always unregisters its callback.",
    "Trusted: TLC, the virtual-time loop.", "DESIGN.md section 0.9", driver="s01", entry="run")
