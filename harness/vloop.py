"""Deterministic virtual-time asyncio loop with fake datagram / stream endpoints.

The real BaseEventLoop._run_once is reused unchanged, so the order "ready handles, then I/O callbacks, then due
timers" is asyncio's own.  The selector never blocks: when nothing is injected it advances the virtual clock by the
timeout asyncio computed (time to the next timer).  Stimuli enter with inject(), i.e. as selector events: they run
*after* handles that are already ready, exactly like a real datagram.
"""
from __future__ import annotations

import asyncio
import contextlib
import random
import time
from asyncio import base_events


class Deadlock(RuntimeError):
    pass


class _FakeSelector:
    def __init__(self, loop):
        self.loop = loop

    def select(self, timeout=None):
        lp = self.loop
        if timeout is None:
            if not lp._pending_io:
                raise Deadlock("virtual loop would block forever")
            timeout = 0
        if timeout > 0 and not lp._pending_io:
            lp._vtime += timeout
        ev, lp._pending_io = lp._pending_io, []
        return ev

    def close(self):
        pass


class FakeDatagramTransport(asyncio.DatagramTransport):
    def __init__(self, loop, protocol, sockname, remote=None):
        super().__init__()
        self._loop, self._protocol, self.sent, self._closing = loop, protocol, [], False
        self._extra = {"sockname": sockname, "peername": remote}
        self.remote = remote

    def sendto(self, data, addr=None):
        if self._closing:
            return
        self.sent.append((self._loop.time(), bytes(data), addr))
        self._loop.on_send(self, bytes(data), addr or self.remote)

    def close(self):
        if not self._closing:
            self._closing = True
            self._loop.call_soon(self._protocol.connection_lost, None)

    def abort(self):
        self.close()

    def is_closing(self):
        return self._closing

    def get_extra_info(self, name, default=None):
        return self._extra.get(name, default)

    def deliver(self, data: bytes, addr):
        """datagram from the network: dropped when the socket is closed"""
        if not self._closing:
            self._protocol.datagram_received(data, addr)


class FakeStreamTransport(asyncio.Transport):
    def __init__(self, loop, protocol):
        super().__init__()
        self._loop, self._protocol, self.written, self._closing = loop, protocol, [], False

    def write(self, data):
        if self._closing:
            return
        self.written.append((self._loop.time(), bytes(data)))
        self._loop.on_send(self, bytes(data), None)

    def close(self):
        if not self._closing:
            self._closing = True
            self._loop.call_soon(self._protocol.connection_lost, None)

    def abort(self):
        self.close()

    def is_closing(self):
        return self._closing

    def can_write_eof(self):
        return False

    def get_extra_info(self, name, default=None):
        return {"sockname": ("10.0.0.1", 40000), "peername": ("10.0.0.2", 3671)}.get(name, default)

    def deliver(self, data: bytes):
        if not self._closing:
            self._protocol.data_received(data)

    def lose(self, exc=None):
        """connection dropped by the peer / network"""
        if not self._closing:
            self._closing = True
            self._protocol.connection_lost(exc)


class VLoop(base_events.BaseEventLoop):
    def __init__(self):
        super().__init__()
        self._vtime = 0.0
        self._selector = _FakeSelector(self)
        self._pending_io = []
        self.endpoints = []
        self.on_send = lambda tr, data, addr: None
        self.iteration = 0
        self.iter_hook = None
        self.connect_fail = None  # optional callable(kind) -> exception or None

    def time(self):
        return self._vtime

    def _process_events(self, event_list):
        for cb, args in event_list:
            self._add_callback(asyncio.Handle(cb, args, self))

    def _run_once(self):
        self.iteration += 1
        if self.iter_hook is not None:
            self.iter_hook(self.iteration)
        super()._run_once()

    def inject(self, cb, *args):
        """Queue an I/O event; it runs in the next iteration after the handles that are already ready."""
        self._pending_io.append((cb, args))

    def inject_later(self, delay, cb, *args):
        self.call_later(delay, lambda: self.inject(cb, *args))

    def _write_to_self(self):
        pass

    async def create_datagram_endpoint(self, protocol_factory, local_addr=None, remote_addr=None, **kw):
        if self.connect_fail is not None:
            exc = self.connect_fail("udp")
            if exc is not None:
                raise exc
        proto = protocol_factory()
        sock = kw.get("sock")
        tr = FakeDatagramTransport(self, proto, local_addr or ("10.0.0.1", 50000), remote_addr)
        if sock is not None:
            tr._extra["sockname"] = ("10.0.0.1", 3671)
        self.endpoints.append(tr)
        proto.connection_made(tr)
        return tr, proto

    async def create_connection(self, protocol_factory, host=None, port=None, **kw):
        if self.connect_fail is not None:
            exc = self.connect_fail("tcp")
            if exc is not None:
                raise exc
        proto = protocol_factory()
        tr = FakeStreamTransport(self, proto)
        self.endpoints.append(tr)
        proto.connection_made(tr)
        return tr, proto


def ms(t: float) -> int:
    return int(round(t * 1000))


@contextlib.contextmanager
def virtual_world(seed: int = 0):
    """A fresh VLoop installed as current loop; time.time()/time.monotonic follow the virtual clock (offset so that
    wall-clock style values stay plausible); `random` is seeded.  Everything is restored afterwards."""
    loop = VLoop()
    asyncio.set_event_loop(loop)
    real_time, real_mono = time.time, time.monotonic
    base = 1_700_000_000.0
    time.time = lambda: base + loop._vtime
    time.monotonic = lambda: loop._vtime
    st = random.getstate()
    random.seed(seed)
    try:
        yield loop
    finally:
        time.time, time.monotonic = real_time, real_mono
        random.setstate(st)
        try:
            pend = [t for t in asyncio.all_tasks(loop) if not t.done()]
            for t in pend:
                t.cancel()
            if pend:
                with contextlib.suppress(BaseException):
                    loop.run_until_complete(asyncio.gather(*pend, return_exceptions=True))
        finally:
            with contextlib.suppress(BaseException):
                loop.close()
            asyncio.set_event_loop(None)
