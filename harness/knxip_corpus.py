"""KNX/IP bodies with field values the specification allows on the wire, built from the library's own classes
(shared by C20, C21, C22)."""
from __future__ import annotations

import random


def bodies(rnd: random.Random, n_random: int = 40):
    import xknx.knxip as k
    from xknx.knxip.dib import DIBSuppSVCFamilies, TunnelingSlotStatus
    from xknx.knxip import ErrorCode
    from xknx.knxip.knxip_enum import (ConnectRequestType, DIBServiceFamily, DIBTypeCode, HostProtocol, KNXMedium,
                                       SearchRequestParameterType, SecureSessionStatusCode, TunnellingFeatureType, TunnellingLayer)
    from xknx.telegram import IndividualAddress

    out = []
    hp = [k.HPAI(), k.HPAI("192.168.1.23", 3671), k.HPAI("10.255.0.1", 65535), k.HPAI(protocol=HostProtocol.IPV4_TCP)]

    def devinfo(i):
        d = k.DIBDeviceInformation()
        d.knx_medium = [KNXMedium.TP1, KNXMedium.KNX_IP, KNXMedium.RF][i % 3]
        d.programming_mode = bool(i % 2)
        d.individual_address = IndividualAddress(0x1100 + i)
        d.project_number, d.installation_number = (i * 37) % 4096, i % 16
        d.serial_number = "00:11:22:33:44:%02x" % (i % 256)
        d.multicast_address = "224.0.23.12"
        d.mac_address = "aa:bb:cc:dd:ee:%02x" % (i % 256)
        # the name field is 30 octets of ISO 8859-1
        d.name = ["", "Gateway", "KNX IP Router 750", "x" * 30, "Büro Gateway", "Küche Süd " + "ä" * 20, "é" * 30, "IP-Router Fläche 1. OG"][i % 8]
        return d

    def families(cls, i):
        d = cls()
        fams = [DIBServiceFamily.CORE, DIBServiceFamily.DEVICE_MANAGEMENT, DIBServiceFamily.TUNNELING, DIBServiceFamily.ROUTING, DIBServiceFamily.SECURITY]
        d.families = [DIBSuppSVCFamilies.Family(f, 1 + (i + j) % 2) for j, f in enumerate(fams[: i % 6])]
        return d

    def tinfo(i):
        return k.DIBTunnelingInfo(slots={IndividualAddress(0x1101 + j): TunnelingSlotStatus(bool(j % 2), bool(i % 2), True) for j in range(i % 4)})

    def generic(i):
        d = k.DIBGeneric()
        d.dtc = [DIBTypeCode.MFR_DATA, DIBTypeCode.IP_CONFIG, DIBTypeCode.IP_CUR_CONFIG, DIBTypeCode.KNX_ADDRESSES][i % 4]
        d.data = bytes(range(2 * (i % 9)))          # even length (a DIB has an even length on the wire)
        return d

    def diblist(i):
        pool = [devinfo(i), families(k.DIBSuppSVCFamilies, i), families(k.DIBSecuredServiceFamilies, i + 1), tinfo(i), generic(i)]
        pool = pool[i % 5:] + pool[: i % 5]          # every DIB kind occurs in first, middle and last position
        return pool[: 1 + i % 5] if i % 7 else []

    for i in range(16):
        for cls in (k.SearchResponse, k.SearchResponseExtended):
            b = cls(control_endpoint=hp[i % 4])
            b.dibs = diblist(i)
            out.append(b)
        b = k.DescriptionResponse()
        b.dibs = diblist(i + 1)
        out.append(b)
        out.append(k.SearchRequest(discovery_endpoint=hp[i % 4]))
        srps = [k.SRP(SearchRequestParameterType.SELECT_BY_PROGRAMMING_MODE), k.SRP(SearchRequestParameterType.SELECT_BY_MAC_ADDRESS, True, bytes(6)),
                k.SRP(SearchRequestParameterType.SELECT_BY_SERVICE, False, bytes([2, 2])), k.SRP(SearchRequestParameterType.REQUEST_DIBS, True, bytes([1, 2, 6, 0]))]
        out.append(k.SearchRequestExtended(discovery_endpoint=hp[i % 4], srps=srps[: i % 5]))
        out.append(k.DescriptionRequest(control_endpoint=hp[i % 4]))
        cri = [k.ConnectRequestInformation(), k.ConnectRequestInformation(ConnectRequestType.DEVICE_MGMT_CONNECTION),
               k.ConnectRequestInformation(individual_address=IndividualAddress(0x1105)),
               k.ConnectRequestInformation(knx_layer=TunnellingLayer.BUSMONITOR_LAYER)][i % 4]
        out.append(k.ConnectRequest(control_endpoint=hp[i % 4], data_endpoint=hp[(i + 1) % 4], cri=cri))
        for ct in ConnectRequestType:          # every connection type of the enumeration, in the request and in the response
            if i < 2:
                out.append(k.ConnectRequest(control_endpoint=hp[i % 4], data_endpoint=hp[(i + 1) % 4], cri=k.ConnectRequestInformation(ct)))
                out.append(k.ConnectResponse(communication_channel=7, data_endpoint=hp[i % 4], crd=k.ConnectResponseData(ct, individual_address=IndividualAddress(0x1203)) if ct is ConnectRequestType.TUNNEL_CONNECTION else k.ConnectResponseData(ct)))
        crd = [k.ConnectResponseData(individual_address=IndividualAddress(0x11FF)), k.ConnectResponseData(ConnectRequestType.DEVICE_MGMT_CONNECTION)][i % 2]
        out.append(k.ConnectResponse(communication_channel=i * 31 % 256, data_endpoint=hp[i % 4], crd=crd))
    for e in ErrorCode:
        out.append(k.ConnectionStateResponse(communication_channel_id=3, status_code=e))
        out.append(k.TunnellingAck(communication_channel_id=1, sequence_counter=5, status_code=e))
        out.append(k.DeviceConfigurationAck(communication_channel_id=1, sequence_counter=5, status_code=e))
    for ch, sq in ((0, 0), (1, 255), (255, 7)):
        out += [k.ConnectionStateRequest(communication_channel_id=ch, control_endpoint=hp[sq % 4]),
                k.DisconnectRequest(communication_channel_id=ch, control_endpoint=hp[ch % 4]), k.DisconnectResponse(communication_channel_id=ch),
                k.TunnellingAck(communication_channel_id=ch, sequence_counter=sq), k.DeviceConfigurationAck(communication_channel_id=ch, sequence_counter=sq)]
        for ln in (0, 1, 11, 22, 254):
            cemi = bytes((j * 7 + ln) % 256 for j in range(ln))
            out += [k.TunnellingRequest(communication_channel_id=ch, sequence_counter=sq, raw_cemi=cemi),
                    k.DeviceConfigurationRequest(communication_channel_id=ch, sequence_counter=sq, raw_cemi=cemi), k.RoutingIndication(raw_cemi=cemi)]
    for ft in TunnellingFeatureType:
        out += [k.TunnellingFeatureGet(1, 2, ft), k.TunnellingFeatureSet(1, 2, ft, b"\x01\x00"), k.TunnellingFeatureInfo(1, 2, ft, b"\x01\x02"),
                k.TunnellingFeatureResponse(1, 2, ft, data=b"\x00\x07")]
        from xknx.knxip.tunnelling_feature import ReturnCode  # noqa: PLC0415
        for rc in ReturnCode:                                   # every return code; servers may omit the value when they report an error
            out.append(k.TunnellingFeatureResponse(3, 4, ft, return_code=rc, data=b"\x01\x02"))
            if rc is not ReturnCode.E_SUCCESS:
                out.append(k.TunnellingFeatureResponse(3, 4, ft, return_code=rc, data=b""))
    out += [k.RoutingBusy(0, 20, 0), k.RoutingBusy(1, 65535, 0xFFFF), k.RoutingLostMessage(0, 1), k.RoutingLostMessage(1, 65535)]
    for st in SecureSessionStatusCode:
        out.append(k.SessionStatus(status=st))
    out += [k.SessionRequest(control_endpoint=hp[3], ecdh_client_public_key=bytes(range(32))), k.SessionResponse(0xABCD, bytes(range(32, 64)), bytes(range(16))),
            k.SessionAuthenticate(user_id=1, message_authentication_code=bytes(range(16))), k.TimerNotify(2**48 - 1, bytes(range(6)), b"\xAA\xBB", bytes(range(16)))]
    for ln in (8, 9, 25, 300):
        out.append(k.SecureWrapper(1, bytes(6), bytes(range(6)), b"\x00\x01", bytes((j * 3) % 256 for j in range(ln)), bytes(16)))
    for _ in range(n_random):
        ln = rnd.randrange(0, 60)
        out.append(k.TunnellingRequest(rnd.randrange(256), rnd.randrange(256), bytes(rnd.randrange(256) for _ in range(ln))))
    return out


def extra_raw():
    """frames the library cannot build itself: error ConnectResponses are 8 octets on the wire (no HPAI / CRD)"""
    from xknx.knxip import ErrorCode

    return [("ConnectResponse", bytes([6, 0x10, 2, 6, 0, 8, 0, e.value])) for e in ErrorCode if e is not ErrorCode.E_NO_ERROR]


def frames(rnd: random.Random, n_random: int = 40):
    """(class name, octets) of every corpus body inside a frame"""
    from xknx.knxip import KNXIPFrame

    res = []
    for b in bodies(rnd, n_random):
        try:
            res.append((type(b).__name__, KNXIPFrame.init_from_body(b).to_knx(), b))
        except Exception as ex:  # noqa: BLE001 - a body the library refuses to serialise is reported by C21
            res.append((type(b).__name__, None, (b, ex)))
    return res
