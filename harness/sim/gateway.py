"""Simulated KNXnet/IP tunnelling server + recorder for a real UDPTunnel / TCPTunnel under the virtual loop.

The simulator is policy driven: for each kind of client frame a plan (list of reaction codes, consumed in order,
default "ok") says how the server reacts.  Everything observable is appended to `self.ev` as trace events
(see DESIGN.md appendix A):  tx / rx (with virtual time in ms), up, state_cb, call/ret markers written by drivers.
"""
from __future__ import annotations

import asyncio

from ..vloop import ms

GW = ("10.0.0.2", 3671)


class GatewaySim:
    def __init__(self, loop, kind: str = "udp", auto_reconnect: bool = True, auto_reconnect_wait: int = 3,
                 tun_plan=(), connect_plan=(), hb_plan=(), disc_plan=(), late: float = 1.5, first_chan: int = 7,
                 route_back: bool = False):
        from xknx import XKNX
        from xknx.io import TCPTunnel, UDPTunnel

        self.loop, self.kind = loop, kind
        self.ev: list[dict] = []
        self.plans = {"tun": list(tun_plan), "connect": list(connect_plan), "hb": list(hb_plan), "disc": list(disc_plan)}
        self.late = late
        self.next_chan = first_chan
        self.chan = None  # channel of the connection the server believes is open
        self.last_tun_seq = None
        self.up: list[bytes] = []
        self.acks_seen: list[tuple[int, int]] = []
        self.n_conn = 0
        self.xknx = XKNX()
        self.states: dict[str, list[str]] = {"a": [], "b": []}
        for name in ("a", "b"):
            self.xknx.connection_manager.register_connection_state_changed_cb(
                lambda st, name=name: self._state_cb(name, st))
        if kind == "udp":
            self.tun = UDPTunnel(self.xknx, gateway_ip=GW[0], gateway_port=GW[1], local_ip="10.0.0.1",
                                 cemi_received_callback=self._up, auto_reconnect=auto_reconnect,
                                 auto_reconnect_wait=auto_reconnect_wait, route_back=route_back)
        else:
            self.tun = TCPTunnel(self.xknx, gateway_ip=GW[0], gateway_port=GW[1], cemi_received_callback=self._up,
                                 auto_reconnect=auto_reconnect, auto_reconnect_wait=auto_reconnect_wait)
        # several simulated gateways may share one loop (two tunnels in one process): each answers what its own tunnel sent
        prev = getattr(loop, "on_send", None)
        self._prev_on_send = prev if isinstance(getattr(prev, "__self__", None), GatewaySim) else None
        loop.on_send = self._on_send
        self.on_client_frame = None  # optional hook(body) -> True if handled

    # ------------------------------------------------------------------ recording
    def now(self) -> int:
        return ms(self.loop.time())

    def log(self, ev: str, **kw) -> None:
        d = {"ev": ev, "t": self.now(), "it": self.loop.iteration}
        d.update(kw)
        self.ev.append(d)

    def _up(self, raw: bytes) -> None:
        self.up.append(raw)
        self.log("up", cemi=raw[-1])

    def _state_cb(self, name, st) -> None:
        self.states[name].append(st.name)
        self.log("state_cb", cb=name, state=st.name)

    def snapshot(self) -> dict:
        """cheap scalar projections of implementation state (bound in trace specs when present)"""
        t = self.tun
        names = [getattr(tk.get_coro(), "__qualname__", "") for tk in asyncio.all_tasks(self.loop) if not tk.done()]
        return {
            "rtasks": sum(1 for n in names if n.endswith("_Tunnel._reconnect")),
            "hbtasks": sum(1 for n in names if n.endswith("ConnectionHeartbeat._run")),
            "txseq": getattr(t, "sequence_number", -1),
            "chan": -1 if getattr(t, "communication_channel", None) is None else t.communication_channel,
            "conn": 1 if self.xknx.connection_manager.connected.is_set() else 0,
        }

    # ------------------------------------------------------------------ server -> client
    def _endpoint(self):
        tr = self.tun.transport.transport
        return tr

    def deliver(self, body, delay: float = 0.0, note: str | None = None) -> None:
        from xknx.knxip import KNXIPFrame

        raw = KNXIPFrame.init_from_body(body).to_knx()
        self.deliver_raw(raw, delay, body)

    def deliver_raw(self, raw: bytes, delay: float = 0.0, body=None) -> None:
        def go():
            tr = self._endpoint()
            if tr is None or tr.is_closing():
                return  # a closed socket receives nothing
            if body is not None:
                self.log("rx", **self.describe(body))
            if self.kind == "udp":
                tr.deliver(raw, GW)
            else:
                tr.deliver(raw)

        if delay:
            self.loop.inject_later(delay, go)
        else:
            self.loop.inject(go)

    @staticmethod
    def describe(body) -> dict:
        d = {"kind": type(body).__name__}
        ch = getattr(body, "communication_channel_id", getattr(body, "communication_channel", None))
        d["chan"] = -1 if ch is None else ch
        d["seq"] = getattr(body, "sequence_counter", -1)
        st = getattr(body, "status_code", None)
        d["st"] = 0 if st is None else st.value
        raw = getattr(body, "raw_cemi", None)
        if raw:
            d["cemi"] = raw[-1]
        return d

    # ------------------------------------------------------------------ client -> server
    def _plan(self, which: str) -> str:
        p = self.plans[which]
        return p.pop(0) if p else "ok"

    def _on_send(self, tr, data: bytes, addr) -> None:
        from xknx.knxip import (
            HPAI, ConnectionStateRequest, ConnectionStateResponse, ConnectRequest, ConnectResponse,
            ConnectResponseData, DisconnectRequest, DisconnectResponse, ErrorCode, KNXIPFrame, TunnellingAck,
            TunnellingRequest,
        )
        from xknx.telegram import IndividualAddress

        if self._prev_on_send is not None and tr is not getattr(self.tun.transport, "transport", None):
            return self._prev_on_send(tr, data, addr)
        frame, _ = KNXIPFrame.from_knx(data)
        b = frame.body
        self.log("tx", **self.describe(b))
        if self.on_client_frame is not None and self.on_client_frame(b):
            return
        if isinstance(b, ConnectRequest):
            r = self._plan("connect")
            if r == "ok":
                self.n_conn += 1
                self.chan = self.next_chan
                self.next_chan += 1
                self.last_tun_seq = None
                proto = b.control_endpoint.protocol if hasattr(b, "control_endpoint") else None
                self.deliver(ConnectResponse(communication_channel=self.chan,
                                             data_endpoint=HPAI(GW[0], GW[1]) if self.kind == "udp" else HPAI(protocol=proto),
                                             crd=ConnectResponseData(individual_address=IndividualAddress("1.1.9"))))
            elif r == "err":
                self.deliver(ConnectResponse(status_code=ErrorCode.E_NO_MORE_CONNECTIONS))
            # "lost": nothing
        elif isinstance(b, DisconnectRequest):
            r = self._plan("disc")
            if b.communication_channel_id == self.chan:
                self.chan = None
            if r == "ok":
                self.deliver(DisconnectResponse(communication_channel_id=b.communication_channel_id))
        elif isinstance(b, ConnectionStateRequest):
            r = self._plan("hb")
            if r == "ok":
                self.deliver(ConnectionStateResponse(communication_channel_id=b.communication_channel_id))
            elif r == "fail":
                self.deliver(ConnectionStateResponse(communication_channel_id=b.communication_channel_id,
                                                     status_code=ErrorCode.E_CONNECTION_ID))
            elif r == "slow":
                self.deliver(ConnectionStateResponse(communication_channel_id=b.communication_channel_id), delay=5.0)
            # "none": nothing
        elif isinstance(b, TunnellingRequest):
            if self.kind != "udp":
                return
            r = self._plan("tun")
            c, s = b.communication_channel_id, b.sequence_counter

            def ack(chan=c, seq=s, code=ErrorCode.E_NO_ERROR):
                return TunnellingAck(communication_channel_id=chan, sequence_counter=seq, status_code=code)

            if r == "ok":
                self.deliver(ack())
            elif r == "late":
                self.deliver(ack(), delay=self.late)
            elif r == "slow":           # inside the time the client waits
                self.deliver(ack(), delay=0.3)
            elif r == "dup":
                self.deliver(ack())
                self.deliver(ack())
            elif r == "stale":
                if self.last_tun_seq is not None:
                    self.deliver(ack(seq=self.last_tun_seq))
            elif r == "err":
                self.deliver(ack(code=ErrorCode.E_CONNECTION_ID))
            elif r == "errunk":         # an error status outside the table of codes the library knows: still not a confirmation
                raw = bytearray(KNXIPFrame.init_from_body(ack()).to_knx())
                raw[-1] = 0x30 if s % 2 else 0xFF
                self.log("rx", kind="TunnellingAck", chan=c, seq=s, st=raw[-1])
                self.deliver_raw(bytes(raw))
            elif r == "wrongchan":
                self.deliver(ack(chan=99))
            elif r == "wrongseq":
                self.deliver(ack(seq=(s + 1) % 256))
            elif r == "disc":          # no acknowledgement: the server ends the tunnel while the request is pending
                self.server_disconnect(delay=0.3)
            # "lost": nothing
            self.last_tun_seq = s
        elif isinstance(b, TunnellingAck):
            self.acks_seen.append((b.communication_channel_id, b.sequence_counter))
        elif isinstance(b, DisconnectResponse):
            pass

    # ------------------------------------------------------------------ helpers for drivers
    def server_tunnelling_request(self, chan: int, seq: int, cemi_id: int, delay: float = 0.0) -> None:
        from xknx.knxip import TunnellingRequest

        raw = bytes([0x29, 0, 0xBC, 0xE0, 0x11, 0x01, 0x09, 0x01, 0x01, 0x00, 0x80, cemi_id & 0xFF])
        self.deliver(TunnellingRequest(communication_channel_id=chan, sequence_counter=seq, raw_cemi=raw), delay)

    def server_disconnect(self, chan=None, delay: float = 0.0) -> None:
        from xknx.knxip import HPAI, DisconnectRequest

        c = self.chan if chan is None else chan
        if c is None:
            c = 0
        if chan is None:
            self.chan = None
        self.deliver(DisconnectRequest(communication_channel_id=c, control_endpoint=HPAI(GW[0], GW[1])), delay)

    def quiesce(self) -> None:
        """stop background activity of the tunnel so the loop can be closed without warnings"""
        t = self.tun
        try:
            t.stop_heartbeat()
            if getattr(t, "_reconnect_task", None) is not None:
                t._reconnect_task.cancel()
            if hasattr(t, "_cancel_invalid_sequence_number_reconnect_schedule"):
                t._cancel_invalid_sequence_number_reconnect_schedule()
        except Exception:  # noqa: BLE001
            pass


def group_write_cemi(value: int = 1):
    from xknx.cemi import CEMIFrame, CEMILData, CEMIMessageCode
    from xknx.dpt import DPTBinary
    from xknx.telegram import GroupAddress, IndividualAddress, Telegram
    from xknx.telegram.apci import GroupValueWrite

    return CEMIFrame(code=CEMIMessageCode.L_DATA_REQ,
                     data=CEMILData.init_from_telegram(Telegram(GroupAddress("1/2/3"), payload=GroupValueWrite(DPTBinary(value))),
                                                       src_addr=IndividualAddress("1.1.9")))
