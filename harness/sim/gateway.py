"""Simulated KNXnet/IP tunnelling server + recorder for a real UDPTunnel / TCPTunnel under the virtual loop.

The simulator is policy driven: for each kind of client frame a plan (list of reaction codes, consumed in order,
default "ok") says how the server reacts.  Everything observable is appended to `self.ev` as trace events
(see DESIGN.md appendix A):  tx / rx (with virtual time in ms), up, state_cb, call/ret markers written by drivers.
"""
from __future__ import annotations

import asyncio

from ..vloop import ms

GW = ("10.0.0.2", 3671)


class GatewaySim:
    def __init__(self, loop, kind: str = "udp", auto_reconnect: bool = True, auto_reconnect_wait: int = 3,
                 tun_plan=(), connect_plan=(), hb_plan=(), disc_plan=(), late: float = 1.5, first_chan: int = 7,
                 route_back: bool = False):
        from xknx import XKNX
        from xknx.io import TCPTunnel, UDPTunnel
        from xknx.io.tunnel import SecureTunnel

        self.loop, self.kind = loop, kind
        self.ev: list[dict] = []
        self.plans = {"tun": list(tun_plan), "connect": list(connect_plan), "hb": list(hb_plan), "disc": list(disc_plan), "session": [], "auth": []}
        self.late = late
        self.next_chan = first_chan
        self.chan = None  # channel of the connection the server believes is open
        self.last_tun_seq = None
        self.up: list[bytes] = []
        self.acks_seen: list[tuple[int, int]] = []
        self.n_conn = 0
        self.xknx = XKNX()
        self.states: dict[str, list[str]] = {"a": [], "b": []}
        for name in ("a", "b"):
            self.xknx.connection_manager.register_connection_state_changed_cb(
                lambda st, name=name: self._state_cb(name, st))
        if kind == "udp":
            self.tun = UDPTunnel(self.xknx, gateway_ip=GW[0], gateway_port=GW[1], local_ip="10.0.0.1",
                                 cemi_received_callback=self._up, auto_reconnect=auto_reconnect,
                                 auto_reconnect_wait=auto_reconnect_wait, route_back=route_back)
        elif kind == "secure":
            # KNX IP Secure tunnelling: the same server behind a secure session (handshake answered with the library's primitives -
            # their octets are the subject of C28; the user password key is derived once per process)
            _memoise_pbkdf2()
            self.srv = None          # the server's side of the current secure session
            self.tun = SecureTunnel(self.xknx, gateway_ip=GW[0], gateway_port=GW[1], cemi_received_callback=self._up, user_id=2,
                                    user_password="pw", auto_reconnect=auto_reconnect, auto_reconnect_wait=auto_reconnect_wait)
        else:
            self.tun = TCPTunnel(self.xknx, gateway_ip=GW[0], gateway_port=GW[1], cemi_received_callback=self._up,
                                 auto_reconnect=auto_reconnect, auto_reconnect_wait=auto_reconnect_wait)
        # several simulated gateways may share one loop (two tunnels in one process): each answers what its own tunnel sent
        prev = getattr(loop, "on_send", None)
        self._prev_on_send = prev if isinstance(getattr(prev, "__self__", None), GatewaySim) else None
        loop.on_send = self._on_send
        self.on_client_frame = None  # optional hook(body) -> True if handled
        self.odd_cemi = False        # server_tunnelling_request: every fourth frame carries a cEMI octet string the library cannot parse

    # ------------------------------------------------------------------ recording
    def now(self) -> int:
        return ms(self.loop.time())

    def log(self, ev: str, **kw) -> None:
        d = {"ev": ev, "t": self.now(), "it": self.loop.iteration}
        d.update(kw)
        self.ev.append(d)

    def _up(self, raw: bytes) -> None:
        self.up.append(raw)
        self.log("up", cemi=raw[-1])

    def _state_cb(self, name, st) -> None:
        self.states[name].append(st.name)
        self.log("state_cb", cb=name, state=st.name)

    def snapshot(self) -> dict:
        """cheap scalar projections of implementation state (bound in trace specs when present)"""
        t = self.tun
        names = [getattr(tk.get_coro(), "__qualname__", "") for tk in asyncio.all_tasks(self.loop) if not tk.done()]
        return {
            "rtasks": sum(1 for n in names if n.endswith("_Tunnel._reconnect")),
            "hbtasks": sum(1 for n in names if n.endswith("ConnectionHeartbeat._run")),
            "txseq": getattr(t, "sequence_number", -1),
            "chan": -1 if getattr(t, "communication_channel", None) is None else t.communication_channel,
            "conn": 1 if self.xknx.connection_manager.connected.is_set() else 0,
        }

    # ------------------------------------------------------------------ server -> client
    def _endpoint(self):
        tr = self.tun.transport.transport
        return tr

    def deliver(self, body, delay: float = 0.0, note: str | None = None) -> None:
        from xknx.knxip import KNXIPFrame

        raw = KNXIPFrame.init_from_body(body).to_knx()
        self.deliver_raw(raw, delay, body)

    def deliver_raw(self, raw: bytes, delay: float = 0.0, body=None) -> None:
        def go():
            tr = self._endpoint()
            if tr is None or tr.is_closing():
                return  # a closed socket receives nothing
            data = raw
            if self.kind == "secure" and not (body is not None and type(body).__name__ == "SessionResponse"):
                if self.srv is None:
                    return  # no session: nothing can be sent
                from xknx.knxip import KNXIPFrame  # noqa: PLC0415

                self.srv.seq += 1
                data = self.srv.encrypt_frame(KNXIPFrame.from_knx(raw)[0]).to_knx()
            if body is not None:
                self.log("rx", **self.describe(body))
            if self.kind == "udp":
                tr.deliver(data, GW)
            else:
                tr.deliver(data)

        if delay:
            self.loop.inject_later(delay, go)
        else:
            self.loop.inject(go)

    @staticmethod
    def describe(body) -> dict:
        d = {"kind": type(body).__name__}
        ch = getattr(body, "communication_channel_id", getattr(body, "communication_channel", None))
        d["chan"] = -1 if ch is None else ch
        d["seq"] = getattr(body, "sequence_counter", -1)
        st = getattr(body, "status_code", getattr(body, "status", None))
        d["st"] = 0 if st is None else st.value
        raw = getattr(body, "raw_cemi", None)
        if raw:
            d["cemi"] = raw[-1]
        return d

    # ------------------------------------------------------------------ client -> server
    def _plan(self, which: str) -> str:
        p = self.plans[which]
        return p.pop(0) if p else "ok"

    def _on_send(self, tr, data: bytes, addr) -> None:
        from xknx.knxip import (
            HPAI, ConnectionStateRequest, ConnectionStateResponse, ConnectRequest, ConnectResponse,
            ConnectResponseData, DisconnectRequest, DisconnectResponse, ErrorCode, KNXIPFrame, TunnellingAck,
            TunnellingRequest,
        )
        from xknx.telegram import IndividualAddress

        if self._prev_on_send is not None and tr is not getattr(self.tun.transport, "transport", None):
            return self._prev_on_send(tr, data, addr)
        frame, _ = KNXIPFrame.from_knx(data)
        b = frame.body
        if self.kind == "secure":
            b = self._secure_layer(frame)
            if b is None:
                return
        self.log("tx", **self.describe(b))
        if self.on_client_frame is not None and self.on_client_frame(b):
            return
        if isinstance(b, ConnectRequest):
            r = self._plan("connect")
            if r == "ok":
                self.n_conn += 1
                self.chan = self.next_chan
                self.next_chan += 1
                self.last_tun_seq = None
                proto = b.control_endpoint.protocol if hasattr(b, "control_endpoint") else None
                self.deliver(ConnectResponse(communication_channel=self.chan,
                                             data_endpoint=HPAI(GW[0], GW[1]) if self.kind == "udp" else HPAI(protocol=proto),
                                             crd=ConnectResponseData(individual_address=IndividualAddress("1.1.9"))))
            elif r == "err":
                self.deliver(ConnectResponse(status_code=ErrorCode.E_NO_MORE_CONNECTIONS))
            # "lost": nothing
        elif isinstance(b, DisconnectRequest):
            r = self._plan("disc")
            if b.communication_channel_id == self.chan:
                self.chan = None
            if r == "ok":
                self.deliver(DisconnectResponse(communication_channel_id=b.communication_channel_id))
        elif isinstance(b, ConnectionStateRequest):
            r = self._plan("hb")
            if r == "ok":
                self.deliver(ConnectionStateResponse(communication_channel_id=b.communication_channel_id))
            elif r == "fail":
                self.deliver(ConnectionStateResponse(communication_channel_id=b.communication_channel_id,
                                                     status_code=ErrorCode.E_CONNECTION_ID))
            elif r == "slow":
                self.deliver(ConnectionStateResponse(communication_channel_id=b.communication_channel_id), delay=5.0)
            # "none": nothing
        elif isinstance(b, TunnellingRequest):
            if self.kind != "udp":
                return
            r = self._plan("tun")
            c, s = b.communication_channel_id, b.sequence_counter

            def ack(chan=c, seq=s, code=ErrorCode.E_NO_ERROR):
                return TunnellingAck(communication_channel_id=chan, sequence_counter=seq, status_code=code)

            if r == "ok":
                self.deliver(ack())
            elif r == "late":
                self.deliver(ack(), delay=self.late)
            elif r == "slow":           # inside the time the client waits
                self.deliver(ack(), delay=0.3)
            elif r == "dup":
                self.deliver(ack())
                self.deliver(ack())
            elif r == "stale":
                if self.last_tun_seq is not None:
                    self.deliver(ack(seq=self.last_tun_seq))
            elif r == "err":
                self.deliver(ack(code=ErrorCode.E_CONNECTION_ID))
            elif r == "errunk":         # an error status outside the table of codes the library knows: still not a confirmation
                raw = bytearray(KNXIPFrame.init_from_body(ack()).to_knx())
                raw[-1] = 0x30 if s % 2 else 0xFF
                self.log("rx", kind="TunnellingAck", chan=c, seq=s, st=raw[-1])
                self.deliver_raw(bytes(raw))
            elif r == "wrongchan":
                self.deliver(ack(chan=99))
            elif r == "wrongseq":
                self.deliver(ack(seq=(s + 1) % 256))
            elif r == "disc":          # no acknowledgement: the server ends the tunnel while the request is pending
                self.server_disconnect(delay=0.3)
            # "lost": nothing
            self.last_tun_seq = s
        elif isinstance(b, TunnellingAck):
            self.acks_seen.append((b.communication_channel_id, b.sequence_counter))
        elif isinstance(b, DisconnectResponse):
            pass

    def _secure_layer(self, frame):
        """the secure session under the tunnel: answers the handshake, unwraps everything else; returns the inner body or None"""
        from cryptography.hazmat.primitives import serialization
        from cryptography.hazmat.primitives.asymmetric.x25519 import X25519PrivateKey, X25519PublicKey
        from xknx.io.ip_secure import _IPSecureTransportLayer
        from xknx.knxip import SecureWrapper, SessionAuthenticate, SessionRequest, SessionResponse, SessionStatus
        from xknx.knxip.knxip_enum import SecureSessionStatusCode
        from xknx.secure.util import sha256_hash

        b = frame.body
        if isinstance(b, SessionRequest):
            self.log("tx", **self.describe(b))
            r = self._plan("session")
            if r != "ok":
                return None                                  # "lost": no answer

            class Srv(_IPSecureTransportLayer):
                def __init__(self, key, sid):
                    self._key, self.session_id, self.seq = key, sid, -1

                def get_sequence_information(self):
                    return self.seq.to_bytes(6, "big")

                def get_message_tag(self):
                    return bytes(2)

            priv = X25519PrivateKey.generate()
            pub = priv.public_key().public_bytes(serialization.Encoding.Raw, serialization.PublicFormat.Raw)
            key = sha256_hash(priv.exchange(X25519PublicKey.from_public_bytes(b.ecdh_client_public_key)))[:16]
            self.n_sess = getattr(self, "n_sess", 0) + 1
            self.srv = Srv(key, 0x20 + self.n_sess)
            self.deliver(SessionResponse(secure_session_id=self.srv.session_id, ecdh_server_public_key=pub, message_authentication_code=bytes(16)))
            return None
        if not isinstance(b, SecureWrapper) or self.srv is None:
            self.log("tx", **self.describe(b))              # a plain frame where a wrapped one is due: recorded, not answered
            return None
        try:
            inner = self.srv.decrypt_frame(frame).body
        except Exception:  # noqa: BLE001 - e.g. a frame of a previous session
            self.log("tx", kind="undecryptable", chan=-1, seq=-1, st=0)
            return None
        if isinstance(inner, SessionAuthenticate):
            self.log("tx", **self.describe(inner))
            r = self._plan("auth")
            if r == "ok":
                self.deliver(SessionStatus(status=SecureSessionStatusCode.STATUS_AUTHENTICATION_SUCCESS))
            elif r == "fail":
                self.deliver(SessionStatus(status=SecureSessionStatusCode.STATUS_AUTHENTICATION_FAILED))
            return None
        if isinstance(inner, SessionStatus):                # keep-alive, or the client closes the session
            self.log("tx", **self.describe(inner))
            if inner.status == SecureSessionStatusCode.STATUS_CLOSE:
                self.srv = None
            return None
        return inner

    def server_session_status(self, status: str = "STATUS_CLOSE", then_close: bool = False) -> None:
        """the server ends the secure session (and, as real devices do, may close the TCP connection right after)"""
        from xknx.knxip import SessionStatus
        from xknx.knxip.knxip_enum import SecureSessionStatusCode

        self.deliver(SessionStatus(status=SecureSessionStatusCode[status]))
        self.chan = None

        def end():
            self.srv = None
            if then_close:
                tr = self._endpoint()
                if tr is not None and not tr.is_closing():
                    tr.lose(None)

        self.loop.inject(end)

    # ------------------------------------------------------------------ helpers for drivers
    def server_tunnelling_request(self, chan: int, seq: int, cemi_id: int, delay: float = 0.0) -> None:
        from xknx.knxip import TunnellingRequest

        raw = bytes([0x29, 0, 0xBC, 0xE0, 0x11, 0x01, 0x09, 0x01, 0x01, 0x00, 0x80, cemi_id & 0xFF])
        if self.odd_cemi and cemi_id % 4 == 3:      # a message code the library does not know, a single octet: still a frame of the tunnel
            raw = bytes([0x5A, 0, cemi_id & 0xFF]) if cemi_id % 8 == 3 else bytes([cemi_id & 0xFF])
        self.deliver(TunnellingRequest(communication_channel_id=chan, sequence_counter=seq, raw_cemi=raw), delay)

    def server_disconnect(self, chan=None, delay: float = 0.0) -> None:
        from xknx.knxip import HPAI, DisconnectRequest

        c = self.chan if chan is None else chan
        if c is None:
            c = 0
        if chan is None:
            self.chan = None
        self.deliver(DisconnectRequest(communication_channel_id=c, control_endpoint=HPAI(GW[0], GW[1])), delay)

    def quiesce(self) -> None:
        """stop background activity of the tunnel so the loop can be closed without warnings"""
        t = self.tun
        try:
            t.stop_heartbeat()
            if getattr(t, "_reconnect_task", None) is not None:
                t._reconnect_task.cancel()
            if hasattr(t, "_cancel_invalid_sequence_number_reconnect_schedule"):
                t._cancel_invalid_sequence_number_reconnect_schedule()
        except Exception:  # noqa: BLE001
            pass


_PBKDF2_MEMO = []


def _memoise_pbkdf2():
    """SecureSession derives the user password key with PBKDF2 (65536 rounds) in its constructor: once per password here"""
    if _PBKDF2_MEMO:
        return
    import functools

    import xknx.io.ip_secure as ips

    ips.derive_user_password = functools.lru_cache(maxsize=None)(ips.derive_user_password)
    ips.derive_device_authentication_password = functools.lru_cache(maxsize=None)(ips.derive_device_authentication_password)
    _PBKDF2_MEMO.append(1)


def group_write_cemi(value: int = 1):
    from xknx.cemi import CEMIFrame, CEMILData, CEMIMessageCode
    from xknx.dpt import DPTBinary
    from xknx.telegram import GroupAddress, IndividualAddress, Telegram
    from xknx.telegram.apci import GroupValueWrite

    return CEMIFrame(code=CEMIMessageCode.L_DATA_REQ,
                     data=CEMILData.init_from_telegram(Telegram(GroupAddress("1/2/3"), payload=GroupValueWrite(DPTBinary(value))),
                                                       src_addr=IndividualAddress("1.1.9")))
