"""Common machinery of the checks: context, verdict bookkeeping, evidence, known findings, replays.

Every driver receives a `Check` object.  Verdicts on implementation behaviour come from TLC (see tlc.py);
this module only does bookkeeping:  which cases were explored, which were rejected, whether a rejection
matches an *open* entry of known_findings.json, and what goes into evidence/<id>.json.
"""
from __future__ import annotations

import hashlib
import json
import os
import shutil
import sys
import tempfile
import time
from pathlib import Path

VERIF = Path(__file__).resolve().parent.parent
REPO = Path(os.environ.get("VERIF_REPO", "/repo"))
SPEC = VERIF / "spec"
GUARD = "XKNX_VERIF"


class MachineryError(Exception):
    """The check itself failed (TLC crash, unparsable output, vacuous model): exit 2, never a verdict."""


def use_repo() -> None:
    """Make `import xknx` resolve to the working tree under test (always rebuilt from source: pure Python)."""
    os.environ.setdefault("PYTHONDONTWRITEBYTECODE", "1")
    sys.dont_write_bytecode = True
    p = str(REPO)
    if p in sys.path:
        sys.path.remove(p)
    sys.path.insert(0, p)
    os.environ[GUARD] = "1"
    import logging

    logging.disable(logging.CRITICAL)


def canon(obj) -> str:
    return json.dumps(obj, sort_keys=True, default=str, separators=(",", ":"))


class Check:
    def __init__(self, pid: str, tier: str, seed: int, level: str):
        self.pid, self.tier, self.seed, self.level = pid, tier, seed, level
        self.t0 = time.time()
        self.cov: dict = {"samples": []}
        self.assumptions: list[str] = []
        self.violations: list[dict] = []
        self.known_hits: dict[str, int] = {}
        self.notes: list[str] = []
        self.models: list[dict] = []
        self.workdir = Path(tempfile.mkdtemp(prefix=f"verif-{pid}-"))
        kf = json.loads((VERIF / "known_findings.json").read_text())
        self.known = [e for e in kf["findings"] if e["property"] == pid and e["status"] == "open"]

    # ------------------------------------------------------------------ coverage bookkeeping
    def add(self, **kw) -> None:
        """Add to integer counters / extend lists of the coverage record."""
        for k, v in kw.items():
            if isinstance(v, bool) or isinstance(v, str):
                self.cov[k] = v
            elif isinstance(v, (int, float)):
                self.cov[k] = self.cov.get(k, 0) + v
            elif isinstance(v, list):
                self.cov.setdefault(k, []).extend(v)
            elif isinstance(v, dict):
                self.cov.setdefault(k, {}).update(v)
            else:
                self.cov[k] = v

    def sample(self, obj, limit: int = 6) -> None:
        if len(self.cov["samples"]) < limit:
            self.cov["samples"].append(obj)

    def assume(self, text: str) -> None:
        if text not in self.assumptions:
            self.assumptions.append(text)

    def model(self, res) -> None:
        """Record an exhaustive TLC run (tlc.MCResult)."""
        self.add(states=res.distinct, transitions=res.generated)
        self.models.append(
            {"module": res.module, "cfg": res.cfg, "distinct": res.distinct, "generated": res.generated,
             "depth": res.depth, "wall_s": round(res.wall, 2), "actions": res.actions}
        )

    # ------------------------------------------------------------------ verdicts
    def known_match(self, key: dict):
        for e in self.known:
            m = e["match"]
            if all(key.get(k) == v if not isinstance(v, list) else key.get(k) in v for k, v in m.items()):
                return e
        return None

    def violation(self, key: dict, what: str, replay) -> bool:
        """Report one rejected case.  `key` is the canonical description of the failing case (abstract case +
        outcome class); it is compared with the open known findings.  Returns True if it is a new violation."""
        e = self.known_match(key)
        if e is not None:
            self.known_hits[e["id"]] = self.known_hits.get(e["id"], 0) + 1
            return False
        digest = hashlib.sha1(canon(key).encode()).hexdigest()[:12]
        d = VERIF / "replays" / self.pid
        d.mkdir(parents=True, exist_ok=True)
        path = d / f"{digest}.json"
        if all(v["path"] != str(path) for v in self.violations):
            path.write_text(json.dumps({"property": self.pid, "key": key, "what": what, "replay": replay},
                                       indent=1, default=str))
            self.violations.append({"path": str(path), "what": what, "key": key})
        return True

    # ------------------------------------------------------------------ finish
    def finish(self) -> int:
        wall = time.time() - self.t0
        for e in self.known:
            if e["id"] in self.known_hits:
                print(f"KNOWN-FINDING: property={self.pid} {e['what']} (cases this run: {self.known_hits[e['id']]})")
        shown = 0
        for v in self.violations:
            if shown < 20:
                print(f"VIOLATION property={self.pid} replay={v['path']}")
                print(f"  what: {v['what']}")
            shown += 1
        cov = dict(self.cov)
        if self.models:
            cov["models"] = self.models
        if self.notes:
            cov["notes"] = self.notes
        cov["known_finding_cases"] = dict(self.known_hits)
        ev = {
            "property_id": self.pid, "tier": self.tier, "seed": self.seed, "level": self.level,
            "coverage": cov, "assumptions": self.assumptions, "wall_s": round(wall, 2),
            "violations": len(self.violations),
        }
        if not os.environ.get("VERIF_NO_EVIDENCE"):     # (mutation experiments against a scratch copy leave the evidence of /repo alone)
            (VERIF / "evidence").mkdir(exist_ok=True)
            (VERIF / "evidence" / f"{self.pid}.json").write_text(json.dumps(ev, indent=1, default=str) + "\n")
        shutil.rmtree(self.workdir, ignore_errors=True)
        status = "VIOLATED" if self.violations else "held"
        print(f"[{self.pid}] {status}: tier={self.tier} seed={self.seed} wall={wall:.1f}s "
              + " ".join(f"{k}={v}" for k, v in cov.items() if isinstance(v, (int, bool)) and not isinstance(v, dict)))
        return 1 if self.violations else 0
