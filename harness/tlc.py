"""Running TLC: exhaustive model checking, simulation, batched trace validation, constant-level judging.

All verdicts about implementation behaviour are produced here by TLC:
  * validate():  a batch of recorded implementation traces is replayed through a `*_Trace` module that reuses the
                 actions of the specification;  TLC reports, per trace, whether some behaviour of the spec explains it.
  * judge():     recorded cases (inputs + implementation results) are judged by constant-level TLA+ reference
                 definitions / laws (`ASSUME PrintT(<<"RESULT", n, Bad>>)`).
  * mc():        exhaustive model checking of a module (design side).
"""
from __future__ import annotations

import json
import os
import re
import shutil
import subprocess
import time
from concurrent.futures import ThreadPoolExecutor
from dataclasses import dataclass, field
from pathlib import Path

from . import tlaval
from .core import SPEC, MachineryError

JAR = "/opt/veriftools/tla/tla2tools.jar:/opt/veriftools/tla/CommunityModules-deps.jar"
LIBS = ":".join(str(p) for p in sorted(SPEC.iterdir()) if p.is_dir()) if SPEC.exists() else ""
NCPU = os.cpu_count() or 4


def _java(xmx: str, extra_props=(), tmp=None):
    libs = ":".join(str(p) for p in sorted(SPEC.iterdir()) if p.is_dir())
    # TLC leaves an empty tlc-<n> directory in java.io.tmpdir on every start: keep it inside the check's own scratch directory
    tmpprop = [f"-Djava.io.tmpdir={tmp}"] if tmp else []
    return ["java", "-XX:+UseParallelGC", f"-Xmx{xmx}", "-Xss64m", f"-DTLA-Library={libs}", *tmpprop, *extra_props,
            "-cp", JAR, "tlc2.TLC"]


def _find(module: str) -> Path:
    """module: 'io/SeqCounter_MC' (relative to spec/, without .tla)"""
    p = SPEC / (module + ".tla")
    if not p.exists():
        raise MachineryError(f"no such module {p}")
    return p


@dataclass
class MCResult:
    module: str
    cfg: str
    ok: bool
    generated: int
    distinct: int
    depth: int
    wall: float
    actions: dict
    out: str
    error: str = ""


_STATS = re.compile(r"(\d+) states generated, (\d+) distinct states found, (\d+) states left on queue")
_DEPTH = re.compile(r"The depth of the complete state graph search is (\d+)")
_COV = re.compile(r"^<(\w+) line \d+, col \d+ to line \d+, col \d+ of module (\w+)>: (\d+):(\d+)", re.M)


def mc(ck, module: str, cfg: str | None = None, workers: int | None = None, timeout: int = 900, xmx: str = "12g",
       expect_error: bool = False, coverage: bool = True, record: bool = True, env: dict | None = None,
       require_actions: bool = True) -> MCResult:
    """Exhaustive run of TLC on spec/<module>.tla with spec/<cfg or module>.cfg."""
    mod = _find(module)
    cfgp = SPEC / ((cfg or module) + ".cfg")
    meta = ck.workdir / ("meta-" + mod.stem + "-" + cfgp.stem)
    cmd = _java(xmx, tmp=ck.workdir) + ["-workers", str(workers or NCPU), "-metadir", str(meta), "-noGenerateSpecTE",
                        "-config", str(cfgp)]
    if coverage:
        cmd += ["-coverage", "1"]
    cmd += [str(mod)]
    t0 = time.time()
    e = dict(os.environ)
    e.update(env or {})
    try:
        p = subprocess.run(cmd, capture_output=True, text=True, timeout=timeout, cwd=str(ck.workdir), env=e)
    except subprocess.TimeoutExpired as ex:
        raise MachineryError(f"TLC timeout on {module}") from ex
    finally:
        shutil.rmtree(meta, ignore_errors=True)
    out = p.stdout + p.stderr
    wall = time.time() - t0
    st = _STATS.findall(out)
    dp = _DEPTH.findall(out)
    ok = "Model checking completed. No error has been found." in out
    actions: dict = {}
    for name, m, d, g in _COV.findall(out):
        a = actions.setdefault(name, [0, 0])
        a[0] = max(a[0], int(d))
        a[1] = max(a[1], int(g))
    if not st and expect_error and re.search(r"Error: .* is violated by the initial state", out):
        st = [("0", "0")]          # a counterexample among the initial states: TLC prints no statistics
    if not st:
        raise MachineryError(f"TLC produced no statistics for {module}:\n{out[-3000:]}")
    res = MCResult(module, cfgp.name, ok, int(st[-1][0]), int(st[-1][1]), int(dp[-1]) if dp else 0, wall, actions, out)
    if not ok:
        m = re.search(r"Error: (.*)", out)
        res.error = m.group(1) if m else "unknown"
        if not expect_error:
            raise MachineryError(f"model {module}/{cfgp.name} does not satisfy its properties: {res.error}\n{out[-4000:]}")
    elif expect_error:
        raise MachineryError(f"model {module}/{cfgp.name}: expected a counterexample (deviation config) but none found")
    if ok and coverage and require_actions:
        dead = [a for a, (d, g) in actions.items() if g == 0 and a not in ("Init",) and not a.startswith("Inv")]
        if dead:
            raise MachineryError(f"vacuous model {module}: actions never taken: {dead}")
    if record and ok:
        ck.model(res)
    return res


def simulate(ck, module: str, cfg: str, num: int, depth: int, seed: int, timeout: int = 300) -> list[list[dict]]:
    """tlc -simulate: returns behaviours as lists of states (dict var -> parsed value)."""
    mod = _find(module)
    cfgp = SPEC / (cfg + ".cfg")
    d = ck.workdir / f"sim-{mod.stem}-{seed}"
    d.mkdir(parents=True, exist_ok=True)
    meta = ck.workdir / ("meta-sim-" + mod.stem)
    cmd = _java("4g", tmp=ck.workdir) + ["-simulate", f"file={d}/tr,num={num}", "-depth", str(depth), "-workers", "1", "-seed",
                         str(seed), "-metadir", str(meta), "-noGenerateSpecTE", "-config", str(cfgp), str(mod)]
    try:
        subprocess.run(cmd, capture_output=True, text=True, timeout=timeout, cwd=str(ck.workdir))
    except subprocess.TimeoutExpired:
        pass
    finally:
        shutil.rmtree(meta, ignore_errors=True)
    behs = []
    for f in sorted(d.glob("tr_*")):
        behs.append(parse_sim_file(f.read_text()))
    shutil.rmtree(d, ignore_errors=True)
    return behs


_STATE = re.compile(r"^STATE_\d+ ==\s*$", re.M)


def parse_sim_file(text: str) -> list[dict]:
    parts = _STATE.split(text)[1:]
    states = []
    for part in parts:
        body = part.split("\n\n")[0]
        st = {}
        for m in re.finditer(r"/\\ (\w+) = (.*?)(?=\n/\\ |\Z)", body, re.S):
            try:
                st[m.group(1)] = tlaval.parse(m.group(2).strip())
            except Exception:  # noqa: BLE001
                st[m.group(1)] = m.group(2).strip()
        states.append(st)
    return states


# --------------------------------------------------------------------------------------------- sharded batch runs
@dataclass
class BatchResult:
    total: int
    bad: dict = field(default_factory=dict)  # global index (0-based) -> info (max l reached / reason)
    states: int = 0
    wall: float = 0.0
    out: str = ""

    @property
    def accepted(self) -> int:
        return self.total - len(self.bad)


def _run_shard(module: Path, cfgp: Path, items: list, shard_no: int, workdir: Path, env: dict, timeout: int,
               xmx: str):
    f = workdir / f"{module.stem}-shard{shard_no}.ndjson"
    with f.open("w") as fh:
        for it in items:
            fh.write(json.dumps(it, separators=(",", ":")) + "\n")
    meta = workdir / f"meta-{module.stem}-{shard_no}"
    e = dict(os.environ)
    e.update(env)
    e["TRACE_FILE"] = str(f)
    cmd = _java(xmx, tmp=workdir) + ["-workers", "1", "-metadir", str(meta), "-noGenerateSpecTE", "-config", str(cfgp), str(module)]
    try:
        p = subprocess.run(cmd, capture_output=True, text=True, timeout=timeout, cwd=str(workdir), env=e)
        out = p.stdout + p.stderr
    except subprocess.TimeoutExpired as ex:
        out = "TIMEOUT " + str(ex)
    finally:
        shutil.rmtree(meta, ignore_errors=True)
        try:
            f.unlink()
        except OSError:
            pass
    return out


def batch(ck, module: str, items: list, cfg: str | None = None, env: dict | None = None, shards: int | None = None,
          timeout: int = 900, xmx: str = "3g", min_per_shard: int = 200) -> BatchResult:
    """Run `items` (traces or cases, JSON-serialisable) through spec/<module>.tla.  The module reads its shard from
    IOEnv.TRACE_FILE (ndjson, one item per line) and must PrintT(<<"RESULT", n, bad>>) where `bad` is a function
    / set of 1-based indices of rejected items (function value = diagnostic, e.g. highest event index reached)."""
    mod = _find(module)
    cfgp = SPEC / ((cfg or module) + ".cfg")
    n = len(items)
    res = BatchResult(total=n)
    if n == 0:
        return res
    k = shards or max(1, min(NCPU, n // min_per_shard if n >= min_per_shard else 1))
    bounds = [(i * n // k, (i + 1) * n // k) for i in range(k)]
    t0 = time.time()
    with ThreadPoolExecutor(max_workers=NCPU) as ex:
        futs = [ex.submit(_run_shard, mod, cfgp, items[a:b], i, ck.workdir, env or {}, timeout, xmx)
                for i, (a, b) in enumerate(bounds) if b > a]
        outs = [f.result() for f in futs]
    for (a, b), out in zip([bb for bb in bounds if bb[1] > bb[0]], outs):
        r = tlaval.extract(out, "RESULT")
        if not r:
            raise MachineryError(f"TLC gave no RESULT for {module} shard [{a},{b}):\n{out[-4000:]}")
        r = r[-1]
        if r[1] != b - a:
            raise MachineryError(f"{module}: shard size mismatch {r[1]} != {b - a}")
        badv = r[2]
        if isinstance(badv, dict):
            for i, info in badv.items():
                res.bad[a + int(i) - 1] = info
        else:
            for e in badv:
                if isinstance(e, list):
                    res.bad[a + int(e[0]) - 1] = e[1:] if len(e) > 2 else e[1]
                else:
                    res.bad[a + int(e) - 1] = None
        st = _STATS.findall(out)
        if st:
            res.states += int(st[-1][1])
    res.wall = time.time() - t0
    res.out = outs[0]
    return res


def judge(ck, module: str, cases: list, key=lambda c: c, what=lambda c: str(c), **kw) -> BatchResult:
    """Constant-level judging of recorded cases by the TLA+ reference/laws of `module`; every rejected case becomes a
    violation (or a hit of an open known finding) through ck.violation(key(case), what(case), case)."""
    res = batch(ck, module, cases, **kw)
    for idx in sorted(res.bad):
        c = cases[idx]
        ck.violation(key(c), what(c), c)
    ck.add(evaluations=len(cases))
    return res


def sany(path: Path) -> tuple[bool, str]:
    libs = ":".join(str(p) for p in sorted(SPEC.iterdir()) if p.is_dir())
    p = subprocess.run(["java", f"-DTLA-Library={libs}", "-cp", JAR, "tla2sany.SANY", str(path)], capture_output=True,
                       text=True, cwd=str(path.parent))
    out = p.stdout + p.stderr
    return ("Semantic errors" not in out and "*** Errors" not in out and "Fatal" not in out and "Abort" not in out
            and p.returncode == 0), out
