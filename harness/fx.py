"""XKNX fixture with a mocked interface that records outgoing cEMI frames and confirms them (virtual loop)."""
from __future__ import annotations

import asyncio
from unittest.mock import AsyncMock, Mock, patch


def make_xknx(loop, send_delay: float = 0.0, confirm: bool = True, **kw):
    from xknx import XKNX

    m = Mock()
    m.start = AsyncMock()
    m.stop = AsyncMock()
    with patch("xknx.xknx.knx_interface_factory", return_value=m):
        xknx = XKNX(**kw)
    sent = []

    async def send_cemi(cemi):
        if send_delay:
            await asyncio.sleep(send_delay)
        sent.append((round(loop.time(), 3), cemi))
        if confirm:
            xknx.cemi_handler._l_data_confirmation_event.set()

    m.send_cemi = send_cemi
    return xknx, sent


async def start_xknx(xknx):
    from xknx.core import XknxConnectionState

    xknx.task_registry.start()
    await xknx.telegram_queue.start()
    xknx.state_updater.start()
    xknx.devices.async_start_device_tasks()
    xknx.started.set()
    xknx.connection_manager.connection_state_changed(XknxConnectionState.CONNECTED)


async def stop_xknx(xknx):
    xknx.task_registry.stop()
    xknx.state_updater.stop()
    await xknx.telegram_queue.stop()
    xknx.started.clear()
