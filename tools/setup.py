#!/venv/bin/python
"""setup_cmd: offline; creates output directories and syntax-checks every TLA+ module with SANY."""
import sys
from concurrent.futures import ThreadPoolExecutor
from pathlib import Path

ROOT = Path(__file__).resolve().parent.parent
sys.path.insert(0, str(ROOT))
from harness import tlc  # noqa: E402

(ROOT / "evidence").mkdir(exist_ok=True)
(ROOT / "replays").mkdir(exist_ok=True)
mods = sorted((ROOT / "spec").rglob("*.tla"))
with ThreadPoolExecutor(max_workers=16) as ex:
    res = list(ex.map(tlc.sany, mods))
bad = [(m, out) for m, (ok, out) in zip(mods, res) if not ok]
for m, out in bad:
    print("SANY FAILED", m)
    print(out[-1500:])
print(f"setup: {len(mods)} TLA+ modules parsed, {len(bad)} failed")
sys.exit(1 if bad else 0)
