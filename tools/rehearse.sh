#!/bin/bash
# fresh-restore rehearsal: setup_cmd, then every quick_cmd from MANIFEST.json once
cd /verif
export CARGO_NET_OFFLINE=true GOPROXY=off PIP_NO_INDEX=1
python3 - <<'P' > /root/cmds.txt
import json
m=json.load(open('/verif/MANIFEST.json'))
print(m['setup_cmd'])
for c in m['checks']: print(c['quick_cmd'])
P
t0=$(date +%s)
while IFS= read -r cmd; do
  s=$(date +%s)
  out=$(bash -c "$cmd" 2>&1); rc=$?
  e=$(date +%s)
  v=$(echo "$out" | grep -c "^VIOLATION")
  k=$(echo "$out" | grep -c "^KNOWN-FINDING")
  echo "rc=$rc viol=$v known=$k $((e-s))s :: $cmd"
  [ $rc -ne 0 ] && echo "$out" | tail -15
done < /root/cmds.txt
echo total $(( $(date +%s) - t0 ))s
python3-vt - <<'P'
import json,glob,jsonschema
sch=json.load(open('/root/.vp/EVIDENCE.schema.json'))
m=json.load(open('/verif/MANIFEST.json'))
for c in m['checks']:
    try:
        ev=json.load(open(c['evidence_file'])); jsonschema.validate(ev,sch); 
        assert ev['level']==c['level_claimed']['category'] and ev['property_id']==c['property_id']
        print(c['property_id'],'evidence ok',ev['level'],ev['wall_s'])
    except Exception as e: print(c['property_id'],'EVIDENCE BAD',str(e)[:300])
P
