#!/bin/bash
# usage: mut <Cxx> <file> <python-expr-old> <new>   (literal replace, first occurrence)
set -e
rm -rf /root/mutrepo; mkdir -p /root/mutrepo; rsync -a --exclude .git --exclude test --exclude docs /repo/ /root/mutrepo/
python3 - "$2" "$3" "$4" <<'P'
import sys
p='/root/mutrepo/'+sys.argv[1]; s=open(p).read()
assert sys.argv[2] in s, "pattern not found"
open(p,'w').write(s.replace(sys.argv[2],sys.argv[3],1))
P
cd /verif; cp -r evidence /root/ev.bak 2>/dev/null || true
VERIF_REPO=/root/mutrepo ./check $1 | tail -4 | cut -c1-400
rm -rf /root/mutrepo /verif/replays/$1; rm -rf /verif/evidence; mv /root/ev.bak /verif/evidence
