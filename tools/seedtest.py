#!/venv/bin/python
"""tools/seedtest.py <Cxx> <k> [--wt /tmp/wt-Cxx] [--name slug] [--checks C23,C24]

Confirms a seeded defect produced by a sub-agent (patch_<k>.diff + demo_<k>.py in the scratch worktree):
  1. patch applies; demo exits 1 with it and 0 without; the repository suite shows only the 2 baseline failures with it
  2. copies patch + demo to /verif/seeded/<Cxx>-<k>/ and writes meta.json
  3. applies the patch in a scratch worktree of /repo's HEAD, runs ./check <Cxx> (quick) against it (VERIF_REPO); records whether it was caught
"""
import argparse
import json
import shutil
import subprocess
import sys
from pathlib import Path

ap = argparse.ArgumentParser()
ap.add_argument("pid")
ap.add_argument("k")
ap.add_argument("--wt", default=None)
ap.add_argument("--needs", default="")
ap.add_argument("--checks", default=None)
ap.add_argument("--skip-confirm", action="store_true")
a = ap.parse_args()
wt = Path(a.wt or f"/tmp/wt-{a.pid}")
dst = Path("/verif/seeded") / f"{a.pid}-{a.k}"
sh = lambda c, cwd=None, t=1800: subprocess.run(c, shell=True, cwd=cwd, capture_output=True, text=True, timeout=t)
meta = {"property": a.pid, "needs": a.needs, "ran": []}
if not a.skip_confirm:
    patch = wt / f"patch_{a.k}.diff"
    demo = wt / f"demo_{a.k}.py"
    assert patch.exists() and demo.exists(), "patch/demo missing"
    sh("git checkout -- xknx", wt)
    r0 = sh(f"/venv/bin/python {demo.name}", wt, 600)
    assert sh(f"git apply {patch.name}", wt).returncode == 0, "patch does not apply"
    r1 = sh(f"/venv/bin/python {demo.name}", wt, 600)
    ts = sh("/venv/bin/python -m pytest -q -p no:cacheprovider --timeout=900 2>&1 | tail -5", wt)
    sh("git checkout -- xknx", wt)
    meta["demo_exit_unchanged"], meta["demo_exit_patched"] = r0.returncode, r1.returncode
    meta["suite_tail_patched"] = ts.stdout.strip().splitlines()[-3:]
    ok = r0.returncode == 0 and r1.returncode != 0 and "2 failed, 3893 passed" in ts.stdout
    meta["confirmed"] = ok
    meta["ran"] += [f"cd {wt} && /venv/bin/python {demo.name}  (unchanged: exit {r0.returncode}; patched: exit {r1.returncode})",
                    f"cd {wt} && /venv/bin/python -m pytest -q -p no:cacheprovider  (patched: {ts.stdout.strip().splitlines()[-1]})"]
    print("confirm:", ok, r0.returncode, r1.returncode, ts.stdout.strip().splitlines()[-1])
    if not ok:
        print(r1.stdout[-800:], r1.stderr[-800:])
        sys.exit(3)
    dst.mkdir(parents=True, exist_ok=True)
    shutil.copy(patch, dst / "patch.diff")
    shutil.copy(demo, dst / "demo.py")
else:
    meta = json.loads((dst / "meta.json").read_text())
# run the checks against a scratch worktree of /repo's HEAD with the patch applied (VERIF_REPO); /repo itself and the evidence are not touched
run = Path(f"/tmp/wt-seedrun-{a.pid}-{a.k}")
sh(f"git worktree remove --force {run}", "/repo")
assert sh(f"git worktree add --detach {run} HEAD", "/repo").returncode == 0
res = {}
try:
    assert sh(f"git apply {dst / 'patch.diff'}", run).returncode == 0, "patch does not apply to the current HEAD"
    for c in (a.checks or a.pid).split(","):
        r = sh(f"VERIF_REPO={run} VERIF_NO_EVIDENCE=1 timeout 2400 ./check {c} --tier quick", "/verif", 3000)
        viol = [l for l in r.stdout.splitlines() if l.startswith("VIOLATION")]
        res[c] = {"exit": r.returncode, "violations": len(viol), "first": (r.stdout.split("what:")[1][:300].strip() if "what:" in r.stdout else "")}
        print(c, "exit", r.returncode, "violations", len(viol), res[c]["first"][:200])
        if r.returncode not in (0, 1):
            print(r.stdout[-1500:])
finally:
    sh(f"git worktree remove --force {run}", "/repo")
meta.setdefault("checks", {}).update(res)
meta["caught_by"] = sorted(c for c, v in meta["checks"].items() if v["exit"] == 1)
(dst / "meta.json").write_text(json.dumps(meta, indent=1) + "\n")
