#!/venv/bin/python
"""tools/benigntest.py <Cxx> <k> [--wt /tmp/wt4-Cxx] [--checks C23,C24] [--skip-confirm]

The other side of the seeding: a behaviour-preserving refactoring of the code a property is anchored in (patch_<k>.diff +
note_<k>.txt from a sub-agent).  The check of the property must stay silent on it.
  1. the patch applies and the repository suite shows only the 2 baseline failures with it
  2. copies patch + note to /verif/seeded/<Cxx>-<k>/ (meta.json: kind = "benign")
  3. applies the patch in a scratch worktree of /repo's HEAD and runs ./check <Cxx> (quick, seeds 0 and 1) against it: exit 0 expected;
     exit 1 is a false alarm of the check (or the refactoring is not behaviour-preserving after all: read the violation), exit 2 a
     dependence of the harness on an implementation detail
"""
import argparse
import json
import shutil
import subprocess
import sys
from pathlib import Path

ap = argparse.ArgumentParser()
ap.add_argument("pid")
ap.add_argument("k")
ap.add_argument("--wt", default=None)
ap.add_argument("--checks", default=None)
ap.add_argument("--skip-confirm", action="store_true")
a = ap.parse_args()
wt = Path(a.wt or f"/tmp/wt4-{a.pid}")
dst = Path("/verif/seeded") / f"{a.pid}-{a.k}"
sh = lambda c, cwd=None, t=1800: subprocess.run(c, shell=True, cwd=cwd, capture_output=True, text=True, timeout=t)
meta = {"property": a.pid, "kind": "benign", "ran": []}
if not a.skip_confirm:
    patch = wt / f"patch_{a.k}.diff"
    note = wt / f"note_{a.k}.txt"
    assert patch.exists(), "patch missing"
    sh("git checkout -- xknx", wt)
    assert sh(f"git apply {patch.name}", wt).returncode == 0, "patch does not apply"
    ts = sh("/venv/bin/python -m pytest -q -p no:cacheprovider --timeout=900 2>&1 | tail -5", wt)
    sh("git checkout -- xknx", wt)
    ok = "2 failed, 3893 passed" in ts.stdout
    meta["suite_tail_patched"] = ts.stdout.strip().splitlines()[-3:]
    meta["confirmed"] = ok
    print("suite with the refactoring:", ok, ts.stdout.strip().splitlines()[-1])
    if not ok:
        sys.exit(3)
    dst.mkdir(parents=True, exist_ok=True)
    shutil.copy(patch, dst / "patch.diff")
    if note.exists():
        shutil.copy(note, dst / "note.txt")
else:
    meta = json.loads((dst / "meta.json").read_text())
run = Path(f"/tmp/wt-seedrun-{a.pid}-{a.k}")
sh(f"git worktree remove --force {run}", "/repo")
assert sh(f"git worktree add --detach {run} HEAD", "/repo").returncode == 0
res = {}
try:
    assert sh(f"git apply {dst / 'patch.diff'}", run).returncode == 0, "patch does not apply to the current HEAD"
    for c in (a.checks or a.pid).split(","):
        for seed in (0, 1):
            r = sh(f"VERIF_SEED={seed} VERIF_REPO={run} VERIF_NO_EVIDENCE=1 timeout 2400 ./check {c} --tier quick", "/verif", 3000)
            res[f"{c}@{seed}"] = {"exit": r.returncode, "first": (r.stdout.split("what:")[1][:300].strip() if "what:" in r.stdout else "")}
            print(c, "seed", seed, "exit", r.returncode, res[f"{c}@{seed}"]["first"][:300])
            if r.returncode == 2:
                print((r.stdout + r.stderr)[-1500:])
finally:
    sh(f"git worktree remove --force {run}", "/repo")
meta["checks"] = res
meta["silent"] = all(v["exit"] == 0 for v in res.values())
(dst / "meta.json").write_text(json.dumps(meta, indent=1) + "\n")
