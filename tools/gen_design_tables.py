#!/venv/bin/python
"""tools/gen_design_tables.py : regenerates the tables of DESIGN.md section 0 (between <!-- BEGIN:x --> / <!-- END:x --> markers)
from harness/registry.py, evidence/, known_findings.json and seeded/."""
import json
import re
import subprocess
import sys
from pathlib import Path

V = Path("/verif")
sys.path.insert(0, str(V))
from harness.registry import REGISTRY  # noqa: E402


def claimed():
    rows = ["| id | level | what decides it (TLA+ modules under spec/; driver) | quick run |", "|----|----|----|----|"]
    for pid in sorted(REGISTRY):
        r = REGISTRY[pid]
        ev = V / "evidence" / f"{pid}.json"
        q = ""
        if ev.exists():
            e = json.loads(ev.read_text())
            c = e["coverage"]
            n = c.get("traces_validated_against_impl") or c.get("evaluations") or c.get("schedules") or ""
            q = f"{n} {'traces' if 'traces_validated_against_impl' in c else 'cases'}, {e['wall_s']:.0f} s" if n else f"{e['wall_s']:.0f} s"
        drv = r.get("driver", pid.lower()) + ("." + r["entry"] if r.get("entry") else "")
        rows.append(f"| {pid} | {r['level']} | {r['technique']} (harness/drivers/{drv}) | {q} |")
    return "\n".join(rows)


def fixes():
    d = json.loads((V / "known_findings.json").read_text())["findings"]
    rows = ["| property | commit | what failed (the specific input, schedule or history) |", "|----|----|----|"]
    for f in d:
        if f["status"] == "fixed":
            w = re.sub(r"^fixed: property=\S+ \S+ ", "", f["what"])
            rows.append(f"| {f['property']} | {f['commit']} | {w} |")
    return "\n".join(rows)


def seeds():
    res = {}
    p = V / "seeded" / "RESULTS.tsv"
    if p.exists():
        for line in p.read_text(errors="replace").splitlines():
            a = line.split("\t")
            res[a[0]] = a[1:]
    rows = ["| seed | change (file: what) | needs | when made: caught by | re-run against current HEAD |", "|----|----|----|----|----|"]
    for m in sorted((V / "seeded").glob("*/meta.json")):
        s = m.parent.name
        meta = json.loads(m.read_text())
        diff = (m.parent / "patch.diff").read_text()
        files = sorted(set(re.findall(r"^\+\+\+ b/(\S+)", diff, re.M)))
        plus = [l[1:].strip() for l in diff.splitlines() if l.startswith("+") and not l.startswith("+++") and l[1:].strip() and not l[1:].strip().startswith("#")]
        minus = [l[1:].strip() for l in diff.splitlines() if l.startswith("-") and not l.startswith("---") and l[1:].strip() and not l[1:].strip().startswith("#")]
        what = (minus[0] if minus else "(added)") + " -> " + (plus[0] if plus else "(removed)")
        what = what.replace("|", "\\|")[:110]
        caught = ", ".join(meta.get("caught_by", [])) or "MISSED"
        rr = res.get(s)
        if meta.get("kind") == "benign":       # a behaviour-preserving refactoring: the check has to stay silent
            exits = sorted({v["exit"] for v in meta.get("checks", {}).values()})
            caught = "refactoring: silent (exit 0)" if meta.get("silent") else f"refactoring: NOT silent (exit {exits})"
            rrs = "-" if not rr else ("no longer applies" if rr[0] == "does-not-apply" else ("silent" if "exit=0" in rr[1] else "NOT silent (" + rr[1] + ")"))
            rows.append(f"| {s} | {', '.join(f.replace('xknx/', '') for f in files)}: `{what}` | (behaviour-preserving) | {caught} | {rrs} |")
            continue
        rrs = "-" if not rr else ("no longer applies (the code it changes was repaired since)" if rr[0] == "does-not-apply" else ("caught" if "exit=1" in rr[1] else "NOT caught (" + rr[1] + ")"))
        rows.append(f"| {s} | {', '.join(f.replace('xknx/', '') for f in files)}: `{what}` | {meta.get('needs', '')[:60]} | {caught} | {rrs} |")
    return "\n".join(rows)


def main():
    p = V / "DESIGN.md"
    s = p.read_text()
    for name, fn in (("claimed", claimed), ("fixes", fixes), ("seeds", seeds)):
        a, b = f"<!-- BEGIN:{name} -->", f"<!-- END:{name} -->"
        if a in s:
            i, j = s.index(a) + len(a), s.index(b)
            s = s[:i] + "\n" + fn() + "\n" + s[j:]
    p.write_text(s)


main()
