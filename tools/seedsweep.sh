#!/bin/bash
# tools/seedsweep.sh <seed>... : every claimed check (quick) with the given seeds against $VERIF_REPO (default /repo); one line per run
cd "$(dirname "$0")/.."
ids=$(/venv/bin/python -c "import json; print(' '.join(c['property_id'] for c in json.load(open('MANIFEST.json'))['checks']))")
for s in "$@"; do
  for c in $ids; do
    out=$(VERIF_SEED=$s timeout 1200 ./check $c 2>&1); rc=$?
    echo "seed=$s $c rc=$rc $(echo "$out" | tail -1 | cut -c1-160)"
    if [ $rc -ne 0 ]; then echo "$out" | grep "what:" | head -3 | cut -c1-600; fi
  done
done
