#!/bin/bash
# tools/reseed.sh [-j N] [ids or seed names (C27 C01-9 ...)...] : re-run every stored seeded change (seeded/<id>-<k>/patch.diff) against the current /repo HEAD, each in a
# scratch worktree of its own (VERIF_REPO), N at a time (default 6).  One line per seed in seeded/RESULTS.tsv:
#   defects (meta caught_by = the checks that caught it when it was made): applies? exit=1 expected
#   behaviour-preserving refactorings (meta kind = benign): exit=0 expected
cd "$(dirname "$0")/.."
J=6
if [ "$1" = "-j" ]; then J=$2; shift 2; fi
ids=" $* "
one() {
  d=$1; s=$(basename $d); id=${s%-*}
  WT=/tmp/wt-reseed-$s
  git -C /repo worktree remove --force $WT 2>/dev/null
  git -C /repo worktree add --detach $WT HEAD -q || { echo -e "$s\tmachinery\t-"; return; }
  if ! git -C $WT apply --check /verif/$d/patch.diff 2>/dev/null; then
    echo -e "$s\tdoes-not-apply\t-"
  else
    git -C $WT apply /verif/$d/patch.diff
    cks=$(/venv/bin/python -c "import json; m=json.load(open('/verif/$d/meta.json')); print(' '.join(m.get('caught_by') or ['$id']))")
    kind=$(/venv/bin/python -c "import json; print(json.load(open('/verif/$d/meta.json')).get('kind', 'defect'))")
    rc=0; r=""
    for c in $cks; do
      r=$(VERIF_REPO=$WT VERIF_NO_EVIDENCE=1 timeout 2400 ./check $c 2>&1); rc=$?
      [ $rc -eq 1 ] && break
    done
    echo -e "$s\tapplies\texit=$rc\t$kind\t$(echo "$r" | grep -m1 'what:' | cut -c1-160)"
  fi
  git -C /repo worktree remove --force $WT 2>/dev/null
}
export -f one
out=${RESEED_OUT:-seeded/RESULTS.tsv}
todo=()
for d in seeded/*/; do
  d=${d%/}; s=$(basename $d); id=${s%-*}
  [ -f $d/meta.json ] || continue
  if [ "$ids" != "  " ] && [[ ! "$ids" =~ " $id " ]] && [[ ! "$ids" =~ " $s " ]]; then continue; fi
  todo+=($d)
done
tmp=$(mktemp)
printf '%s\n' "${todo[@]}" | xargs -P $J -I{} bash -c 'one {}' | tee $tmp
if [ "$ids" = "  " ]; then sort $tmp > $out; else
  keep=$(mktemp); grep -a -v -F -f <(cut -f1 $tmp | sed 's/$/\t/') $out > $keep 2>/dev/null; sort $keep $tmp > $out; rm -f $keep
fi
rm -f $tmp
