#!/bin/bash
# tools/reseed.sh [ids...] : re-run every stored seeded change (seeded/<id>-<k>/patch.diff) against the current /repo HEAD in a scratch
# worktree (VERIF_REPO), one line per seed: applies? caught by its check (exit 1)?   Results: seeded/RESULTS.tsv
cd "$(dirname "$0")/.."
WT=/tmp/wt-reseed
git -C /repo worktree remove --force $WT 2>/dev/null
git -C /repo worktree add --detach $WT HEAD -q || exit 2
out=seeded/RESULTS.tsv
[ $# -eq 0 ] && : > $out
for d in seeded/*/; do
  s=$(basename $d); id=${s%-*}
  if [ $# -gt 0 ] && [[ ! " $* " =~ " $id " ]]; then continue; fi
  if ! git -C $WT apply --check ../../verif/$d/patch.diff 2>/dev/null && ! git -C $WT apply --check /verif/$d/patch.diff 2>/dev/null; then
    echo -e "$s\tdoes-not-apply\t-" | tee -a $out; continue
  fi
  git -C $WT apply /verif/$d/patch.diff
  # the checks that caught it when it was made (its own property's check, or a neighbour's for cross-layer changes)
  cks=$(/venv/bin/python -c "import json,sys; m=json.load(open('/verif/$d/meta.json')); print(' '.join(m.get('caught_by') or ['$id']))")
  rc=0; r=""
  for c in $cks; do
    r=$(VERIF_REPO=$WT VERIF_NO_EVIDENCE=1 timeout 1500 ./check $c 2>&1); rc=$?
    [ $rc -eq 1 ] && break
  done
  git -C $WT checkout -q -- .
  echo -e "$s\tapplies\texit=$rc\t$(echo "$r" | grep -m1 'what:' | cut -c1-160)" | tee -a $out
done
git -C /repo worktree remove --force $WT
