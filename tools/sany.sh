#!/bin/bash
# tools/sany.sh <module.tla>...  : parse TLA+ modules with SANY (library path = every directory under spec/)
cd /verif
for f in "$@"; do
/venv/bin/python -c "
import sys; sys.path.insert(0,'.')
from harness import tlc
from pathlib import Path
ok,out=tlc.sany(Path('$f').resolve()); print('$f', 'OK' if ok else 'FAILED'); print('' if ok else out[-1200:])"
done
