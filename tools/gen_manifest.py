#!/venv/bin/python
"""Write MANIFEST.json from harness/registry.py and validate it against the schema."""
import json
import sys
from pathlib import Path

ROOT = Path(__file__).resolve().parent.parent
sys.path.insert(0, str(ROOT))
from harness.registry import REGISTRY  # noqa: E402

BASE = json.loads(Path("/root/.vp/BASELINE.json").read_text())["cmd"] if Path("/root/.vp/BASELINE.json").exists() else \
    "cd /repo && /venv/bin/python -m pytest -ra -q -p no:cacheprovider --timeout=900 --continue-on-collection-errors --junitxml=<file>"
props = [json.loads(l) for l in (ROOT / "properties.jsonl").read_text().splitlines() if l.strip()]
hooks = json.loads((ROOT / "hooks.json").read_text()) if (ROOT / "hooks.json").exists() else {"source_commits": []}
man = {
    "version": 1,
    "setup_cmd": "cd /verif && /venv/bin/python tools/setup.py",
    "hooks": {
        "guard": "XKNX_VERIF",
        "enable": "environment variable XKNX_VERIF=1 (set by ./check before importing xknx from /repo; pure Python, nothing to build)",
        "baseline_off_cmd": BASE.replace("--junitxml=<file>", "--junitxml=/tmp/xknx-baseline.junit.xml"),
        "source_commits": hooks["source_commits"],
        "add_only": True,
    },
    "engines": [
        {"name": "tlc", "path": "/opt/veriftools/tla/tla2tools.jar", "serves_properties": sorted(p for p in REGISTRY if p.startswith("C")),
         "kind_free_text": "TLA+ specifications under /verif/spec checked with TLC 1.8: exhaustive model checking of the design, "
                           "batched trace validation of implementation runs, constant-level evaluation of reference definitions"},
        {"name": "harness", "path": "/verif/harness", "serves_properties": sorted(p for p in REGISTRY if p.startswith("C")),
         "kind_free_text": "Python drivers running the real xknx classes under a deterministic virtual-time asyncio loop against "
                           "simulated gateways/buses; records traces for TLC and replays TLC behaviours"},
    ],
    "checks": [],
    "not_applicable": [],
    "notes": "See DESIGN.md. Every verdict is produced by TLC from a TLA+ module under spec/. known_findings.json lists open findings and fixed defects.",
}
for p in props:
    pid = p["id"]
    if pid in REGISTRY:
        m = REGISTRY[pid]
        man["checks"].append({
            "property_id": pid,
            "quick_cmd": f"cd /verif && ./check {pid} --tier quick",
            "thorough_cmd": f"cd /verif && ./check {pid} --tier thorough",
            "evidence_file": f"/verif/evidence/{pid}.json",
            "replay_cmd_template": f"cd /verif && ./check {pid} --replay {{path}}",
            "engine": "tlc",
            "level_claimed": {"category": m["level"], "text": m["text"], "design_ref": m["design_ref"]},
            "level_note": m["note"],
            "technique": m["technique"],
        })
    else:
        edge = pid in ("C01", "C02", "C08", "C09", "C31")
        man["not_applicable"].append({"property_id": pid, "reason": (
            "not claimed: at the edge of what an explicit TLA+ specification can express (text notations / float rounding / XML and PBKDF2); "
            "no validated check exists - see DESIGN.md section 0.3" if edge else
            "not claimed yet: the TLA+ module and its binding for this property (designed in DESIGN.md section 5) have not been built and "
            "validated; an unvalidated check would be worse than none - see DESIGN.md section 0.3")})
(ROOT / "MANIFEST.json").write_text(json.dumps(man, indent=1) + "\n")
import subprocess
r = subprocess.run(["python3-vt", "-c", "import json,jsonschema;jsonschema.validate(json.load(open('%s')), json.load(open('/root/.vp/MANIFEST.schema.json')))" % (ROOT / "MANIFEST.json")], capture_output=True, text=True)
print("MANIFEST.json", "valid" if r.returncode == 0 else "INVALID " + r.stderr[-500:], ";", len(man["checks"]), "checks,", len(man["not_applicable"]), "not claimed")
sys.exit(r.returncode)
