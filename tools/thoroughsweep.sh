#!/bin/bash
# tools/thoroughsweep.sh [ids...] : the thorough tier of every (or the given) claimed check against $VERIF_REPO; one line per run
cd "$(dirname "$0")/.."
ids="$*"
[ -z "$ids" ] && ids=$(/venv/bin/python -c "import json; print(' '.join(c['property_id'] for c in json.load(open('MANIFEST.json'))['checks']))")
for c in $ids; do
  t0=$(date +%s)
  out=$(timeout 5400 ./check $c --tier thorough 2>&1); rc=$?
  echo "$c rc=$rc $(( $(date +%s) - t0 ))s $(echo "$out" | tail -1 | cut -c1-200)"
  if [ $rc -ne 0 ]; then echo "$out" | grep "what:\|MACHINERY" | head -3 | cut -c1-500; fi
done
