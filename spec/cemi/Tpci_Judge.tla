---------------------------- MODULE Tpci_Judge ----------------------------
(* C03.  Cases recorded from the real xknx.telegram.tpci:
     [t |-> "dec", o, kind, res |-> "reject" | class name, seq, enc]   result of TPCI.resolve and to_knx of the result
     [t |-> "enc", pdu, seq, kind, enc, res, rseq]                      PDU built, encoded, decoded again *)
EXTENDS Tpci, Json, IOUtils, TLC
Cases == ndJsonDeserialize(IOEnv.TRACE_FILE)
OkDec(c) == \/ c.res = "reject"
            \/ /\ Decode(c.o, c.kind) # None                     \* undefined codes are never read as a PDU
               /\ Decode(c.o, c.kind) = P(c.res, c.seq)           \* ... and defined ones not as another PDU
               /\ TMask(c.enc) = TMask(c.o)                       \* its encoding reproduces the transport bits
OkEnc(c) == LET p == P(c.pdu, c.seq) IN
            /\ c.enc = Encode(p)
            /\ c.res = c.pdu /\ c.rseq = c.seq
Ok(c) == IF c.t = "dec" THEN OkDec(c) ELSE OkEnc(c)
Bad == {i \in 1..Len(Cases) : ~Ok(Cases[i])}
ASSUME TableRoundTrip /\ TableInjective
ASSUME PrintT(<<"RESULT", Len(Cases), Bad>>)
VARIABLE x
Init == x = 0
Next == UNCHANGED x
=============================================================================
