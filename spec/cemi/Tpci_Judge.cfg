INIT Init
NEXT Next
