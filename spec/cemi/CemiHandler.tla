---------------------------- MODULE CemiHandler ----------------------------
(* Dispatch of received cEMI link-layer frames and confirmation of sent ones   (xknx/cemi/cemi_handler.py
   CEMIHandler.handle_cemi_frame / telegram_received / send_telegram).  Monitor form, time in milliseconds.
     ncon     number of L_Data.con frames received so far
     snd      senders in progress: id -> [handedAt (ncon when the frame was handed to the interface, -1: not yet),
                                           ifaceRet (time the interface call returned, -1: not yet)] *)
EXTENDS Integers, FiniteSets
CONSTANT CONF_TIMEOUT, TOL
VARIABLES ncon, snd
vars == <<ncon, snd>>
Init == ncon = 0 /\ snd = <<>>
\* ---- receive side: what a frame must cause.  code: "ind" | "con" | "req" | "other" (non link-layer);
\*      tpci: "group" (T_Data_Group) | "taggroup" | "broadcast" | "p2p" (individual destination);  own: destination is this interface
ToQueue(code, tpci) == IF code = "ind" /\ tpci = "group" THEN 1 ELSE 0
ToMgmt(code, tpci, own) == IF code = "ind" /\ (tpci = "broadcast" \/ (tpci = "p2p" /\ own = 1)) THEN {1}
                           ELSE IF code = "ind" /\ tpci = "taggroup" THEN {0, 1}        \* the statement is silent: either
                           ELSE {0}
Rx(code, tpci, own, queued, mgmt) ==
  /\ queued = ToQueue(code, tpci)                \* a group data frame reaches the telegram queue exactly once, nothing else does
  /\ mgmt \in ToMgmt(code, tpci, own)            \* management only for broadcast frames and frames addressed to this interface
  /\ ncon' = IF code = "con" THEN ncon + 1 ELSE ncon
  /\ UNCHANGED snd
\* ---- send side
Call(id) == id \notin DOMAIN snd /\ snd' = [i \in DOMAIN snd \cup {id} |-> IF i = id THEN [handedAt |-> -1, ifaceRet |-> -1] ELSE snd[i]]
            /\ UNCHANGED ncon
Handed(id) == id \in DOMAIN snd /\ snd[id].handedAt = -1 /\ snd' = [snd EXCEPT ![id].handedAt = ncon] /\ UNCHANGED ncon
IfaceRet(id, t) == id \in DOMAIN snd /\ snd[id].handedAt # -1 /\ snd' = [snd EXCEPT ![id].ifaceRet = t] /\ UNCHANGED ncon
Done(id) == snd' = [i \in DOMAIN snd \ {id} |-> snd[i]] /\ UNCHANGED ncon
RetOk(id, t) == /\ id \in DOMAIN snd /\ snd[id].handedAt # -1 /\ snd[id].ifaceRet # -1
                /\ ncon > snd[id].handedAt                     \* a confirmation arrived after the frame was handed over
                /\ Done(id)
RetConfErr(id, t) == /\ id \in DOMAIN snd /\ snd[id].ifaceRet # -1
                     /\ t <= snd[id].ifaceRet + CONF_TIMEOUT + TOL      \* within the confirmation timeout
                     /\ Done(id)
RetSendErr(id, t) == id \in DOMAIN snd /\ snd[id].handedAt # -1 /\ snd[id].ifaceRet = -1 /\ Done(id)   \* the interface refused the frame
\* nobody waits longer than the confirmation timeout
NoStall(t) == \A i \in DOMAIN snd : snd[i].ifaceRet # -1 => t <= snd[i].ifaceRet + CONF_TIMEOUT + TOL
=============================================================================
