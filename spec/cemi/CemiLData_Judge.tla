--------------------------- MODULE CemiLData_Judge ---------------------------
(* C12 / C13 cases: [t |-> "parse", b (octets), out] | [t |-> "build", ...] | [t |-> "reser", ...] *)
EXTENDS CemiLData, Json, IOUtils, TLC
Cases == ndJsonDeserialize(IOEnv.TRACE_FILE)
Ok(c) == CASE c.t = "parse" -> ParseOk(c.b, c.out) [] c.t = "build" -> BuildOk(c) [] c.t = "asmade" -> AsMadeOk(c) [] c.t = "reser" -> ReserialiseOk(c) [] OTHER -> FALSE
Bad == {i \in 1..Len(Cases) : ~Ok(Cases[i])}
\* the grammar accepts the captured group telegram carried by the test suite (GroupValueWrite 1 bit to 2/0/6 from 1.1.7? - structure only)
ASSUME LDataWellFormed(<<41, 0, 188, 224, 17, 7, 16, 6, 1, 0, 129>>)
ASSUME ~LDataWellFormed(<<41, 0, 188, 224, 17, 7, 16, 6, 2, 0, 129>>) /\ ~LDataWellFormed(<<41, 3, 188, 224, 17, 7, 16, 6, 1, 0, 129>>)
ASSUME PrintT(<<"RESULT", Len(Cases), Bad>>)
VARIABLE x
Init == x = 0
Next == UNCHANGED x
=============================================================================
