SPECIFICATION MCSpec
CONSTANTS CONF_TIMEOUT = 3 TOL = 0 CLEAR = TRUE NS = 2 MAXCON = 2
INVARIANT FreshConfirmationOnly
CHECK_DEADLOCK FALSE
