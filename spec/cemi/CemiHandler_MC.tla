-------------------------- MODULE CemiHandler_MC --------------------------
(* Design model of send_telegram with a shared confirmation event: clear the event, hand the frame to the interface, wait
   for the event (or time out).  Two concurrent senders, confirmations arriving at any point.  The monitor CemiHandler judges
   every completion: CLEAR = TRUE is the design; CLEAR = FALSE (event never cleared) must give a counterexample. *)
EXTENDS CemiHandler
CONSTANTS CLEAR, NS, MAXCON
VARIABLES ev, pc, bad
mcvars == <<vars, ev, pc, bad>>
S == 1..NS
MCInit == Init /\ ev = FALSE /\ pc = [i \in S |-> "idle"] /\ bad = FALSE
\* clearing the event and entering interface.send_cemi happen without yielding in between
Start(i) == /\ pc[i] = "idle" /\ i \notin DOMAIN snd
            /\ snd' = [j \in DOMAIN snd \cup {i} |-> IF j = i THEN [handedAt |-> ncon, ifaceRet |-> -1] ELSE snd[j]]
            /\ pc' = [pc EXCEPT ![i] = "sending"] /\ ev' = (IF CLEAR THEN FALSE ELSE ev) /\ UNCHANGED <<ncon, bad>>
Sent(i) == pc[i] = "sending" /\ IfaceRet(i, 0) /\ pc' = [pc EXCEPT ![i] = "waiting"] /\ UNCHANGED <<ev, bad>>
Con == ncon < MAXCON /\ ncon' = ncon + 1 /\ ev' = TRUE /\ UNCHANGED <<snd, pc, bad>>
Complete(i) == /\ pc[i] = "waiting" /\ ev
               /\ bad' = (bad \/ ~(ncon > snd[i].handedAt))          \* completes although no confirmation arrived after the hand-over
               /\ Done(i) /\ pc' = [pc EXCEPT ![i] = "done"] /\ UNCHANGED ev
Timeout(i) == pc[i] = "waiting" /\ ~ev /\ RetConfErr(i, 0) /\ pc' = [pc EXCEPT ![i] = "done"] /\ UNCHANGED <<ev, bad>>
MCNext == (\E i \in S : Start(i) \/ Sent(i) \/ Complete(i) \/ Timeout(i)) \/ Con
MCSpec == MCInit /\ [][MCNext]_mcvars
FreshConfirmationOnly == ~bad
=============================================================================
