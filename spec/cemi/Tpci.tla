------------------------------- MODULE Tpci -------------------------------
(* Transport layer control field (KNX 03_03_04 Transport Layer §2, TPDU table), written as an executable reference:
   which octets are defined for which destination kind, which PDU they denote, and how a PDU is encoded.
   Bound to xknx/telegram/tpci.py (TPCI.resolve / TPCI.to_knx) by Tpci_Judge. *)
EXTENDS Integers, Sequences
Kinds == {"individual", "group", "broadcast"}
Bit(o, n) == (o \div n) % 2
Ctrl(o) == Bit(o, 128)
Numd(o) == Bit(o, 64)
SeqNo(o) == (o \div 4) % 16
Low2(o) == o % 4
None == [pdu |-> "undefined", seq |-> 0]
P(name, s) == [pdu |-> name, seq |-> s]
\* the PDU an octet denotes (sequence number 0 for unnumbered PDUs), or None
Decode(o, kind) ==
  IF kind \in {"group", "broadcast"}
    THEN IF Ctrl(o) = 1 \/ Numd(o) = 1 THEN None
         ELSE IF SeqNo(o) = 0 THEN (IF kind = "broadcast" THEN P("TDataBroadcast", 0) ELSE P("TDataGroup", 0))
         ELSE IF SeqNo(o) = 1 THEN P("TDataTagGroup", 0)
         ELSE None
    ELSE IF Ctrl(o) = 0
           THEN IF Numd(o) = 1 THEN P("TDataConnected", SeqNo(o))
                ELSE IF SeqNo(o) = 0 THEN P("TDataIndividual", 0) ELSE None
           ELSE IF Numd(o) = 0
                  THEN IF SeqNo(o) # 0 THEN None
                       ELSE IF Low2(o) = 0 THEN P("TConnect", 0)
                       ELSE IF Low2(o) = 1 THEN P("TDisconnect", 0) ELSE None
                  ELSE IF Low2(o) = 2 THEN P("TAck", SeqNo(o))
                       ELSE IF Low2(o) = 3 THEN P("TNak", SeqNo(o)) ELSE None
\* transport bits of an octet: data PDUs share the two low bits with the APCI
TMask(o) == IF Ctrl(o) = 0 THEN o - Low2(o) ELSE o
Encode(p) ==
  CASE p.pdu \in {"TDataGroup", "TDataBroadcast", "TDataIndividual"} -> 0
    [] p.pdu = "TDataTagGroup" -> 4
    [] p.pdu = "TDataConnected" -> 64 + 4 * p.seq
    [] p.pdu = "TConnect" -> 128
    [] p.pdu = "TDisconnect" -> 129
    [] p.pdu = "TAck" -> 192 + 4 * p.seq + 2
    [] p.pdu = "TNak" -> 192 + 4 * p.seq + 3
KindsOf(p) == CASE p.pdu = "TDataGroup" -> {"group"} [] p.pdu = "TDataBroadcast" -> {"broadcast"}
                [] p.pdu = "TDataTagGroup" -> {"group", "broadcast"} [] OTHER -> {"individual"}
Numbered(p) == p.pdu \in {"TDataConnected", "TAck", "TNak"}
PDUs == {P(n, 0) : n \in {"TDataGroup", "TDataBroadcast", "TDataTagGroup", "TDataIndividual", "TConnect", "TDisconnect"}}
        \cup {P(n, s) : n \in {"TDataConnected", "TAck", "TNak"}, s \in 0..15}
\* design-level laws of the table itself (checked by TLC as ASSUMEs in Tpci_Judge)
TableRoundTrip == \A p \in PDUs : \A k \in KindsOf(p) : Decode(Encode(p), k) = p
TableInjective == \A o \in 0..255, k \in Kinds : Decode(o, k) # None => TMask(Encode(Decode(o, k))) = TMask(o)
=============================================================================
