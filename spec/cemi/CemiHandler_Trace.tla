------------------------- MODULE CemiHandler_Trace -------------------------
(* Trace validation for C14.  Events (t in ms):
     rx {code, tpci, own, queued, mgmt, t}   frame given to handle_raw_cemi; telegrams queued / management calls it caused
     call {id}   handed {id}   iface_ret {id, ok, t}   ret {id, out: ok | conf | send | other:<type>, t}   end {t} *)
EXTENDS Integers, Sequences, FiniteSets, Json, IOUtils, TLC
Traces == ndJsonDeserialize(IOEnv.TRACE_FILE)
VARIABLES ncon, snd, tid, l
vars == <<ncon, snd, tid, l>>
H == INSTANCE CemiHandler WITH CONF_TIMEOUT <- 3000, TOL <- 5
Ev == Traces[tid][l]
TInit == tid \in 1..Len(Traces) /\ l = 1 /\ H!Init
Step ==
  /\ l <= Len(Traces[tid]) /\ l' = l + 1 /\ UNCHANGED tid
  /\ H!NoStall(Ev.t)
  /\ \/ Ev.ev = "rx" /\ H!Rx(Ev.code, Ev.tpci, Ev.own, Ev.queued, Ev.mgmt)
     \/ Ev.ev = "call" /\ H!Call(Ev.id)
     \/ Ev.ev = "handed" /\ H!Handed(Ev.id)
     \/ Ev.ev = "iface_ret" /\ Ev.ok = 1 /\ H!IfaceRet(Ev.id, Ev.t)
     \/ Ev.ev = "iface_ret" /\ Ev.ok = 0 /\ UNCHANGED <<ncon, snd>>
     \/ Ev.ev = "ret" /\ Ev.out = "ok" /\ H!RetOk(Ev.id, Ev.t)
     \/ Ev.ev = "ret" /\ Ev.out = "conf" /\ H!RetConfErr(Ev.id, Ev.t)
     \/ Ev.ev = "ret" /\ Ev.out = "send" /\ H!RetSendErr(Ev.id, Ev.t)
     \/ Ev.ev = "end" /\ DOMAIN snd = {} /\ UNCHANGED <<ncon, snd>>
TSpec == TInit /\ [][Step]_vars
Mark == /\ TLCSet(2, [TLCGet(2) EXCEPT ![tid] = IF @ < l THEN l ELSE @])
        /\ (l = Len(Traces[tid]) + 1 => TLCSet(1, TLCGet(1) \cup {tid}))
Post == LET bad == (1..Len(Traces)) \ TLCGet(1) IN PrintT(<<"RESULT", Len(Traces), {<<t, TLCGet(2)[t]>> : t \in bad}>>)
ASSUME TLCSet(1, {}) /\ TLCSet(2, [t \in 1..Len(Traces) |-> 0])
=============================================================================
