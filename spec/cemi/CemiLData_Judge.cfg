INIT Init
NEXT Next
