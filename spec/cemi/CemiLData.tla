------------------------------ MODULE CemiLData ------------------------------
(* cEMI L_Data frames   (xknx/cemi/cemi_frame.py CEMIFrame / CEMILData, xknx/cemi/flags.py).
   KNX 03/06/03 EMI_IMI 4.1.5 (cEMI L_Data: message code, additional information, control field 1 / 2, source, destination,
   NPDU length L, TPDU of L + 1 octets) and 03/02/02 2.2.5 (frame type: standard iff the NPDU is at most 15 octets; hop count 0..7).
   An octet string is a sequence b (1-based): b[1] message code, b[2] = n additional-info length, then n octets, then
   ctrl1, ctrl2, src (2), dst (2), L, TPDU (L + 1 octets). *)
EXTENDS Integers, Sequences
LDataCodes == {17, 41, 46}                  \* L_Data.req 0x11, L_Data.ind 0x29, L_Data.con 0x2E
\* ---- grammar: the octets have exactly the structure their own length fields announce
LDataWellFormed(b) ==
  /\ Len(b) >= 2 /\ b[1] \in LDataCodes
  /\ LET n == b[2] IN Len(b) >= 10 + n /\ Len(b) = 10 + n + b[9 + n]
\* ---- C12: what the parser may answer for an octet string
ParseOk(b, out) ==
  CASE out = "frame"       -> Len(b) >= 1 /\ (b[1] \in LDataCodes => LDataWellFormed(b))     \* never a frame for octets that are not one
    [] out = "parse"       -> TRUE                                            \* CouldNotParseCEMI
    [] out = "unsupported" -> TRUE                                            \* UnsupportedCEMIMessage
    [] OTHER               -> FALSE                                           \* another exception, the last-resort guard, a hang
\* ---- C13: frames built from a telegram.  c = [npdu (APDU length = NPDU length), hop, group (destination is a group address),
\*      out ("ok" | "refused"), ft (frame type bit of the octets: 1 standard), at (address type bit: 1 group), same (parses back to the
\*      same addresses, TPDU, payload, flags), lenfield (the NPDU length octet)]
BuildOk(c) ==
  IF c.npdu <= 254 /\ c.hop \in 0..7
  THEN /\ c.out = "ok"
       /\ c.ft = (IF c.npdu <= 15 THEN 1 ELSE 0)            \* 'standard' exactly when the NPDU is at most 15 octets
       /\ c.at = c.group                                     \* the address type bit matches the destination
       /\ c.lenfield = c.npdu /\ c.same = 1
       /\ c.held = 1
  ELSE c.out = "refused" /\ c.held = 1                       \* longer APDUs and hop counts outside 0..7 are rejected
\* held = 1: the frame built before this one still serialises to the octets it gave then - frames do not share their control fields.
\* The rule is one for the three ways a frame object comes about (from a telegram; made directly; its APDU replaced afterwards, which
\* is what securing a frame does): what is refused is decided where the octets are written.
\* ---- a frame made from a telegram and not touched: system priority for point-to-point and broadcast, low for group communication;
\*      no repetition, no acknowledge request, hop count 6, not a system broadcast, no error bit
AsMadeOk(c) ==
  /\ c.prio = (IF c.kind \in {"group", "taggroup"} THEN 3 ELSE 0)
  /\ c.rep = 0 /\ c.ack = 0 /\ c.hop = 6 /\ c.sysb = 0 /\ c.cerr = 0
\* reserved application-layer bits: the table of Apci.tla (C05), positions relative to the APDU (octet 0 = TPCI / APCI high octet)
A == INSTANCE Apci
\* ---- C13: re-serialising a received frame.  diff = positions (octet, bit 7..0) where the octets differ;
\*      apci1 = octet number of the low APCI octet; svc = decoded service, long = 1: further data octets follow
ReserialiseOk(c) ==
  \/ c.out = "refused"            \* the encoder refuses what the decoder let through: no claim (the APDU layer is C04 / C05)
  \/ /\ c.out = "ok" /\ c.lendiff = 0
     /\ c.ft2 = (IF c.npdu <= 15 THEN 1 ELSE 0)          \* the frame type bit written is derived from the NPDU length
     /\ \A i \in 1..Len(c.diff) :
           LET o == c.diff[i][1]  p == c.diff[i][2] IN
           \/ (o = c.ctrl1 /\ p \in {7, 6})                  \* the derived frame type bit and the reserved bit of control field 1
           \/ (o >= c.apci1 - 1 /\ <<o - (c.apci1 - 1), p>> \in A!Reserved(c.svc, c.npdu + 1))   \* reserved application bits
=============================================================================
