INIT Init
NEXT Next
CONSTANT Vals <- ValsQuick
INVARIANT Injective
