---------------------------- MODULE Keyring_MC ----------------------------
(* the tamper-evidence lemma on bounded trees: two trees that differ in an element name, an attribute name, an attribute value or the structure
   have different canonical forms (given SHA-256, a different signature).  Names and values of length 0..2 over two symbols and a marker octet, at most two attributes,
   depth 2, at most two children (1098 trees, every pair compared). *)
EXTENDS Keyring, TLC
Names == {<<65>>, <<66>>, <<65, 66>>, <<66, 65>>}
CONSTANT Vals
ValsFull == {<<>>, <<65>>, <<65, 66>>, <<1, 65>>}               \* (1: an octet that is also a structure marker)
ValsQuick == {<<>>, <<65>>, <<1, 65>>}
AttrSets == {<<>>} \cup {<< <<n, v>> >> : n \in {<<65>>, <<65, 66>>}, v \in Vals}
              \cup {<< <<<<65>>, v1>>, <<<<66>>, v2>> >> : v1 \in {<<>>, <<65>>}, v2 \in {<<>>, <<66>>}}
Leaves == {[tag |-> n, attrs |-> a, kids |-> <<>>] : n \in {<<65>>, <<65, 66>>}, a \in {<<>>, << <<<<65>>, <<>>>> >>, << <<<<66>>, <<65>>>> >>}}
Trees == Leaves \cup {[tag |-> n, attrs |-> a, kids |-> k] : n \in {<<65>>, <<66>>}, a \in AttrSets,
                                                              k \in {<<l>> : l \in Leaves} \cup {<<l1, l2>> : l1 \in Leaves, l2 \in Leaves}}
VARIABLE t1
Init == t1 \in Trees
Next == UNCHANGED t1
Injective == \A t2 \in Trees : Canon(t1) = Canon(t2) => t1 = t2
\* the deviation: strings without their length octet - names and values can trade octets (must give a counterexample)
RECURSIVE CanonNoLen(_)
CanonNoLen(t) == <<1>> \o t.tag \o Concat([i \in 1..Len(t.attrs) |-> t.attrs[i][1] \o t.attrs[i][2]])
                 \o Concat([i \in 1..Len(t.kids) |-> CanonNoLen(t.kids[i])]) \o <<2>>
InjectiveNoLen == \A t2 \in Trees : CanonNoLen(t1) = CanonNoLen(t2) => t1 = t2
=============================================================================
