------------------------------ MODULE DsSeq_MC ------------------------------
EXTENDS DsSeq
Init == lastValid = [s \in Senders |-> 1] /\ delivered = <<>> /\ lastSent = -1 /\ wire = <<>>
Next == \/ \E s \in Senders \cup {0}, n \in 0..MaxSeq, ok \in BOOLEAN : Len(delivered) < 4 /\ Recv(s, n, ok)
        \/ \E n \in 0..MaxSeq + 1 : SendOk(n)
        \/ \E n \in 0..MaxSeq + 1 : SendDropped(n)
        \/ SendExhausted
Spec == Init /\ [][Next]_vars
AboveInitial == \A a \in 1..Len(delivered) : delivered[a][2] > 1
SentWithin48Bits == lastSent <= MaxSeq
=============================================================================
