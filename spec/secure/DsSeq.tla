------------------------------- MODULE DsSeq -------------------------------
(* KNX Data Secure sequence number handling (xknx/secure/data_secure.py DataSecure.check_sequence_number /
   get_sequence_number).  Sequence numbers are abstracted to ranks (only their order matters); MaxSeq is the rank of 2^48-1. *)
EXTENDS Integers, Sequences
CONSTANTS Senders,             \* senders in the Security Individual Address Table
          MaxSeq
VARIABLES lastValid,           \* [Senders -> last valid sequence number]
          delivered,           \* history of delivered frames <<sender, seq>>
          lastSent             \* last sequence number used for sending (-1: none yet), "next" is any greater one
vars == <<lastValid, delivered, lastSent>>
\* a frame from sender s (0 = not in the table) with number n; ok = it verifies (genuine MAC, right key, untampered)
Accept(s, n, ok) == s \in Senders /\ n > lastValid[s] /\ ok
Recv(s, n, ok) ==
  /\ IF Accept(s, n, ok)
       THEN lastValid' = [lastValid EXCEPT ![s] = n] /\ delivered' = Append(delivered, <<s, n>>)
       ELSE UNCHANGED <<lastValid, delivered>>         \* in particular a frame failing verification does not advance the counter
  /\ UNCHANGED lastSent
SendOk(n) == n > lastSent /\ n <= MaxSeq /\ lastSent' = n /\ UNCHANGED <<lastValid, delivered>>
SendExhausted == lastSent >= MaxSeq /\ UNCHANGED vars
\* ---- C17 over the history
DeliveredIncreasing == \A a, b \in 1..Len(delivered) : (a < b /\ delivered[a][1] = delivered[b][1]) => delivered[a][2] < delivered[b][2]
OnlyKnownSenders == \A a \in 1..Len(delivered) : delivered[a][1] \in Senders
=============================================================================
