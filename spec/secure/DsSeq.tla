------------------------------- MODULE DsSeq -------------------------------
(* KNX Data Secure sequence number handling (xknx/secure/data_secure.py DataSecure.check_sequence_number /
   get_sequence_number).  Sequence numbers are abstracted to ranks (only their order matters); MaxSeq is the rank of 2^48-1. *)
EXTENDS Integers, Sequences
CONSTANTS Senders,             \* senders in the Security Individual Address Table
          MaxSeq
VARIABLES lastValid,           \* [Senders -> last valid sequence number]
          delivered,           \* history of delivered frames <<sender, seq>>
          lastSent,            \* last sequence number taken for sending (-1: none yet), "next" is any greater one
          wire                 \* the numbers of the secured frames that left the instance, in order
vars == <<lastValid, delivered, lastSent, wire>>
\* a frame from sender s (0 = not in the table) with number n; ok = it verifies (genuine MAC, right key, untampered)
Accept(s, n, ok) == s \in Senders /\ n > lastValid[s] /\ ok
Recv(s, n, ok) ==
  /\ IF Accept(s, n, ok)
       THEN lastValid' = [lastValid EXCEPT ![s] = n] /\ delivered' = Append(delivered, <<s, n>>)
       ELSE UNCHANGED <<lastValid, delivered>>         \* in particular a frame failing verification does not advance the counter
  /\ UNCHANGED <<lastSent, wire>>
\* CEMIHandler.send_telegram: the frame is secured with the next number (get_sequence_number), then handed to the interface.
\* The interface may fail after the frame left (a tunnel that gets no acknowledgement raises, the frame has been on the bus)
\* - that is still SendOk - or before (not connected, frame not serialisable): SendDropped, the number is used up or not, never reused
\* for a frame that left.
SendOk(n) == n > lastSent /\ n <= MaxSeq /\ lastSent' = n /\ wire' = Append(wire, n) /\ UNCHANGED <<lastValid, delivered>>
SendDropped(n) == n >= lastSent /\ n <= MaxSeq /\ lastSent' = n /\ UNCHANGED <<lastValid, delivered, wire>>
SendExhausted == lastSent >= MaxSeq /\ UNCHANGED vars
\* ---- C17 over the history
DeliveredIncreasing == \A a, b \in 1..Len(delivered) : (a < b /\ delivered[a][1] = delivered[b][1]) => delivered[a][2] < delivered[b][2]
WireIncreasing == \A a, b \in 1..Len(wire) : a < b => wire[a] < wire[b]
WireWithin48Bits == \A a \in 1..Len(wire) : wire[a] <= MaxSeq
OnlyKnownSenders == \A a \in 1..Len(delivered) : delivered[a][1] \in Senders
=============================================================================
