INIT Init
NEXT Next
