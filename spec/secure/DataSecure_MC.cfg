SPECIFICATION Spec
CONSTANTS Keys = {"k"} Addrs = {1, 2} Apdus = {"a", "b"}
INVARIANT OnlyWhatWasSent
CHECK_DEADLOCK FALSE
