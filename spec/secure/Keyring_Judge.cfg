INIT Init
NEXT Next
