----------------------------- MODULE Ccm_Judge -----------------------------
(* C19.  Cases [key, seq, addr, at, eff, tpci, scf, alg, apdu, out] recorded from SecureData.init_from_plain_apdu().to_knx();
   `anchor = 1` marks cases whose `out` was not produced by xknx (captured frame, AN158 Annex A): they validate the reference. *)
EXTENDS Ccm, Json, IOUtils
Cases == ndJsonDeserialize(IOEnv.TRACE_FILE)
Expected(c) == IF c.alg = 1 THEN SecureEnc(c.key, c.seq, c.addr, c.at, c.eff, c.tpci, c.scf, c.apdu)
                           ELSE SecureAuth(c.key, c.seq, c.addr, c.at, c.eff, c.tpci, c.scf, c.apdu)
Bad == {i \in 1..Len(Cases) : Expected(Cases[i]) # Cases[i].out}
ASSUME PrintT(<<"RESULT", Len(Cases), Bad>>)
VARIABLE x
Init == x = 0
Next == UNCHANGED x
=============================================================================
