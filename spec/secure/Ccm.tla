-------------------------------- MODULE Ccm --------------------------------
(* KNX Data Secure authenticated encryption (KNX AN158 / 03_03_07 §5.1: CCM with a 4 octet MAC; MAC and payload are
   CTR-encrypted with one contiguous key stream starting at counter block 0), written from the specification.
   Anchored by two externally produced frames (a captured group frame and the AN158 Annex A example) in Ccm_Judge. *)
EXTENDS AES
\* helpers on octet sequences (all by-value function definitions)
Pad16[s \in Seq(Byte)] == IF Len(s) % 16 = 0 THEN s ELSE s \o [i \in 1..(16 - (Len(s) % 16)) |-> 0]
Block(s, k) == [i \in 1..16 |-> s[16*(k-1) + i]]
XorBlk(a, b) == [i \in 1..16 |-> a[i] ^^ b[i]]
\* CBC-MAC with zero IV over padded data: returns last cipher block
CbcStep[w \in Seq(Byte), s \in Seq(Byte), k \in Nat, y \in Blk] ==
  IF 16*(k-1) >= Len(s) THEN y ELSE CbcStep[w, s, k+1, Encrypt(w, XorBlk(y, Block(s, k)))]
CbcMac(w, data) == CbcStep[w, Pad16[data], 1, [i \in 1..16 |-> 0]]
\* CTR: counter block = ctr0 with last octet incremented per block (KNX uses 1-octet counter at the end)
CtrBlock(ctr0, n) == [i \in 1..16 |-> IF i = 16 THEN (ctr0[16] + n) % 256 ELSE ctr0[i]]
CtrStream[w \in Seq(Byte), ctr0 \in Blk, n \in Nat, need \in Nat, acc \in Seq(Byte)] ==
  IF Len(acc) >= need THEN SubSeq(acc, 1, need) ELSE CtrStream[w, ctr0, n+1, need, acc \o Encrypt(w, CtrBlock(ctr0, n))]
\* encrypt: first MAC (with counter n=0), then payload with counters 1..
CtrCrypt(w, ctr0, mac, payload) ==
  LET ks == CtrStream[w, ctr0, 0, Len(mac) + Len(payload), <<>>]
  IN [m |-> [i \in 1..Len(mac) |-> mac[i] ^^ ks[i]],
      c |-> [i \in 1..Len(payload) |-> payload[i] ^^ ks[Len(mac) + i]]]
\* KNX Data Secure (S-A_Data)
B0(seq, addr, at, eff, tpci, plen) == seq \o addr \o <<0, at * 128 + eff, (tpci * 4 + 3) % 256, 241, 0, plen>>
Ctr0(seq, addr) == seq \o addr \o <<0, 0, 0, 0, 1, 0>>
U16(n) == <<n \div 256, n % 256>>
\* encryption + authentication
SecureEnc(key, seq, addr, at, eff, tpci, scf, apdu) ==
  LET w == KeyExp[key]
      assoc == <<scf>>
      blocks == B0(seq, addr, at, eff, tpci, Len(apdu)) \o U16(Len(assoc)) \o assoc \o apdu
      mac4 == SubSeq(CbcMac(w, blocks), 1, 4)
      r == CtrCrypt(w, Ctr0(seq, addr), mac4, apdu)
  IN seq \o r.c \o r.m
\* authentication only
SecureAuth(key, seq, addr, at, eff, tpci, scf, apdu) ==
  LET w == KeyExp[key]
      assoc == <<scf>> \o apdu
      blocks == B0(seq, addr, at, eff, tpci, 0) \o U16(Len(assoc)) \o assoc
      mac4 == SubSeq(CbcMac(w, blocks), 1, 4)
  IN seq \o apdu \o mac4
=============================================================================
