------------------------------ MODULE IpSecure ------------------------------
(* KNX IP Secure authenticated encryption (KNX AN159 / 03_08_09 2.2.1.2: CCM with a 16 octet MAC), written from the specification
   on top of the AES / CBC-MAC / CTR definitions of Ccm.tla.
     secure wrapper    B0 = sequence info (6) | serial number (6) | message tag (2) | payload length (2)
                       associated data A = wrapper header (6) | session id (2), preceded by its 2-octet length
                       MAC = CBC-MAC(B0 | len(A) | A | payload);  counter block 0 = sequence info | serial | tag | FF 00
                       the MAC is encrypted with counter block 0, the payload with the following blocks
     timer notify      B0 = timer value (6) | serial (6) | tag (2) | 00 00;  A = the 6-octet header;  no payload
     session response  B0 = 0;  A = header | session id | (client public key XOR server public key);  counter block 0 = 0..0 FF 00;
                       key = device authentication code
     session authenticate  B0 = 0;  A = header | 00 | user id | (public keys XOR);  key = user password key
   (password keys come from PBKDF2-HMAC-SHA256, which is not specified here: they are inputs.)
   Anchored in IpSecure_Judge by the example values of the KNX specification. *)
EXTENDS Ccm
Zero16 == [i \in 1..16 |-> 0]
CtrHandshake == [i \in 1..16 |-> IF i = 15 THEN 255 ELSE 0]
\* CBC-MAC of B0 | len(A) | A | payload, then CTR: returns [m |-> encrypted MAC (16), c |-> encrypted payload]
Ccm16(key, b0, a, payload, ctr0) ==
  LET w == KeyExp[key]
      mac == CbcMac(w, b0 \o U16(Len(a)) \o a \o payload)
  IN CtrCrypt(w, ctr0, mac, payload)
Wrapper(key, header, sid, seq, serial, tag, payload) ==
  LET r == Ccm16(key, seq \o serial \o tag \o U16(Len(payload)), header \o sid, payload, seq \o serial \o tag \o <<255, 0>>)
  IN sid \o seq \o serial \o tag \o r.c \o r.m                        \* body of the SecureWrapper frame
TimerNotifyMac(key, header, timer, serial, tag) ==
  Ccm16(key, timer \o serial \o tag \o <<0, 0>>, header, <<>>, timer \o serial \o tag \o <<255, 0>>).m
SessionResponseMac(devkey, header, sid, xorkeys) == Ccm16(devkey, Zero16, header \o sid \o xorkeys, <<>>, CtrHandshake).m
SessionAuthenticateMac(userkey, header, userid, xorkeys) == Ccm16(userkey, Zero16, header \o <<0, userid>> \o xorkeys, <<>>, CtrHandshake).m
=============================================================================
