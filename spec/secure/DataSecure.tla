----------------------------- MODULE DataSecure -----------------------------
(* KNX Data Secure on group frames: what protects what   (xknx/secure/data_secure.py DataSecure.received_cemi / outgoing_cemi,
   xknx/secure/data_secure_asdu.py, xknx/cemi/cemi_handler.py).  KNX v02.01.01 Application Layer 03.03.07 5.1.3:
   block B0 and the associated data cover sequence number, source and destination address, address type, extended frame
   format, TPCI, security control field and the APDU.
   (1) bit map of an L_Data frame carrying a secure APDU and the verdict the property gives for a change of each bit;
   (2) laws for C15 / C16 / C18 on recorded cases;  (3) a symbolic protocol model (DataSecure_MC). *)
EXTENDS Integers, Sequences
\* ---- (1) layout of the cEMI octets (no additional info): octet numbers from 0
\*  0 message code | 1 add.info length | 2 ctrl1 | 3 ctrl2 | 4-5 source | 6-7 destination | 8 NPDU length | 9 TPCI/APCI | 10 APCI |
\*  11 SCF | 12-17 sequence number | 18 .. 18+n-1 secured payload | last 4 octets MAC          (n = plain APDU length)
\* a bit is numbered 8 * octet + (7 - position), i.e. bit 0 is the most significant bit of octet 0
Field(n, bit) ==
  LET o == bit \div 8  p == 7 - (bit % 8) IN          \* p = bit position, 7 = most significant
  CASE o = 0 -> "msgcode"
    [] o = 1 -> "addinfo"
    [] o = 2 -> (CASE p = 7 -> "frametype" [] p = 6 -> "reserved" [] p = 5 -> "repeat" [] p = 4 -> "sysbroadcast"
                   [] p \in {3, 2} -> "priority" [] p = 1 -> "ackreq" [] OTHER -> "confirm")
    [] o = 3 -> (CASE p = 7 -> "addrtype" [] p \in {6, 5, 4} -> "hopcount" [] OTHER -> "eff")
    [] o \in {4, 5} -> "source"
    [] o \in {6, 7} -> "destination"
    [] o = 8 -> "length"
    [] o = 9 -> (IF p >= 2 THEN "tpci" ELSE "apci")
    [] o = 10 -> "apci"
    [] o = 11 -> "scf"
    [] o \in 12..17 -> "seq"
    [] o \in 18..(18 + n - 1) -> "payload"
    [] OTHER -> "mac"
Protected == {"addrtype", "eff", "source", "destination", "tpci", "scf", "seq", "payload", "mac"}
Unprotected == {"priority", "repeat", "hopcount", "frametype"}       \* control bits the statement lists as not protected
\* everything else (message code, additional info, length, APCI, reserved / system broadcast / acknowledge / confirm bits)
\* is structural: the statement gives no verdict on acceptance, only that nothing raises
\* ---- (2) laws.  out: "delivered" | "discarded" | "raised";  same = 1: the delivered APDU equals the original, marked secure
\* (a corrupted copy received before the genuine frame - pre = 1 - must not change that)
C15Ok(c) == c.out = "delivered" /\ c.same = 1 /\ c.secure = 1 /\ c.keyissue = 0
C16Ok(c) ==
  CASE c.mut = "bit" -> LET f == Field(c.n, c.bit) IN
                         IF f \in Protected THEN c.out = "discarded"
                         ELSE IF f \in Unprotected THEN c.out = "delivered" /\ c.same = 1
                         ELSE c.out # "raised" /\ (c.out = "delivered" => c.same = 1)
    [] c.mut \in {"wrongkey", "truncated", "resized", "otherdst", "othersrc"} -> c.out = "discarded"
    [] c.mut = "genuine" -> c.out = "delivered" /\ c.same = 1        \* (the frame secured with the key the receiver is configured with now)
    [] OTHER -> FALSE
C18Ok(c) ==
  CASE c.kind = "plain_in"  -> IF c.keyed = 1 THEN c.out = "discarded" /\ c.keyissue = 1 /\ c.device = 0 /\ c.cb = 0
                                ELSE c.out = "delivered" /\ c.secure = 0
    [] c.kind = "out"       -> IF c.keyed = 1 THEN c.onwire_secure \in {1, -1}     \* to a secured address: secured, or refused (-1: nothing sent)
                                ELSE c.onwire_secure = 0
    [] c.kind = "malformed" -> c.out = "discarded"                      \* authentic, but the content cannot be used: never raises
    [] c.kind = "garbage"   -> c.out # "raised"
    [] OTHER -> FALSE
=============================================================================
