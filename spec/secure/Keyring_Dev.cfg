INIT Init
NEXT Next
INVARIANT InjectiveNoLen
