--------------------------- MODULE Keyring_Judge ---------------------------
EXTENDS Keyring, Json, IOUtils, TLC
Cases == ndJsonDeserialize(IOEnv.TRACE_FILE)
Bad == {i \in 1..Len(Cases) : ~CaseOk(Cases[i])}
\* anchor: <A x="y"><B/></A>  ->  1 1 'A' 1 'x' 1 'y' 1 1 'B' 2 2
ASSUME Canon([tag |-> <<65>>, attrs |-> << <<<<120>>, <<121>>>> >>, kids |-> <<[tag |-> <<66>>, attrs |-> <<>>, kids |-> <<>>]>>]) = <<1, 1, 65, 1, 120, 1, 121, 1, 1, 66, 2, 2>>
ASSUME PrintT(<<"RESULT", Len(Cases), Bad>>)
VARIABLE x
Init == x = 0
Next == UNCHANGED x
=============================================================================
