---------------------------- MODULE DsSeq_Trace ----------------------------
(* Trace validation for C17.  Item: [init |-> <<initial rank per sender>>, max |-> rank of 2^48-1, ev]; events
   recv {s, n, ok, delivered, lv (rank of the table entry afterwards, -1 for unknown senders)}    send {n, res: "ok"|"error"} *)
EXTENDS Integers, Sequences, Json, IOUtils, TLC
Traces == ndJsonDeserialize(IOEnv.TRACE_FILE)
VARIABLES lastValid, delivered, lastSent, wire, tid, l
vars == <<lastValid, delivered, lastSent, wire, tid, l>>
S == INSTANCE DsSeq WITH Senders <- 1..3, MaxSeq <- 0
Ev == Traces[tid].ev[l]
Max == Traces[tid].max
TInit == /\ tid \in 1..Len(Traces) /\ l = 1 /\ delivered = <<>> /\ wire = <<>> /\ lastSent = Traces[tid].sent0
         /\ lastValid = [s \in 1..3 |-> Traces[tid].init[s]]
Step ==
  /\ l <= Len(Traces[tid].ev) /\ l' = l + 1 /\ UNCHANGED tid
  /\ \/ /\ Ev.ev = "recv" /\ S!Recv(Ev.s, Ev.n, Ev.ok = 1)
        /\ (Ev.delivered = 1) <=> S!Accept(Ev.s, Ev.n, Ev.ok = 1)
        /\ Ev.s \in 1..3 => lastValid'[Ev.s] = Ev.lv
     \/ /\ Ev.ev = "send" /\ Ev.res = "ok" /\ Ev.n > lastSent /\ Ev.n <= Max /\ lastSent' = Ev.n /\ wire' = Append(wire, Ev.n) /\ UNCHANGED <<lastValid, delivered>>
     \* nothing left the instance: the number (consecutive numbers have consecutive ranks here) is used up or not
     \/ /\ Ev.ev = "send" /\ Ev.res = "notsent" /\ lastSent < Max /\ lastSent' \in {lastSent, lastSent + 1} /\ UNCHANGED <<lastValid, delivered, wire>>
     \/ /\ Ev.ev = "send" /\ Ev.res = "error" /\ lastSent >= Max /\ UNCHANGED <<lastValid, delivered, lastSent, wire>>
Inv == S!DeliveredIncreasing /\ S!OnlyKnownSenders /\ S!WireIncreasing /\ (lastSent >= Max => lastSent = Max)
\* the invariants are part of the step: a trace leading to a violating state is rejected (and reported), TLC does not abort
TStep == Step /\ Inv'
TSpec == TInit /\ [][TStep]_vars
Mark == /\ TLCSet(2, [TLCGet(2) EXCEPT ![tid] = IF @ < l THEN l ELSE @])
        /\ (l = Len(Traces[tid].ev) + 1 => TLCSet(1, TLCGet(1) \cup {tid}))
Post == LET bad == (1..Len(Traces)) \ TLCGet(1) IN PrintT(<<"RESULT", Len(Traces), {<<t, TLCGet(2)[t]>> : t \in bad}>>)
ASSUME TLCSet(1, {}) /\ TLCSet(2, [t \in 1..Len(Traces) |-> 0])
=============================================================================
