---------------------------- MODULE DataSecure_MC ----------------------------
(* Symbolic protocol model: a secured frame carries mac = <<key, protected fields>>; the receiver recomputes it with the key
   of the destination.  An attacker may change any field of frames seen on the bus, or re-key them.  Checked: only frames
   whose protected fields are those the sender secured are delivered, and they deliver the original APDU. *)
EXTENDS Integers, Sequences, FiniteSets
CONSTANTS Keys, Addrs, Apdus
VARIABLES bus, delivered, sent
vars == <<bus, delivered, sent>>
Prot(f) == <<f.seq, f.src, f.dst, f.at, f.eff, f.tpci, f.scf, f.apdu>>
KeyOf(dst) == CHOOSE k \in Keys : TRUE            \* one group, one key; the attacker's key is modelled by "badkey"
Secure(f, key) == [f EXCEPT !.mac = <<key, Prot(f)>>]
Plain == [seq : {1}, src : Addrs, dst : {1}, at : {"group"}, eff : {0}, tpci : {"group"}, scf : {16},
          apdu : Apdus, prio : {0}, hop : {6}, mac : {<<>>}]
Init == bus = {} /\ delivered = {} /\ sent = {}
Send == \E f \in Plain : Cardinality(sent) < 1 /\ bus' = bus \cup {Secure(f, KeyOf(f.dst))} /\ sent' = sent \cup {Prot(f)}
        /\ UNCHANGED delivered
Tamper == \E f \in bus : Cardinality(bus) < 4 /\
            \E g \in {[f EXCEPT !.seq = 3 - f.seq], [f EXCEPT !.tpci = IF f.tpci = "group" THEN "tag" ELSE "group"],
                      [f EXCEPT !.scf = 16 - f.scf], [f EXCEPT !.prio = 1 - f.prio], [f EXCEPT !.hop = 11 - f.hop],
                      [f EXCEPT !.mac = <<"badkey", Prot(f)>>]} \cup {[f EXCEPT !.apdu = a] : a \in Apdus} \cup {[f EXCEPT !.src = a] : a \in Addrs} :
               bus' = bus \cup {g} /\ UNCHANGED <<delivered, sent>>
Receive == \E f \in bus : f.mac = <<KeyOf(f.dst), Prot(f)>> /\ delivered' = delivered \cup {Prot(f)} /\ UNCHANGED <<bus, sent>>
Next == Send \/ Tamper \/ Receive
Spec == Init /\ [][Next]_vars
OnlyWhatWasSent == delivered \subseteq sent
=============================================================================
