------------------------------ MODULE Keyring ------------------------------
(* C31 - ETS keyring files   (xknx/secure/keyring.py).
   (a) the signed canonical form of the XML tree, (b) the tables a loaded keyring provides, (c) the laws over recorded load / tamper sessions.
   Strings are sequences of octets (UTF-8). *)
EXTENDS Integers, Sequences, FiniteSets
\* ---- (a) canonical form.  A tree is [tag, attrs, kids]: attrs a sequence of <<name, value>> sorted by name, without "xmlns" and "Signature".
\*   element:  1, len(tag), tag, { len(name), name, len(value), value }*, children ..., 2          (lengths: one octet, modulo 256)
Str(s) == <<Len(s) % 256>> \o s
RECURSIVE Concat(_)
Concat(ss) == IF ss = <<>> THEN <<>> ELSE Head(ss) \o Concat(Tail(ss))
RECURSIVE Canon(_)
Canon(t) == <<1>> \o Str(t.tag)
            \o Concat([i \in 1..Len(t.attrs) |-> Str(t.attrs[i][1]) \o Str(t.attrs[i][2])])
            \o Concat([i \in 1..Len(t.kids) |-> Canon(t.kids[i])])
            \o <<2>>
Signed(t, pwhash64) == Canon(t) \o Str(pwhash64)              \* ... followed by the base64 text of the password hash; SHA-256, first 16 octets
\* ---- (b) tables.  content = [groups: {<<ga, key>>}, ifaces: <<[ia, groups: <<[ga, senders: <<ia>>]>>]>>, devices: <<[ia, seq]>>]
SendersOf(c) == UNION {UNION {{c.ifaces[i].groups[j].senders[k] : k \in 1..Len(c.ifaces[i].groups[j].senders)} : j \in 1..Len(c.ifaces[i].groups)} : i \in 1..Len(c.ifaces)}
DeviceIas(c) == {c.devices[i].ia : i \in 1..Len(c.devices)}
LastDevice(c, ia) == CHOOSE i \in 1..Len(c.devices) : c.devices[i].ia = ia /\ \A j \in (i + 1)..Len(c.devices) : c.devices[j].ia # ia
\* every sender of an interface's group entry starts at 0; a device entry gives its own counter (the full-project export)
SenderTable(c) == {<<ia, "0">> : ia \in SendersOf(c) \ DeviceIas(c)} \cup {<<ia, c.devices[LastDevice(c, ia)].seq>> : ia \in DeviceIas(c)}
\* ---- (c) laws
\* load with the right password: c = [content, loaded: [senders: <<<<ia, seq>>>>, ...], flags]
LoadOk(c) == /\ c.out = "ok"
             /\ {<<c.senders[i][1], c.senders[i][2]>> : i \in 1..Len(c.senders)} = SenderTable(c.content)
             /\ c.groups_eq = 1 /\ c.backbone_eq = 1 /\ c.ifaces_eq = 1 /\ c.devices_eq = 1
\* the writer's canonical octets are the ones this module defines
CanonOk(c) == Canon(c.tree) = c.canon
\* a changed file / a wrong password: the signature check refuses (load raises InvalidSecureConfiguration); an unchanged meaning may pass
TamperOk(c) == c.verdict = "rejected" \/ (c.signed_change = 0 /\ c.verdict = "accepted" /\ c.content_same = 1)
CaseOk(c) == CASE c.t = "load" -> LoadOk(c) [] c.t = "canon" -> CanonOk(c) [] c.t = "tamper" -> TamperOk(c) [] OTHER -> FALSE
=============================================================================
