INIT Init
NEXT Next
INVARIANT Injective
