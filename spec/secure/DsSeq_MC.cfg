SPECIFICATION Spec
CONSTANTS Senders = {1, 2}  MaxSeq = 4
INVARIANT DeliveredIncreasing
INVARIANT OnlyKnownSenders
INVARIANT AboveInitial
INVARIANT SentWithin48Bits
INVARIANT WireIncreasing
INVARIANT WireWithin48Bits
CHECK_DEADLOCK FALSE
