INIT Init
NEXT Next
