-------------------------- MODULE DataSecure_Judge --------------------------
EXTENDS DataSecure, Json, IOUtils, TLC
Cases == ndJsonDeserialize(IOEnv.TRACE_FILE)
Ok(c) == CASE c.p = "C15" -> C15Ok(c) [] c.p = "C16" -> C16Ok(c) [] c.p = "C18" -> C18Ok(c) [] OTHER -> FALSE
Bad == {i \in 1..Len(Cases) : ~Ok(Cases[i])}
\* the bit map is total and consistent at the field borders for the payload lengths used
ASSUME \A n \in {1, 2, 14, 15, 16, 100} : /\ Field(n, 8 * 18) = "payload" /\ Field(n, 8 * (18 + n) - 1) = "payload"
                                          /\ Field(n, 8 * (18 + n)) = "mac" /\ Field(n, 8 * 11 + 7) = "scf" /\ Field(n, 8 * 12) = "seq"
ASSUME PrintT(<<"RESULT", Len(Cases), Bad>>)
VARIABLE x
Init == x = 0
Next == UNCHANGED x
=============================================================================
