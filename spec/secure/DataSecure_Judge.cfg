INIT Init
NEXT Next
