--------------------------- MODULE IpSecure_Judge ---------------------------
(* C28 cases recorded from the real classes:
     [t |-> "wrap", key, header, sid, seq, serial, tag, payload, out (body of the produced SecureWrapper), unwrapped (1: decrypt_frame gave
            back the identical frame)]
     [t |-> "tamper", what, accepted]            a changed wrapper / key / session id given to decrypt_frame
     [t |-> "notify", key, header, timer, serial, tag, mac]     MAC of a TimerNotify sent by SecureSequenceTimer
     [t |-> "notifyv", key, header, timer, serial, tag, mac, accepted]   verify_timer_notify_mac on a (possibly changed) notify
     [t |-> "sresp", key, header, sid, xor, mac, accepted]      SecureSession.handshake verdict on a SessionResponse MAC
     [t |-> "sauth", key, header, userid, xor, mac]             SessionAuthenticate MAC produced by the client
   anchor = 1: the value was not produced by xknx (KNX specification examples): it validates the reference. *)
EXTENDS IpSecure, Json, IOUtils
Cases == ndJsonDeserialize(IOEnv.TRACE_FILE)
Ok(c) ==
  CASE c.t = "wrap"    -> c.out = Wrapper(c.key, c.header, c.sid, c.seq, c.serial, c.tag, c.payload) /\ c.unwrapped = 1
    [] c.t = "tamper"  -> c.accepted = 0
    [] c.t = "notify"  -> c.mac = TimerNotifyMac(c.key, c.header, c.timer, c.serial, c.tag)
    [] c.t = "notifyv" -> (c.accepted = 1) = (c.mac = TimerNotifyMac(c.key, c.header, c.timer, c.serial, c.tag))
    [] c.t = "sresp"   -> (c.accepted = 1) = (c.mac = SessionResponseMac(c.key, c.header, c.sid, c.xor))
    [] c.t = "sauth"   -> c.mac = SessionAuthenticateMac(c.key, c.header, c.userid, c.xor)
    [] OTHER -> FALSE
Bad == {i \in 1..Len(Cases) : ~Ok(Cases[i])}
ASSUME PrintT(<<"RESULT", Len(Cases), Bad>>)
VARIABLE x
Init == x = 0
Next == UNCHANGED x
=============================================================================
