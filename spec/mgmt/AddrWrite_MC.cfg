SPECIFICATION Spec
CONSTANTS DEV = {1, 2, 3} ADDR = {1, 2, 3} TARGET = 1
INVARIANT WriteOnlyIfSafe
INVARIANT RestartOnlyTarget
INVARIANT NeverNewConflict
INVARIANT OkMeansProgrammed
CHECK_DEADLOCK FALSE
