--------------------------- MODULE AddrWrite_Trace ---------------------------
(* Trace validation for C44 (address write).  Item = [pop, ev]; pop = <<[addr, prog (0/1), beh]>> (target address = 1);
   events: write (IndividualAddressWrite broadcast for the target)   restart {dst}   result {out: ok | err}
           after {pop} (the simulated devices after the procedure)   raised (an exception other than a management error) *)
EXTENDS Integers, Sequences, FiniteSets, Json, IOUtils, TLC
Traces == ndJsonDeserialize(IOEnv.TRACE_FILE)
VARIABLES bus, bus0, wrote, tid, l
vars == <<bus, bus0, wrote, tid, l>>
C == INSTANCE AddrWriteClauses WITH DEV <- 1..4, ADDR <- 0..5, TARGET <- 1
Ev == Traces[tid].ev[l]
Pop(p) == [i \in 1..Len(p) |-> [addr |-> p[i].addr, prog |-> p[i].prog = 1, beh |-> p[i].beh]]
TInit == tid \in 1..Len(Traces) /\ l = 1 /\ bus = Pop(Traces[tid].pop) /\ bus0 = bus /\ wrote = FALSE
Step ==
  /\ l <= Len(Traces[tid].ev) /\ l' = l + 1 /\ UNCHANGED <<tid, bus0>>
  /\ \/ Ev.ev = "write" /\ C!WriteSafe(bus) /\ bus' = C!Written(bus) /\ wrote' = TRUE
     \/ Ev.ev = "restart" /\ Ev.dst = 1 /\ bus' = C!Restarted(bus, 1) /\ UNCHANGED wrote       \* only the device at the target address
     \/ Ev.ev = "result" /\ (Ev.out = "ok" => \E i \in DOMAIN bus : bus0[i].prog /\ bus[i].addr = 1) /\ UNCHANGED <<bus, wrote>>
     \/ Ev.ev = "after" /\ C!NoNewConflict(bus0, Pop(Ev.pop)) /\ Pop(Ev.pop) = bus /\ UNCHANGED <<bus, wrote>>
TSpec == TInit /\ [][Step]_vars
Mark == /\ TLCSet(2, [TLCGet(2) EXCEPT ![tid] = IF @ < l THEN l ELSE @])
        /\ (l = Len(Traces[tid].ev) + 1 => TLCSet(1, TLCGet(1) \cup {tid}))
Post == LET bad == (1..Len(Traces)) \ TLCGet(1) IN PrintT(<<"RESULT", Len(Traces), {<<t, TLCGet(2)[t]>> : t \in bad}>>)
ASSUME TLCSet(1, {}) /\ TLCSet(2, [t \in 1..Len(Traces) |-> 0])
=============================================================================
