------------------------------- MODULE P2P_MC -------------------------------
(* Exhaustive exploration of P2P (modulus 4) against an arbitrary peer: two requests, every order of outgoing frames,
   acknowledgements, incoming data frames with any number from the peer or another device, disconnects.
   Checked on every step: acknowledgements go to the peer only and for the expected / preceding number, outgoing numbers
   advance by one modulo M (a repetition repeats), a response is returned once and only after a frame with that number and
   type was accepted. *)
EXTENDS P2P
VARIABLES ntx, nrx, lastAck, lastOk
mcvars == <<vars, ntx, nrx, lastAck, lastOk>>
Kinds == {"A", "B"}
MCInit == InitWith(0) /\ ntx = 0 /\ nrx = 0 /\ lastAck = <<>> /\ lastOk = <<>>
MCNext ==
  \/ ~open /\ ntx < 4 /\ TxConnect /\ ntx' = ntx + 1 /\ UNCHANGED <<nrx, lastAck, lastOk>>
  \/ open /\ TxDisconnect /\ UNCHANGED <<ntx, nrx, lastAck, lastOk>>
  \/ \E s \in 0..M - 1 : ntx < 4 /\ open /\ DOMAIN calls # {} /\ TxData(s) /\ ntx' = ntx + 1 /\ UNCHANGED <<nrx, lastAck, lastOk>>
  \/ \E d \in {0, 1}, s \in 0..M - 1 : TxAck(d, s) /\ lastAck' = <<d, s, seqRcv>> /\ UNCHANGED <<ntx, nrx, lastOk>>
  \/ \E src \in {0, 1}, s \in 0..M - 1, k \in Kinds : nrx < 3 /\ RxData(src, s, k) /\ nrx' = nrx + 1 /\ UNCHANGED <<ntx, lastAck, lastOk>>
  \/ \E src \in {0, 1} : nrx < 3 /\ RxDisconnect(src) /\ nrx' = nrx + 1 /\ UNCHANGED <<ntx, lastAck, lastOk>>
  \/ \E id \in {1, 2}, k \in Kinds : Cardinality(DOMAIN calls) < 1 /\ Call(id, k, 0) /\ UNCHANGED <<ntx, nrx, lastAck, lastOk>>
  \/ \E id \in {1, 2}, k \in Kinds, s \in 0..M - 1 : RetOk(id, k, s, 0) /\ lastOk' = <<s, k, Head(cand)>> /\ UNCHANGED <<ntx, nrx, lastAck>>
  \/ \E id \in {1, 2}, w \in {"unexpected", "other"} : RetErr(id, w, 0) /\ UNCHANGED <<ntx, nrx, lastAck, lastOk>>
MCSpec == MCInit /\ [][MCNext]_mcvars
AckRule == (lastAck # <<>> => lastAck[1] = 1) /\ \A a \in acks : a[1] = 1       \* never to another device
DataSeq == [][seqSend' # seqSend => (seqSend' = (seqSend + 1) % M \/ (seqSend' = 0 /\ open'))]_mcvars
UsedOnce == lastOk # <<>> => lastOk[3] = [kind |-> lastOk[2], seq |-> lastOk[1]]
=============================================================================
