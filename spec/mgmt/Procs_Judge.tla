----------------------------- MODULE Procs_Judge -----------------------------
(* C44, serial-number procedures and two-step authorization.  Recorded cases of the real procedures against a simulated bus:
     [t |-> "sread", req (serial id), resp (<<[serial, addr]>> responses in arrival order), res (address or -1: None)]
     [t |-> "swrite", req, new (address), resp (responses to the verifying read), out ("ok" | "err")]
     [t |-> "auth2", free, client (levels the device grants for the free / the client key; -1: no answer), calls, out ("ok"|"err"), res]
   Reference: a serial-number procedure acts only on responses carrying the requested serial number; two-step authorization
   returns the better (numerically lower) of the two levels it obtained. *)
EXTENDS Integers, Sequences, Json, IOUtils, TLC
Cases == ndJsonDeserialize(IOEnv.TRACE_FILE)
Matching(c) == SelectSeq(c.resp, LAMBDA r : r.serial = c.req)
OkSRead(c) == IF Matching(c) = <<>> THEN c.res = -1 ELSE \E i \in 1..Len(Matching(c)) : c.res = Matching(c)[i].addr
OkSWrite(c) == c.out = "ok" <=> (Matching(c) # <<>> /\ Matching(c)[1].addr = c.new)
Min(a, b) == IF a < b THEN a ELSE b
OkAuth2(c) == IF c.free = -1 \/ (c.free # 0 /\ c.client = -1) THEN c.out = "err"
              ELSE c.out = "ok" /\ c.res = (IF c.free = 0 THEN 0 ELSE Min(c.free, c.client))
Ok(c) == CASE c.t = "sread" -> OkSRead(c) [] c.t = "swrite" -> OkSWrite(c) [] c.t = "auth2" -> OkAuth2(c) [] OTHER -> FALSE
Bad == {i \in 1..Len(Cases) : ~Ok(Cases[i])}
ASSUME PrintT(<<"RESULT", Len(Cases), Bad>>)
VARIABLE x
Init == x = 0
Next == UNCHANGED x
=============================================================================
