SPECIFICATION MCSpec
CONSTANTS M = 4 BOUND = 0
INVARIANT AckRule
INVARIANT UsedOnce
PROPERTY DataSeq
CHECK_DEADLOCK FALSE
