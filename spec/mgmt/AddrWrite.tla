----------------------------- MODULE AddrWrite -----------------------------
(* Operational model of NM_IndividualAddress_Write, one step per management service, judged by the clauses of
   AddrWriteClauses; model-checked over every population (AddrWrite_MC). *)
EXTENDS AddrWriteClauses
\* ---- operational model of the procedure (one step per management service)
VARIABLES bus, bus0, pc, found, progAddrs, result, wrote, restartedAt
vars == <<bus, bus0, pc, found, progAddrs, result, wrote, restartedAt>>
Device == [addr : ADDR, prog : BOOLEAN, beh : {"answers", "refuses", "silent"}]
Init == /\ bus \in [DEV -> Device] /\ bus0 = bus /\ pc = "check" /\ found = FALSE /\ progAddrs = <<>> /\ result = "none"
        /\ wrote = FALSE /\ restartedAt = {}
\* step 1: connect to the target address: a device that answers or refuses shows that the address is in use
Check == /\ pc = "check" /\ found' = (\E i \in DEV : bus[i].addr = TARGET /\ Reacts(bus[i])) /\ pc' = "read"
         /\ UNCHANGED <<bus, bus0, progAddrs, result, wrote, restartedAt>>
\* step 2: IndividualAddressRead: every device in programming mode answers with its address (in some order)
Read == /\ pc = "read"
        /\ \E s \in [1..Cardinality(InProg(bus)) -> InProg(bus)] :
              /\ \A i, j \in DOMAIN s : i # j => s[i] # s[j]
              /\ progAddrs' = [k \in DOMAIN s |-> bus[s[k]].addr]
        /\ pc' = "decide" /\ UNCHANGED <<bus, bus0, found, result, wrote, restartedAt>>
Decide == /\ pc = "decide"
          /\ IF Len(progAddrs) > 1 \/ Len(progAddrs) = 0 THEN pc' = "done" /\ result' = "error" /\ UNCHANGED <<bus, wrote>>
             ELSE IF found /\ progAddrs[1] # TARGET THEN pc' = "done" /\ result' = "error" /\ UNCHANGED <<bus, wrote>>
             ELSE IF found THEN pc' = "restart" /\ UNCHANGED <<bus, result, wrote>>      \* the device already has the address
             ELSE pc' = "restart" /\ bus' = Written(bus) /\ wrote' = TRUE /\ UNCHANGED result
          /\ UNCHANGED <<bus0, found, progAddrs, restartedAt>>
\* step 3: connect to the new address, verify that a device answers, restart it
Restart == /\ pc = "restart"
           /\ IF \E i \in DEV : bus[i].addr = TARGET /\ Reacts(bus[i])
              THEN bus' = Restarted(bus, TARGET) /\ restartedAt' = restartedAt \cup {TARGET} /\ result' = "ok"
              ELSE result' = "error" /\ UNCHANGED <<bus, restartedAt>>
           /\ pc' = "done" /\ UNCHANGED <<bus0, found, progAddrs, wrote>>
Next == Check \/ Read \/ Decide \/ Restart
Spec == Init /\ [][Next]_vars
\* ---- C44 on the model
WriteOnlyIfSafe == wrote => WriteSafe(bus0)
RestartOnlyTarget == restartedAt \subseteq {TARGET}
NeverNewConflict == NoNewConflict(bus0, bus)
OkMeansProgrammed == (pc = "done" /\ result = "ok") => \E i \in DEV : bus0[i].prog /\ bus[i].addr = TARGET
=============================================================================
