-------------------------------- MODULE P2P --------------------------------
(* Point-to-point (connection-oriented) management communication, client role   (xknx/management/management.py
   Management.process / connect, P2PConnection.connect / send_data / _receive / request / process).
   From the connection-oriented state machine of KNX v01.02.02 Transport Layer 03.03.04 5 (SeqNoSend, SeqNoRcv),
   restricted to one peer.  Monitor form; time t in milliseconds.
     open      a connection to the peer is open (T_Connect sent, no T_Disconnect sent or received since)
     seqSend   number the next new T_Data_Connected must carry
     cur       the data frame awaiting its T_ACK: [seq, n (transmissions)] or NoFrame
     seqRcv    number the next data frame of the peer must carry
     cand      data frames of the peer accepted as responses and not yet returned (each is used once)
     acks      (peer, number) pairs for which a T_ACK may be sent
     calls     requests called and not yet returned: id -> [kind (expected response), t]
     DEV_ACK_ALL  named deviation: every numbered data frame is acknowledged (known finding of C43) *)
EXTENDS Integers, Sequences, FiniteSets
CONSTANTS M, BOUND
VARIABLES open, seqSend, cur, seqRcv, cand, acks, calls, dev
vars == <<open, seqSend, cur, seqRcv, cand, acks, calls, dev>>
NoFrame == [seq |-> -1, n |-> 0]
InitWith(d) == /\ open = FALSE /\ seqSend = 0 /\ cur = NoFrame /\ seqRcv = 0 /\ cand = <<>> /\ acks = {}
               /\ calls = <<>> /\ dev = d
Keep(S) == \A v \in S : TRUE
TxConnect == /\ open' = TRUE /\ seqSend' = 0 /\ seqRcv' = 0 /\ cur' = NoFrame /\ cand' = <<>> /\ acks' = {}
             /\ UNCHANGED <<calls, dev>>
TxDisconnect == open' = FALSE /\ cur' = NoFrame /\ UNCHANGED <<seqSend, seqRcv, cand, acks, calls, dev>>
(* a T_Data_Connected with number seq is sent to the peer *)
TxData(seq) ==
  /\ \/ cur = NoFrame /\ seq = seqSend /\ cur' = [seq |-> seq, n |-> 1] /\ seqSend' = (seqSend + 1) % M   \* numbers increase modulo 16
     \/ cur # NoFrame /\ seq = cur.seq /\ cur.n = 1 /\ cur' = [cur EXCEPT !.n = 2] /\ UNCHANGED seqSend   \* a repetition reuses its number
  /\ UNCHANGED <<open, seqRcv, cand, acks, calls, dev>>
(* a T_ACK is sent to address dst for number seq: only for a data frame of an open connection carrying the expected or the
   immediately preceding number *)
TxAck(dst, seq) == /\ <<dst, seq>> \in acks /\ acks' = acks \ {<<dst, seq>>}
                   /\ UNCHANGED <<open, seqSend, cur, seqRcv, cand, calls, dev>>
RxAck(seq) == UNCHANGED vars                       \* (which acknowledgement ends the wait is not observable: no constraint)
(* a numbered data frame arrives: src = 1 the peer, 0 another device; kind = class of its application service *)
RxData(src, seq, kind) ==
  /\ LET fits == src = 1 /\ open /\ (seq = seqRcv \/ seq = (seqRcv + M - 1) % M) IN
     acks' = IF fits \/ dev = 1 THEN acks \cup {<<src, seq>>} ELSE acks
  /\ \/ /\ src = 1 /\ open /\ seq = seqRcv              \* accepted as the answer of the running / next request
        /\ cand' = Append(cand, [kind |-> kind, seq |-> seq]) /\ seqRcv' = (seqRcv + 1) % M
     \/ UNCHANGED <<cand, seqRcv>>                      \* not passed on (no request waits, other number, other device)
  /\ UNCHANGED <<open, seqSend, cur, calls, dev>>
RxDisconnect(src) == /\ open' = (IF src = 1 THEN FALSE ELSE open)
                     /\ UNCHANGED <<seqSend, cur, seqRcv, cand, acks, calls, dev>>
RxOther == UNCHANGED vars                           \* T_Connect, unnumbered data, ...: no effect on a request
Call(id, kind, t) == /\ id \notin DOMAIN calls
                     /\ calls' = [i \in DOMAIN calls \cup {id} |-> IF i = id THEN [kind |-> kind, t |-> t] ELSE calls[i]]
                     /\ UNCHANGED <<open, seqSend, cur, seqRcv, cand, acks, dev>>
(* request id returns the response (kind, seq) *)
RetOk(id, kind, seq, t) ==
  /\ id \in DOMAIN calls /\ cand # <<>>
  /\ Head(cand) = [kind |-> kind, seq |-> seq]        \* a frame that carried the expected number, used once
  /\ kind = calls[id].kind                            \* of the expected type
  /\ cand' = Tail(cand) /\ cur' = NoFrame
  /\ calls' = [i \in DOMAIN calls \ {id} |-> calls[i]]
  /\ UNCHANGED <<open, seqSend, seqRcv, acks, dev>>
(* request id fails with a management error.  why = "unexpected": the response had the wrong type - that frame is used up
   by the failure;  any other failure (timeout, refusal, T_NAK) uses no frame *)
RetErr(id, why, t) ==
  /\ id \in DOMAIN calls /\ t <= calls[id].t + BOUND     \* within bounded time
  /\ IF why = "unexpected" THEN cand # <<>> /\ Head(cand).kind # calls[id].kind /\ cand' = Tail(cand)
                            ELSE cand' = cand
  /\ cur' = NoFrame /\ calls' = [i \in DOMAIN calls \ {id} |-> calls[i]]
  /\ UNCHANGED <<open, seqSend, seqRcv, acks, dev>>
(* the caller of request id stopped waiting (its task was cancelled): the request is over, no frame is used, and nothing of it
   stays behind - the next request starts as after any other failure *)
RetGaveUp(id) ==
  /\ id \in DOMAIN calls
  /\ cur' = NoFrame /\ calls' = [i \in DOMAIN calls \ {id} |-> calls[i]]
  /\ UNCHANGED <<open, seqSend, seqRcv, cand, acks, dev>>
=============================================================================
