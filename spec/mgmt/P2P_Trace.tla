----------------------------- MODULE P2P_Trace -----------------------------
(* Trace validation for C43.  Item = [dev, ev]; events (t in ms):
     call {id, kind, t}                      P2PConnection.request entered (kind = expected response class)
     tx {tpci: connect|disconnect|data|ack, seq, dst (1 peer, 0 other)}
     rx {tpci: ack|nak|data|disconnect|other, seq, kind, src (1 peer, 0 other)}   frame handed to handle_raw_cemi
     ret {id, out: ok|err|gaveup, why, kind, seq, t}     request returned / raised a ManagementConnectionError / was cancelled by its caller
   An exception out of the receive path or any other exception of request() is an event nothing explains ("raised:...") *)
EXTENDS Integers, Sequences, FiniteSets, Json, IOUtils, TLC
Traces == ndJsonDeserialize(IOEnv.TRACE_FILE)
VARIABLES open, seqSend, cur, seqRcv, cand, acks, calls, dev, tid, l
vars == <<open, seqSend, cur, seqRcv, cand, acks, calls, dev, tid, l>>
P == INSTANCE P2P WITH M <- 16, BOUND <- 12600
Ev == Traces[tid].ev[l]
TInit == tid \in 1..Len(Traces) /\ l = 1 /\ P!InitWith(Traces[tid].dev)
Step ==
  /\ l <= Len(Traces[tid].ev) /\ l' = l + 1 /\ UNCHANGED tid
  /\ \/ Ev.ev = "call" /\ P!Call(Ev.id, Ev.kind, Ev.t)
     \/ Ev.ev = "tx" /\ Ev.tpci = "connect" /\ P!TxConnect
     \/ Ev.ev = "tx" /\ Ev.tpci = "disconnect" /\ IF Ev.dst = 1 THEN P!TxDisconnect      \* (a T_Connect of another device is refused)
                                                  ELSE UNCHANGED <<open, seqSend, cur, seqRcv, cand, acks, calls, dev>>
     \/ Ev.ev = "tx" /\ Ev.tpci = "data" /\ P!TxData(Ev.seq)
     \/ Ev.ev = "tx" /\ Ev.tpci = "ack" /\ P!TxAck(Ev.dst, Ev.seq)
     \/ Ev.ev = "rx" /\ Ev.tpci \in {"ack", "nak"} /\ P!RxAck(Ev.seq)
     \/ Ev.ev = "rx" /\ Ev.tpci = "data" /\ P!RxData(Ev.src, Ev.seq, Ev.kind)
     \/ Ev.ev = "rx" /\ Ev.tpci = "disconnect" /\ P!RxDisconnect(Ev.src)
     \/ Ev.ev = "rx" /\ Ev.tpci = "other" /\ P!RxOther
     \/ Ev.ev = "ret" /\ Ev.out = "ok" /\ P!RetOk(Ev.id, Ev.kind, Ev.seq, Ev.t)
     \/ Ev.ev = "ret" /\ Ev.out = "err" /\ P!RetErr(Ev.id, Ev.why, Ev.t)
     \/ Ev.ev = "ret" /\ Ev.out = "gaveup" /\ P!RetGaveUp(Ev.id)
TSpec == TInit /\ [][Step]_vars
Mark == /\ TLCSet(2, [TLCGet(2) EXCEPT ![tid] = IF @ < l THEN l ELSE @])
        /\ (l = Len(Traces[tid].ev) + 1 => TLCSet(1, TLCGet(1) \cup {tid}))
Post == LET bad == (1..Len(Traces)) \ TLCGet(1) IN PrintT(<<"RESULT", Len(Traces), {<<t, TLCGet(2)[t]>> : t \in bad}>>)
ASSUME TLCSet(1, {}) /\ TLCSet(2, [t \in 1..Len(Traces) |-> 0])
=============================================================================
