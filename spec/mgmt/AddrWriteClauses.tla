-------------------------- MODULE AddrWriteClauses --------------------------
(* NM_IndividualAddress_Write on a bus population   (xknx/management/procedures/network/nm_individual_address_write.py,
   nm_individual_address_check.py, nm_individual_address_read.py, device/dm_restart_r_co.py; KNX v02.01.02 Management
   Procedures 03.05.02 2.3).
   A bus is a function device -> [addr, prog (programming mode), beh \in {"answers", "refuses", "silent"}].
   "silent" devices never react to point-to-point frames: no procedure can detect them, they are outside the clauses.
   The module defines (1) the clauses of C44 as operators over (bus, target), used by the trace module, and
   (2) an operational model of the procedure, model-checked over every population (AddrWrite_MC). *)
EXTENDS Integers, FiniteSets, Sequences
CONSTANTS DEV, ADDR, TARGET
Reacts(d) == d.beh # "silent"
InProg(bus) == {i \in DOMAIN bus : bus[i].prog}
\* another reacting device - not the one being programmed - already uses the target address
Occupied(bus) == \E i \in DOMAIN bus : bus[i].addr = TARGET /\ Reacts(bus[i]) /\ ~bus[i].prog
\* ---- C44 clauses
WriteSafe(bus) == Cardinality(InProg(bus)) = 1 /\ ~Occupied(bus)         \* when an IndividualAddressWrite may be broadcast
Conflicts(bus) == {a \in ADDR : Cardinality({i \in DOMAIN bus : bus[i].addr = a /\ Reacts(bus[i])}) > 1}
NoNewConflict(before, after) == Conflicts(after) \subseteq Conflicts(before)
\* effect of the broadcast on the bus: every device in programming mode takes the address
Written(bus) == [i \in DOMAIN bus |-> IF bus[i].prog THEN [bus[i] EXCEPT !.addr = TARGET] ELSE bus[i]]
\* effect of a restart sent to address a: reacting devices there that accepted the connection leave programming mode
Restarted(bus, a) == [i \in DOMAIN bus |-> IF bus[i].addr = a /\ bus[i].beh = "answers" THEN [bus[i] EXCEPT !.prog = FALSE] ELSE bus[i]]

=============================================================================
