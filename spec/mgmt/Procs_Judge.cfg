INIT Init
NEXT Next
