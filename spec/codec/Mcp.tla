-------------------------------- MODULE Mcp --------------------------------
(* C45 - MCP tools   (xknx/mcp/tools.py).
   (a) list_dpts as a paging protocol: the server holds N items; a request (offset, limit) returns the window, the flag "limit reached" and
       next_offset; the client follows next_offset until there is none.  limit < 0: no limit.
   (b) laws over single tool calls: results are JSON-native; encode / decode invert each other on the decode image. *)
EXTENDS Integers, Sequences, FiniteSets
Min(a, b) == IF a < b THEN a ELSE b
Max(a, b) == IF a > b THEN a ELSE b
NoNext == -1
\* ---- the server's answer, as it should be
WindowLen(N, off, limit) == IF off >= N THEN 0 ELSE IF limit < 0 THEN N - off ELSE Min(limit, N - off)
Reached(N, off, limit) == limit >= 0 /\ limit < N - off
NextOff(N, off, limit, NOPROGRESS) ==
  IF Reached(N, off, limit) /\ (NOPROGRESS \/ WindowLen(N, off, limit) > 0) THEN off + WindowLen(N, off, limit) ELSE NoNext
\* ---- the protocol (model-checked for every N, limit)
CONSTANTS MAXN, LIMITS, NOPROGRESS         \* NOPROGRESS = TRUE: the deviation "an empty page still announces a next page"
VARIABLES n, limit, off, got, done
vars == <<n, limit, off, got, done>>
Init == n \in 0..MAXN /\ limit \in LIMITS /\ off = 0 /\ got = <<>> /\ done = FALSE
Fetch == /\ ~done
         /\ got' = got \o [i \in 1..WindowLen(n, off, limit) |-> off + i]
         /\ LET nx == NextOff(n, off, limit, NOPROGRESS) IN IF nx = NoNext THEN done' = TRUE /\ off' = off ELSE done' = FALSE /\ off' = nx
         /\ UNCHANGED <<n, limit>>
Spec == Init /\ [][Fetch]_vars /\ WF_vars(Fetch)
Complete == (done /\ limit # 0) => got = [i \in 1..n |-> i]    \* every item exactly once, in order (a page size of 0 asks for nothing)
NoDuplicates == \A i, j \in 1..Len(got) : i # j => got[i] # got[j]
Terminates == <>done
Bounded == Len(got) <= n                                        \* (keeps the deviation's state space finite: it loops without collecting)
\* ---- a recorded paging session of the real tool: c = [limit, total, ended, pages: <<[off, n, next, reached, total, idx]>>]
PageOk(p, N, lim) == /\ p.n = WindowLen(N, p.off, lim) /\ p.total = N
                     /\ p.reached = (IF Reached(N, p.off, lim) THEN 1 ELSE 0)
                     /\ p.next = NextOff(N, p.off, lim, FALSE)
                     /\ p.idx = [i \in 1..p.n |-> p.off + i]              \* the items of the unpaged listing at these positions
PagesOk(c) == /\ c.ended = 1 /\ Len(c.pages) >= 1 /\ c.pages[1].off = 0
              /\ \A i \in 1..Len(c.pages) : PageOk(c.pages[i], c.total, c.limit)
              /\ \A i \in 1..(Len(c.pages) - 1) : c.pages[i + 1].off = c.pages[i].next
              /\ c.pages[Len(c.pages)].next = NoNext
\* ---- (b)
JsonOk(c) == c.ok = 1                                            \* json.dumps(dataclasses.asdict(result)) succeeded and loads back equal
InverseOk(c) == c.out = "ok" /\ c.same = 1                       \* decode(encode(decode(p))) = decode(p) in JSON form
\* two filters given together select what each of them selects, in catalogue order: both / a / b = positions (in the unfiltered listing)
\* of the entries listed with both filters / with the main number only / with the text only
ConjOk(c) == LET inB == {c.b[k] : k \in 1..Len(c.b)} IN c.both = SelectSeq(c.a, LAMBDA x : x \in inB)
CaseOk(c) == CASE c.t = "pages" -> PagesOk(c) [] c.t = "json" -> JsonOk(c) [] c.t = "inv" -> InverseOk(c) [] c.t = "conj" -> ConjOk(c) [] OTHER -> FALSE
=============================================================================
