-------------------------------- MODULE Dpt --------------------------------
(* Datapoint types   (xknx/dpt/*.py).  Laws of C07 (decoding is total), C08 (decode / encode / decode), C09 (numeric types:
   range and resolution, with reference decoders of the wire formats) and C10 (JSON form), each over one recorded session.

   Numbers are exact: a value is given as an integer number of units, U units making one resolution step of the type
   (so a DPT 8.010 value 1.19 % with U = 1000 is 119000), optionally displaced by eps * tiny (eps in -1, 0, 1; tiny smaller than any
   unit) for the "just below / just above a representable value" cases.  Values of 32 / 64-bit types do not fit TLC's integers and
   are given relative to an anchor (declared minimum, declared maximum, or a point well inside the range). *)
EXTENDS Integers, Sequences, FiniteSets
Abs(x) == IF x < 0 THEN -x ELSE x
Max(a, b) == IF a > b THEN a ELSE b
Pow2(e) == CASE e = 0 -> 1 [] e = 1 -> 2 [] e = 2 -> 4 [] e = 3 -> 8 [] e = 4 -> 16 [] e = 5 -> 32 [] e = 6 -> 64 [] e = 7 -> 128 [] e = 8 -> 256
             [] e = 9 -> 512 [] e = 10 -> 1024 [] e = 11 -> 2048 [] e = 12 -> 4096 [] e = 13 -> 8192 [] e = 14 -> 16384 [] e = 15 -> 32768
\* ---------------------------------------------------------------- C07
Declared == {"value", "parse", "conv"}            \* a value, CouldNotParseTelegram, ConversionError
DecodeOk(c) == c.out \in Declared
ConsumerOk(c) == c.alive = 1 /\ c.processed = c.sent        \* the telegram consumer survived every payload and handled the telegrams after it
\* ---------------------------------------------------------------- C08
\* c = [fam, out, same, lendiff, hi (octets >= 80h in the payload), vdiff (pairs <<code point before, after>> where the text changed)]
Replacement == <<65533, 63>>                       \* U+FFFD comes back as '?'
ReencodeOk(c) ==
  /\ c.out = "ok"
  /\ \/ c.same = 1
     \/ /\ c.fam = "text-ascii" /\ c.lendiff = 0 /\ Len(c.vdiff) <= c.hi          \* only octets outside ASCII can have been replaced
        /\ \A i \in 1..Len(c.vdiff) : <<c.vdiff[i][1], c.vdiff[i][2]>> = Replacement
\* ---------------------------------------------------------------- C09: reference decoders (value in units)
\* fixed point: the payload is the (un)signed number of resolution steps
\*  (woff: DPT 17.001 / 5.010-like offsets - scene numbers 1..64 travel as 0..63)
FixValue(c) == (c.raw + c.woff) * c.U
\* KNX two-octet float (DPT 9): sign (1) exponent (4) mantissa (11), value = 0.01 * M * 2^E with M the twelve-bit two's complement of sign.mantissa
F16M(raw) == (raw % 2048) - 2048 * (raw \div 32768)
F16E(raw) == (raw \div 2048) % 16
F16Value(c) == F16M(c.raw) * Pow2(F16E(c.raw)) * c.U            \* resolution step = one hundredth
\* the smallest exponent whose mantissa range covers v (v in units, U units per hundredth)
F16Fits(v, U, e) == -2048 * Pow2(e) * U <= v /\ v <= 2047 * Pow2(e) * U
F16MinExp(v, U) == IF \E e \in 0..15 : F16Fits(v, U, e) THEN CHOOSE e \in 0..15 : F16Fits(v, U, e) /\ \A f \in 0..(e - 1) : ~F16Fits(v, U, f) ELSE 15
\* |dec - (v + eps*tiny)| < step  for integers dec, v, step and an infinitesimal displacement
Within(dec, v, eps, step) == LET d == dec - v IN Abs(d) < step \/ (d = step /\ eps = 1) \/ (d = -step /\ eps = -1)
InRange(c) == /\ (c.lo < c.v \/ (c.lo = c.v /\ c.eps >= 0))
              /\ (c.v < c.hi \/ (c.v = c.hi /\ c.eps <= 0))
\* less than one step beyond an end of the declared range: the value may be refused, or rounded to the end of the range
\* (reading of "outside the declared range ... rejected": what is quantified is "the boundaries and one step beyond")
NearRange(c, step) == /\ (c.lo - step < c.v \/ (c.lo - step = c.v /\ c.eps = 1))
                      /\ (c.v < c.hi + step \/ (c.v = c.hi + step /\ c.eps = -1))
Good(c) == c.out = "ok" /\ c.plen = c.dlen /\ c.dec = "ok" /\ c.decok = 1          \* accepted, declared length, the type decodes its own encoding
Judge(c, step, close) ==
  IF InRange(c) THEN Good(c) /\ close
  ELSE IF NearRange(c, step) THEN c.out = "conv" \/ (Good(c) /\ close /\ c.lo <= c.decv /\ c.decv <= c.hi)
  ELSE c.out = "conv"
\* fixed point: the decoded value is the reference value of the payload and less than a step from the given one
NumFixOk(c) == Judge(c, c.U, c.out = "ok" => (c.decv = FixValue(c) /\ Within(c.decv, c.v, c.eps, c.U)))
\* one-octet types scaled onto 0..255 (5.001: 0..100 %, 5.003: 0..360 degrees): value = lo + raw * span / 255, decoded to whole resolution steps;
\* one step = max(resolution, span / 255)
NumScaledOk(c) ==
  LET span == c.hi - c.lo  step255 == Max(255 * c.U, span) IN
  Judge(c, Max(c.U, span \div 255 + 1),
        c.out = "ok" => /\ 2 * Abs((c.decv - c.lo) * 255 - c.raw * span) <= 255 * c.U          \* decoded = reference value rounded to a whole step
                        /\ Within(c.decv, c.v, c.eps, Max(c.U, span \div 255 + 1)))
NumF16Ok(c) ==
  LET step == Pow2(F16MinExp(c.v, c.U)) * c.U IN
  Judge(c, step, c.out = "ok" => (c.decv = F16Value(c) /\ Within(c.decv, c.v, c.eps, step)))
\* 32 / 64-bit integers: v = anchor + off (+ 1/2 if half = 1); rawoff = (payload as an integer) - anchor - off
BigIn(c) == \/ c.anchor = "in"
            \/ c.anchor = "min" /\ c.off >= 0
            \/ c.anchor = "max" /\ (c.off < 0 \/ (c.off = 0 /\ c.half = 0))
BigNear(c) == (c.anchor = "min" /\ c.off = -1 /\ c.half = 1) \/ (c.anchor = "max" /\ c.off = 0 /\ c.half = 1)
BigGood(c) == Good(c) /\ (IF c.half = 0 THEN c.rawoff = 0 ELSE c.rawoff \in {0, 1})
NumBigOk(c) == IF BigIn(c) THEN BigGood(c) ELSE IF BigNear(c) THEN c.out = "conv" \/ BigGood(c) ELSE c.out = "conv"
\* IEEE binary32 (DPT 14): the grid is supplied by the driver (decok = the decoded value is less than one binary32 step from the given one);
\* "unrep": inside the declared range (which is unbounded for DPT 14) but beyond the largest binary32 number
NumF32Ok(c) == CASE c.zone = "in" -> Good(c) [] c.zone = "out" -> c.out = "conv" [] OTHER -> c.out = "conv" \/ Good(c)
\* a value far beyond every declared range (infinities, NaN, 1e300, 10^400): rejected with the conversion error, whatever the type
FarOk(c) == c.out = "conv"
\* a whole number given as its decimal text (what home-automation front ends hand over) is treated exactly like the number
StrOk(c) == c.same = 1
NumOk(c) == CASE c.fam = "fix" -> NumFixOk(c) [] c.fam = "scaled8" -> NumScaledOk(c) [] c.fam = "f16" -> NumF16Ok(c)
              [] c.fam = "big" -> NumBigOk(c) [] c.fam = "f32" -> NumF32Ok(c) [] OTHER -> FALSE
\* ---------------------------------------------------------------- C10
\* payload -> value -> dictionary / name -> json.dumps -> json.loads -> encoder -> payload -> value
JsonOk(c) == c.out = "ok" /\ c.same = 1
=============================================================================
