-------------------------------- MODULE Dpt --------------------------------
(* Datapoint types   (xknx/dpt/*.py).  Laws of C07 (decoding is total), C08 (decode / encode / decode), C09 (numeric types:
   range and resolution, with reference decoders of the wire formats) and C10 (JSON form), each over one recorded session.

   Numbers are exact: a value is given as an integer number of units, U units making one resolution step of the type
   (so a DPT 8.010 value 1.19 % with U = 1000 is 119000), optionally displaced by eps * tiny (eps in -1, 0, 1; tiny smaller than any
   unit) for the "just below / just above a representable value" cases.  Values of 32 / 64-bit types do not fit TLC's integers and
   are given relative to an anchor (declared minimum, declared maximum, or a point well inside the range). *)
EXTENDS Integers, Sequences, FiniteSets
Abs(x) == IF x < 0 THEN -x ELSE x
Max(a, b) == IF a > b THEN a ELSE b
Pow2(e) == CASE e = 0 -> 1 [] e = 1 -> 2 [] e = 2 -> 4 [] e = 3 -> 8 [] e = 4 -> 16 [] e = 5 -> 32 [] e = 6 -> 64 [] e = 7 -> 128 [] e = 8 -> 256
             [] e = 9 -> 512 [] e = 10 -> 1024 [] e = 11 -> 2048 [] e = 12 -> 4096 [] e = 13 -> 8192 [] e = 14 -> 16384 [] e = 15 -> 32768
\* ---------------------------------------------------------------- C07
Declared == {"value", "parse", "conv"}            \* a value, CouldNotParseTelegram, ConversionError
DecodeOk(c) == c.out \in Declared
ConsumerOk(c) == c.alive = 1 /\ c.processed = c.sent        \* the telegram consumer survived every payload and handled the telegrams after it
\* ---------------------------------------------------------------- C08
\* c = [fam, out, same, lendiff, hi (octets >= 80h in the payload), vdiff (pairs <<code point before, after>> where the text changed)]
Replacement == <<65533, 63>>                       \* U+FFFD comes back as '?'
ReencodeOk(c) ==
  /\ c.out = "ok"
  /\ \/ c.same = 1
     \/ /\ c.fam = "text-ascii" /\ c.lendiff = 0 /\ Len(c.vdiff) <= c.hi          \* only octets outside ASCII can have been replaced
        /\ \A i \in 1..Len(c.vdiff) : <<c.vdiff[i][1], c.vdiff[i][2]>> = Replacement
\* ---------------------------------------------------------------- C09: reference decoders (value in units)
\* fixed point: the payload is the (un)signed number of resolution steps
FixValue(c) == c.raw * c.U
\* KNX two-octet float (DPT 9): sign (1) exponent (4) mantissa (11), value = 0.01 * M * 2^E with M the twelve-bit two's complement of sign.mantissa
F16M(raw) == (raw % 2048) - 2048 * (raw \div 32768)
F16E(raw) == (raw \div 2048) % 16
F16Value(c) == F16M(c.raw) * Pow2(F16E(c.raw)) * c.U            \* resolution step = one hundredth
\* the smallest exponent whose mantissa range covers v (v in units, U units per hundredth)
F16Fits(v, U, e) == -2048 * Pow2(e) * U <= v /\ v <= 2047 * Pow2(e) * U
F16MinExp(v, U) == IF \E e \in 0..15 : F16Fits(v, U, e) THEN CHOOSE e \in 0..15 : F16Fits(v, U, e) /\ \A f \in 0..(e - 1) : ~F16Fits(v, U, f) ELSE 15
\* |dec - (v + eps*tiny)| < step  for integers dec, v, step and an infinitesimal displacement
Within(dec, v, eps, step) == LET d == dec - v IN Abs(d) < step \/ (d = step /\ eps = 1) \/ (d = -step /\ eps = -1)
InRange(c) == /\ (c.lo < c.v \/ (c.lo = c.v /\ c.eps >= 0))
              /\ (c.v < c.hi \/ (c.v = c.hi /\ c.eps <= 0))
NumFixOk(c) ==
  IF InRange(c) THEN /\ c.out = "ok" /\ c.plen = c.dlen /\ c.dec = "ok" /\ c.decok = 1
                     /\ Within(FixValue(c), c.v, c.eps, c.U)
  ELSE c.out = "conv"
\* one-octet types scaled onto 0..255 (5.001: 0..100 %, 5.003: 0..360 degrees): value = lo + raw * span / 255; one step = max(resolution, span / 255)
NumScaledOk(c) ==
  IF InRange(c) THEN /\ c.out = "ok" /\ c.plen = c.dlen /\ c.dec = "ok" /\ c.decok = 1
                     /\ LET span == c.hi - c.lo  step255 == Max(255 * c.U, span) IN
                        Within(c.raw * span, (c.v - c.lo) * 255, c.eps, step255)
  ELSE c.out = "conv"
NumF16Ok(c) ==
  IF InRange(c) THEN /\ c.out = "ok" /\ c.plen = c.dlen
                     /\ Within(F16Value(c), c.v, c.eps, Pow2(F16MinExp(c.v, c.U)) * c.U)
                     /\ c.dec = "ok" /\ c.decok = 1               \* ... and the type decodes what it encoded
  ELSE c.out = "conv"
\* 32 / 64-bit integers: v = anchor + off (+ 1/2 if half = 1); rawoff = (payload as an integer) - anchor - off
BigIn(c) == \/ c.anchor = "in"
            \/ c.anchor = "min" /\ c.off >= 0
            \/ c.anchor = "max" /\ (c.off < 0 \/ (c.off = 0 /\ c.half = 0))
NumBigOk(c) ==
  IF BigIn(c) THEN /\ c.out = "ok" /\ c.plen = c.dlen /\ c.dec = "ok" /\ c.decok = 1
                   /\ (IF c.half = 0 THEN c.rawoff = 0 ELSE c.rawoff \in {0, 1})
  ELSE c.out = "conv"
\* IEEE binary32 (DPT 14): the grid is supplied by the driver (decok = the decoded value is the nearest or next-nearest binary32 number)
NumF32Ok(c) == IF c.zone = "in" THEN c.out = "ok" /\ c.plen = c.dlen /\ c.dec = "ok" /\ c.decok = 1
               ELSE IF c.zone = "out" THEN c.out = "conv" ELSE c.out \in {"ok", "conv"}          \* NaN: either, but declared
NumOk(c) == CASE c.fam = "fix" -> NumFixOk(c) [] c.fam = "scaled8" -> NumScaledOk(c) [] c.fam = "f16" -> NumF16Ok(c)
              [] c.fam = "big" -> NumBigOk(c) [] c.fam = "f32" -> NumF32Ok(c) [] OTHER -> FALSE
\* ---------------------------------------------------------------- C10
\* payload -> value -> dictionary / name -> json.dumps -> json.loads -> encoder -> payload -> value
JsonOk(c) == c.out = "ok" /\ c.same = 1
=============================================================================
