SPECIFICATION Spec
CONSTANTS
  MAXN = 7
  LIMITS <- McLimits
  NOPROGRESS = FALSE
INVARIANT Complete
INVARIANT NoDuplicates
PROPERTY Terminates
CHECK_DEADLOCK FALSE
