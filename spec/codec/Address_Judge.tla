---------------------------- MODULE Address_Judge ----------------------------
(* C01 / C02 cases:  [t |-> "rt", kind, fmt, raw, text, reparsed, wire, unwire]   [t |-> "text", out, fixed]
                     [t |-> "flt", pat, raw, res]   [t |-> "glob", p, s, res] *)
EXTENDS Address, Json, IOUtils, TLC
Cases == ndJsonDeserialize(IOEnv.TRACE_FILE)
Ok(c) == CASE c.t = "rt" -> RoundTripOk(c) [] c.t = "text" -> TextOk(c) [] c.t = "flt" -> FilterOk(c) [] c.t = "glob" -> GlobOk(c) [] OTHER -> FALSE
Bad == {i \in 1..Len(Cases) : ~Ok(Cases[i])}
\* the reference reading on examples of the documentation: "1/2/3" = 0x0A03, "1/515" the same, "31/7/255" = 65535, "1.1.1" = 0x1101
ASSUME ReadGA(<<49, 47, 50, 47, 51>>).raw = 2563 /\ ReadGA(<<49, 47, 53, 49, 53>>).raw = 2563 /\ ReadGA(<<51, 49, 47, 55, 47, 50, 53, 53>>).raw = 65535
ASSUME ReadIA(<<49, 46, 49, 46, 49>>) = 4353 /\ ReadGA(<<51, 50, 47, 48, 47, 48>>).raw = None
\* filter lemmas: '*' = '0-' ; reversed ranges are normalised
ASSUME \A raw \in {0, 255, 256, 2047, 2048, 65535} : Match(<<<< <<-1, -1>> >>>>, raw) /\ (Match(<<<< <<5, 2>> >>>>, raw) = Match(<<<< <<2, 5>> >>>>, raw))
ASSUME Glob(<<105, 45, 42>>, <<105, 45, 97>>) /\ ~Glob(<<105, 45, 97>>, <<120, 105, 45, 97>>) /\ Glob(<<105, 45, 63, 42, 98>>, <<105, 45, 97, 98>>) /\ ~Glob(<<105, 45, 63>>, <<105, 45>>) /\ Glob(<<42>>, <<>>)
ASSUME PrintT(<<"RESULT", Len(Cases), Bad>>)
VARIABLE x
Init == x = 0
Next == UNCHANGED x
=============================================================================
