SPECIFICATION Spec
CONSTANTS
  MAXN = 3
  LIMITS <- DevLimits
  NOPROGRESS = TRUE
PROPERTY Terminates
CHECK_DEADLOCK FALSE
