------------------------------ MODULE SendPath ------------------------------
(* C11 - the send path  value --(API: remote value / device setter / group_value_write / MCP write tool)--> telegram queue --> cEMI.
   One session = one call with the queue observed before and after:
     out     "accepted" (the call returned) | "conv" (ConversionError) | "addr" (CouldNotParseAddress) | "type" (TypeError / ValueError /
             AttributeError ... for an argument of the wrong kind) | anything else
     vkind   "number" | "text" | "struct" (a value of the kind the API takes) | "foreign" (an argument of another kind: None, a dict for a number ...)
     queued  telegrams added to the queue by the call
     wire    one entry per queued telegram: "ok" (serialised, parsed back, same payload) | "fail:<exception>" | "changed" (parsed back to another payload)
   Law:  accepted  =>  every queued telegram is wire-valid;
         rejected  =>  nothing queued, and for a value of the right kind the rejection is the conversion error
                       (an argument of another kind - None, a dict where a number is expected - may fail with any exception at the call). *)
EXTENDS Integers, Sequences
\* (must = 1: the call is known to have to produce a telegram - a value different from the last one given to an expose sensor whose
\*  cooldown has elapsed by the time the queue is inspected)
Accepted(c) == c.out = "accepted" /\ Len(c.wire) = c.queued /\ (\A i \in 1..Len(c.wire) : c.wire[i] = "ok") /\ (c.must = 1 => c.queued >= 1)
Rejected(c) == /\ c.out # "accepted" /\ c.queued = 0
               /\ (c.vkind # "foreign" => c.out = "conv")         \* an argument of another kind may fail with any exception at the call
SendOk(c) == Accepted(c) \/ Rejected(c)
=============================================================================
