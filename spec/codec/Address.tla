------------------------------- MODULE Address -------------------------------
(* KNX addresses: notations, wire form, and group address filters   (xknx/telegram/address.py, address_filter.py).
   KNX 03/03/02 Data Link Layer General 1.4 (individual address area.line.device = 4/4/8 bits) and the ETS group address
   styles: 3-level main/middle/sub = 5/3/8 bits, 2-level main/sub = 5/11 bits, free = 16 bits.
   Text is a sequence of code points. *)
EXTENDS Integers, Sequences
Slash == 47
Dot == 46
IsDigit(c) == c >= 48 /\ c <= 57
\* ---- reference reading of canonical text
Num[s \in Seq(48..57)] == IF s = <<>> THEN 0 ELSE 10 * Num[SubSeq(s, 1, Len(s) - 1)] + (s[Len(s)] - 48)
RECURSIVE Split(_, _)
Split(text, sep) ==
  IF \A i \in 1..Len(text) : text[i] # sep THEN <<text>>
  ELSE LET k == CHOOSE i \in 1..Len(text) : text[i] = sep /\ \A j \in 1..(i - 1) : text[j] # sep
       IN <<SubSeq(text, 1, k - 1)>> \o Split(SubSeq(text, k + 1, Len(text)), sep)
AllDigits(s) == s # <<>> /\ Len(s) <= 5 /\ \A i \in 1..Len(s) : IsDigit(s[i])
None == -1
ReadGA(text) ==
  LET p == Split(text, Slash) IN
  IF \E i \in 1..Len(p) : ~AllDigits(p[i]) THEN [raw |-> None, parts |-> 0]
  ELSE LET v == [i \in 1..Len(p) |-> Num[p[i]]] IN
       CASE Len(p) = 3 /\ v[1] <= 31 /\ v[2] <= 7 /\ v[3] <= 255 -> [raw |-> v[1] * 2048 + v[2] * 256 + v[3], parts |-> 3]
         [] Len(p) = 2 /\ v[1] <= 31 /\ v[2] <= 2047 -> [raw |-> v[1] * 2048 + v[2], parts |-> 2]
         [] Len(p) = 1 /\ v[1] <= 65535 -> [raw |-> v[1], parts |-> 1]
         [] OTHER -> [raw |-> None, parts |-> 0]
ReadIA(text) ==
  LET p == Split(text, Dot) IN
  IF Len(p) # 3 \/ \E i \in 1..Len(p) : ~AllDigits(p[i]) THEN None
  ELSE LET v == [i \in 1..3 |-> Num[p[i]]] IN IF v[1] <= 15 /\ v[2] <= 15 /\ v[3] <= 255 THEN v[1] * 4096 + v[2] * 256 + v[3] ELSE None
PartsOf(fmt) == CASE fmt = "LONG" -> 3 [] fmt = "SHORT" -> 2 [] OTHER -> 1
\* ---- C01
RoundTripOk(c) ==
  /\ c.reparsed = c.raw                                   \* the text parses back to the same address
  /\ c.wire = <<c.raw \div 256, c.raw % 256>> /\ c.unwire = c.raw     \* two octets, most significant first, and back
  /\ IF c.kind = "ga" THEN ReadGA(c.text) = [raw |-> c.raw, parts |-> PartsOf(c.fmt)]   \* the text means this address in the configured notation
     ELSE ReadIA(c.text) = c.raw
TextOk(c) == CASE c.out = "addr" -> c.fixed = 1           \* renders and re-parses to itself
               [] c.out = "parse_error" -> c.must = 0     \* the address parse error - not for a text that is the rendering of an address (must = 1)
               [] OTHER -> FALSE                          \* never another exception
\* ---- C02: group address filters.  A pattern is a sequence of 1..3 levels; a level is a sequence of ranges [lo, hi] (-1: open end)
MAXV == 65535
Level(raw, n, i) == CASE n = 3 -> (CASE i = 1 -> raw \div 2048 [] i = 2 -> (raw \div 256) % 8 [] OTHER -> raw % 256)
                      [] n = 2 -> (IF i = 1 THEN raw \div 2048 ELSE raw % 2048)
                      [] OTHER -> raw
Clamp(v) == IF v > MAXV THEN MAXV ELSE v
NormLo(r) == LET a == Clamp(IF r[1] = -1 THEN 0 ELSE r[1])  b == Clamp(IF r[2] = -1 THEN MAXV ELSE r[2]) IN IF a <= b THEN a ELSE b
NormHi(r) == LET a == Clamp(IF r[1] = -1 THEN 0 ELSE r[1])  b == Clamp(IF r[2] = -1 THEN MAXV ELSE r[2]) IN IF a <= b THEN b ELSE a
Match(pat, raw) == \A i \in 1..Len(pat) : \E k \in 1..Len(pat[i]) : NormLo(pat[i][k]) <= Level(raw, Len(pat), i) /\ Level(raw, Len(pat), i) <= NormHi(pat[i][k])
FilterOk(c) == c.res = (IF Match(c.pat, c.raw) THEN 1 ELSE 0)
\* internal addresses: the filter is a glob over the whole name ("i-" prefix included) - '*' any run of characters, '?' one character,
\* anchored at both ends (patterns with '[' are not generated).  p, s: sequences of code points
RECURSIVE Glob(_, _)
Glob(p, s) == IF p = <<>> THEN s = <<>>
              ELSE IF Head(p) = 42 THEN \E k \in 0..Len(s) : Glob(Tail(p), SubSeq(s, k + 1, Len(s)))
              ELSE s # <<>> /\ (Head(p) = 63 \/ Head(p) = Head(s)) /\ Glob(Tail(p), Tail(s))
GlobOk(c) == c.res = (IF Glob(c.p, c.s) THEN 1 ELSE 0)
=============================================================================
