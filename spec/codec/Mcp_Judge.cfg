INIT Init
NEXT Next
