INIT Init
NEXT Next
