----------------------------- MODULE Apci_Judge -----------------------------
EXTENDS Apci, Json, IOUtils, TLC
Cases == ndJsonDeserialize(IOEnv.TRACE_FILE)
Ok(c) == CASE c.t = "dec" -> DecodeOk(c) [] c.t = "re" -> ReencodeOk(c) [] c.t = "enc" -> EncodeOk(c) [] OTHER -> FALSE
Bad == {i \in 1..Len(Cases) : ~Ok(Cases[i])}
\* the table: group services, memory services and a few extended codes at the values KNX 03/03/07 assigns them
ASSUME /\ SvcOf[1] = "GroupValueRead" /\ SvcOf[65] = "GroupValueResponse" /\ SvcOf[129] = "GroupValueWrite" /\ SvcOf[193] = "IndividualAddressWrite"
       /\ SvcOf[513] = "MemoryRead" /\ SvcOf[577] = "MemoryResponse" /\ SvcOf[641] = "MemoryWrite" /\ SvcOf[769] = "DeviceDescriptorRead"
       /\ SvcOf[982 + 1] = "PropertyValueResponse" /\ SvcOf[981 + 1] = "PropertyValueRead" /\ SvcOf[983 + 1] = "PropertyValueWrite"
       /\ SvcOf[977 + 1] = "AuthorizeRequest" /\ SvcOf[1009 + 1] = "SecureAPDU" /\ Len(SvcOf) = 1024
\* the A_Restart family by rule: 1110 | response | rrrr | type  (request/basic, request/master reset, response/master reset)
ASSUME \A v \in 896..959 : SvcOf[v + 1] = LET resp == (v \div 32) % 2  type == v % 2 IN
          CASE resp = 0 /\ type = 0 -> "Restart" [] resp = 0 /\ type = 1 -> "RestartMasterReset"
            [] resp = 1 /\ type = 1 -> "RestartMasterResetResponse" [] OTHER -> "none"
\* six-bit data services: every value of the six low bits belongs to the service
ASSUME \A k \in 0..63 : SvcOf[k + 1] = "GroupValueRead" /\ SvcOf[64 + k + 1] = "GroupValueResponse" /\ SvcOf[128 + k + 1] = "GroupValueWrite"
                       /\ SvcOf[384 + k + 1] = "ADCRead" /\ SvcOf[512 + k + 1] = "MemoryRead" /\ SvcOf[768 + k + 1] = "DeviceDescriptorRead"
ASSUME PrintT(<<"RESULT", Len(Cases), Bad>>)
VARIABLE x
Init == x = 0
Next == UNCHANGED x
=============================================================================
