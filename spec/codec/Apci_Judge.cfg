INIT Init
NEXT Next
