-------------------------------- MODULE Apci --------------------------------
(* Application layer PDUs   (xknx/telegram/apci.py).  KNX 03/03/07 Application Layer.
   (1) which service a ten-bit APCI value belongs to (ApciTable),  (2) the bits of each service the standard marks as reserved,
   (3) the laws of C04 (decoding is total), C05 (decode / re-encode), C06 (encode / decode). *)
EXTENDS Integers, Sequences, ApciTable
Apci10(b0, b1) == (b0 % 4) * 256 + b1
Service(b0, b1) == SvcOf[Apci10(b0, b1) + 1]
\* ---- reserved bits: positions <<octet (0-based, octet 0 = TPCI/APCI high), bit (0 = least significant)>> of an APDU of n octets
Bits(o, S) == {<<o, b>> : b \in S}
Octets(O) == {<<o, b>> : o \in O, b \in 0..7}
Reserved(svc, n) ==
  CASE svc \in {"GroupValueRead", "IndividualAddressRead", "IndividualAddressResponse", "IndividualAddressWrite"} -> Bits(1, 0..5)
       \* 4-bit service codes: the six low bits carry nothing, the data (if any) follows in further octets
    [] svc \in {"GroupValueWrite", "GroupValueResponse"} -> IF n > 2 THEN Bits(1, 0..5) ELSE {}     \* values longer than six bits
    [] svc \in {"Restart", "RestartMasterReset", "RestartMasterResetResponse"} -> Bits(1, 1..4)
       \* A_Restart family: 1110 | response (bit 5) | four reserved bits | restart type (bit 0)
    [] svc = "AuthorizeRequest" -> Octets({2})                   \* A_Authorize_Request: one reserved octet (00h) before the key
    [] svc = "LinkRead" -> Bits(3, 4..7)                         \* A_Link_Read: start index in the low nibble
    [] svc = "LinkWrite" -> Bits(3, 2..7)                        \* A_Link_Write: flags d, s in bits 1, 0
    [] svc \in {"SystemNetworkParameterRead", "SystemNetworkParameterResponse", "SystemNetworkParameterWrite"} -> Bits(5, 0..3)
       \* A_SystemNetworkParameter_*: 12-bit property id followed by 4 reserved bits
    [] svc = "IndividualAddressSerialResponse" -> Octets({10, 11})   \* serial number (6), domain address (2), reserved (2)
    [] svc = "IndividualAddressSerialWrite" -> Octets(10..13)         \* serial number (6), new address (2), reserved (4)
    [] svc = "PropertyDescriptionResponse" -> Bits(6, 4..7)      \* max. number of elements: 12 bits after 4 reserved bits
    [] svc = "PropertyExtDescriptionResponse" -> {<<13, 6>>}     \* write-enable (bit 7), reserved (bit 6), property data type (bits 5..0)
    [] OTHER -> {}
\* ---- C04: c = [n (length), b0, b1, out ("svc:<name>" | "conv" | "unsup" | anything else)]
DecodeOk(c) ==
  IF c.n < 2 THEN c.out \in {"conv", "unsup"}
  ELSE LET s == Service(c.b0, c.b1) IN
       IF s = "none" THEN c.out = "unsup"                       \* no such service: the unsupported-service error
       ELSE c.out \in {"conv", "svc:" \o s}                     \* a recognised service: itself, or 'malformed' - never 'unsupported'
\* ---- C05: c = [svc, n, out ("ok" | "refused"), lendiff, calcdiff, diff (<<octet, bit>> positions that changed), eq]
ReencodeOk(c) ==
  \/ c.out = "refused"
  \/ /\ c.out = "ok" /\ c.lendiff = 0 /\ c.calcdiff = 0 /\ c.eq = 1
     /\ \A i \in 1..Len(c.diff) : <<c.diff[i][1], c.diff[i][2]>> \in Reserved(c.svc, c.n)
\* ---- C06: an object is encoded and decoded again: refused, or equal
EncodeOk(c) == c.out \in {"refused", "equal"}
=============================================================================
