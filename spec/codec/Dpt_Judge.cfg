INIT Init
NEXT Next
