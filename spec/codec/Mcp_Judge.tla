----------------------------- MODULE Mcp_Judge -----------------------------
EXTENDS Integers, Sequences, Json, IOUtils, TLC
M == INSTANCE Mcp WITH MAXN <- 0, LIMITS <- {}, NOPROGRESS <- FALSE, n <- 0, limit <- 0, off <- 0, got <- 0, done <- 0
Cases == ndJsonDeserialize(IOEnv.TRACE_FILE)
Bad == {i \in 1..Len(Cases) : ~M!CaseOk(Cases[i])}
ASSUME M!WindowLen(5, 3, 4) = 2 /\ M!WindowLen(5, 5, 4) = 0 /\ M!WindowLen(5, 0, -1) = 5 /\ M!NextOff(5, 0, 2, FALSE) = 2 /\ M!NextOff(5, 4, 2, FALSE) = -1
       /\ M!NextOff(5, 0, 0, FALSE) = -1 /\ M!NextOff(5, 0, 0, TRUE) = 0 /\ M!NextOff(5, 0, 5, FALSE) = -1
ASSUME PrintT(<<"RESULT", Len(Cases), Bad>>)
VARIABLE x
Init == x = 0
Next == UNCHANGED x
=============================================================================
