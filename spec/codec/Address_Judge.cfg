INIT Init
NEXT Next
