--------------------------- MODULE SendPath_Judge ---------------------------
EXTENDS SendPath, Json, IOUtils, TLC
Cases == ndJsonDeserialize(IOEnv.TRACE_FILE)
Bad == {i \in 1..Len(Cases) : ~SendOk(Cases[i])}
ASSUME PrintT(<<"RESULT", Len(Cases), Bad>>)
VARIABLE x
Init == x = 0
Next == UNCHANGED x
=============================================================================
