----------------------------- MODULE Dpt_Judge -----------------------------
EXTENDS Dpt, Json, IOUtils, TLC
Cases == ndJsonDeserialize(IOEnv.TRACE_FILE)
Ok(c) == CASE c.t = "dec" -> DecodeOk(c) [] c.t = "consumer" -> ConsumerOk(c) [] c.t = "re" -> ReencodeOk(c)
           [] c.t = "num" -> NumOk(c) [] c.t = "far" -> FarOk(c) [] c.t = "str" -> StrOk(c) [] c.t = "json" -> JsonOk(c) [] OTHER -> FALSE
Bad == {i \in 1..Len(Cases) : ~Ok(Cases[i])}
\* anchors of the reference decoders: DPT 9 examples of the KNX datapoint specification (03/07/02 3.10) and well-known payloads
\*   0x0C1A = 21.00 (m = 0x41A = 1050, e = 1);  0x8A24 = -30.00 (M = 0x224 - 2048 = -1500, e = 1);  0x7FFF = 670760.96;  0xF800 = -671088.64
ASSUME /\ F16Value([raw |-> 3098, U |-> 1]) = 2100 /\ F16Value([raw |-> 35364, U |-> 1]) = -3000
       /\ F16Value([raw |-> 32767, U |-> 1]) = 67076096 /\ F16Value([raw |-> 63488, U |-> 1]) = -67108864
       /\ F16MinExp(2047, 1) = 0 /\ F16MinExp(2048, 1) = 1 /\ F16MinExp(-2048, 1) = 0 /\ F16MinExp(-2049, 1) = 1 /\ F16MinExp(67076096, 1) = 15
       /\ Within(118, 119, 0, 1) = FALSE /\ Within(118, 119, -1, 1) = TRUE /\ Within(118, 119, 1, 1) = FALSE /\ Within(119, 118, 1, 1) = TRUE /\ Within(5, 5, 0, 1)
ASSUME PrintT(<<"RESULT", Len(Cases), Bad>>)
VARIABLE x
Init == x = 0
Next == UNCHANGED x
=============================================================================
