--------------------------- MODULE TcpStream_Judge ---------------------------
(* C22 cases: [t |-> "tcp", frames (<<[len, cls]>>), delivered (<<frame numbers>>), raised]
              [t |-> "udp", ok (the datagram is a well-formed frame), delivered (number of callbacks), raised] *)
EXTENDS TcpStream, Json, IOUtils, TLC
Cases == ndJsonDeserialize(IOEnv.TRACE_FILE)
Ok(c) == IF c.t = "tcp" THEN DeliveryOk(c.frames, c.delivered, c.raised)
         ELSE c.raised = 0 /\ c.delivered = (IF c.ok = 1 THEN 1 ELSE 0)
Bad == {i \in 1..Len(Cases) : ~Ok(Cases[i])}
ASSUME PrintT(<<"RESULT", Len(Cases), Bad>>)
VARIABLE x
Init == x = 0
Next == UNCHANGED x
=============================================================================
