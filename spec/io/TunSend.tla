------------------------------ MODULE TunSend ------------------------------
(* Design model for C24: UDP tunnel client send/retry logic against a gateway with lossy network (xknx/io/tunnel.py
   UDPTunnel.send_cemi, _send_tunnelling_request; gateway side per Tunnelling 03.08.04 §2.6).
   IMPL_DEV = TRUE models a client that accepts any TunnellingAck while waiting (the defect repaired in /repo). *)
EXTENDS Integers, Sequences, FiniteSets, TLC
CONSTANTS M, N, MaxFaults, IMPL_DEV
VARIABLES txSeq, pc, cur, reqs, acks, gwExp, gwGot, outcome, faults, ackOf
vars == <<txSeq, pc, cur, reqs, acks, gwExp, gwGot, outcome, faults, ackOf>>
Init == /\ txSeq = 0 /\ pc = "idle" /\ cur = 1 /\ reqs = {} /\ acks = {}
        /\ gwExp = 0 /\ gwGot = {} /\ outcome = [c \in 1..N |-> "none"] /\ faults = 0
        /\ ackOf = [c \in 1..N |-> -1]
\* messages carry a unique id so that duplicates are distinct elements
Req(s, c, a) == [seq |-> s, cemi |-> c, att |-> a]
ClientSend == /\ pc = "idle" /\ cur <= N
              /\ reqs' = reqs \cup {Req(txSeq, cur, 1)} /\ pc' = "wait1"
              /\ UNCHANGED <<txSeq, cur, acks, gwExp, gwGot, outcome, faults, ackOf>>
GwRecv(r) == /\ r \in reqs /\ reqs' = reqs \ {r}
             /\ IF r.seq = gwExp
                  THEN /\ gwGot' = gwGot \cup {r.cemi} /\ gwExp' = (gwExp + 1) % M
                       /\ acks' = acks \cup {[seq |-> r.seq, id |-> <<r.cemi, r.att>>]}
                  ELSE IF r.seq = (gwExp - 1) % M
                  THEN /\ acks' = acks \cup {[seq |-> r.seq, id |-> <<r.cemi, r.att>>]} /\ UNCHANGED <<gwGot, gwExp>>
                  ELSE UNCHANGED <<gwGot, gwExp, acks>>
             /\ UNCHANGED <<txSeq, pc, cur, outcome, faults, ackOf>>
Lose == /\ faults < MaxFaults /\ faults' = faults + 1
        /\ \/ \E r \in reqs : reqs' = reqs \ {r} /\ UNCHANGED acks
           \/ \E a \in acks : acks' = acks \ {a} /\ UNCHANGED reqs
        /\ UNCHANGED <<txSeq, pc, cur, gwExp, gwGot, outcome, ackOf>>
Waiting == pc \in {"wait1", "wait2"}
Finish(res, a) == /\ outcome' = [outcome EXCEPT ![cur] = res] /\ ackOf' = [ackOf EXCEPT ![cur] = a]
                  /\ txSeq' = (txSeq + 1) % M /\ cur' = cur + 1 /\ pc' = "idle"
ClientAck(a) == /\ a \in acks /\ acks' = acks \ {a}
                /\ IF Waiting /\ (a.seq = txSeq \/ IMPL_DEV)
                     THEN Finish("ok", a.seq)
                     ELSE UNCHANGED <<txSeq, pc, cur, outcome, ackOf>>   \* unexpected ack dropped
                /\ UNCHANGED <<reqs, gwExp, gwGot, faults>>
\* second timeout: the frame failed; the tunnel is re-established (new channel: both counters restart, frames of
\* the old channel still in flight are ignored by channel id - modelled by emptying the network)
Timeout == /\ Waiting
           /\ IF pc = "wait1"
                THEN /\ reqs' = reqs \cup {Req(txSeq, cur, 2)} /\ pc' = "wait2"
                     /\ UNCHANGED <<txSeq, cur, outcome, ackOf, acks, gwExp>>
                ELSE /\ outcome' = [outcome EXCEPT ![cur] = "fail"] /\ cur' = cur + 1 /\ pc' = "idle"
                     /\ txSeq' = 0 /\ gwExp' = 0 /\ reqs' = {} /\ acks' = {} /\ UNCHANGED ackOf
           /\ UNCHANGED <<gwGot, faults>>
Next == ClientSend \/ (\E r \in reqs : GwRecv(r)) \/ Lose \/ (\E a \in acks : ClientAck(a)) \/ Timeout
Spec == Init /\ [][Next]_vars
OwnAckOnly == \A c \in 1..N : outcome[c] = "ok" => c \in gwGot
\* counters of confirmed frames: next counter after a confirmed frame, 0 after a re-established tunnel
SeqOf[c \in 1..N] == IF c = 1 THEN 0 ELSE IF outcome[c-1] = "fail" THEN 0 ELSE (SeqOf[c-1] + 1) % M
OwnSeq == \A c \in 1..N : outcome[c] = "ok" => ackOf[c] = SeqOf[c]
=============================================================================
