INIT Init
NEXT Next
