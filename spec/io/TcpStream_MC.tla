---------------------------- MODULE TcpStream_MC ----------------------------
(* The buffering parser as an automaton over (octets fed, start of the unparsed rest), for every way of cutting the stream
   into chunks.  HLEN octets are needed to read a header.  Checked: the delivery is the reference delivery for every
   chunking, and grows monotonically. *)
EXTENDS TcpStream, TLC
CONSTANTS Frames, HLEN
F(l, c) == [len |-> l, cls |-> c]
Stream1 == <<F(4, "good"), F(5, "bad"), F(3, "good"), F(4, "good")>>
Stream2 == <<F(4, "good"), F(3, "unreadable"), F(4, "good")>>
Stream3 == <<F(5, "bad"), F(5, "bad"), F(3, "good"), F(3, "good"), F(4, "bad")>>
VARIABLES fed, start, delivered, insync
vars == <<fed, start, delivered, insync>>
Total == LET f[i \in 0..Len(Frames)] == IF i = 0 THEN 0 ELSE f[i - 1] + Frames[i].len IN f[Len(Frames)]
StartOf(i) == LET f[k \in 0..Len(Frames)] == IF k = 0 THEN 0 ELSE f[k - 1] + Frames[k].len IN f[i - 1]
FrameAt(pos) == CHOOSE i \in 1..Len(Frames) : StartOf(i) = pos
Init == fed = 0 /\ start = 0 /\ delivered = <<>> /\ insync = TRUE
\* parse as much as possible of the octets [s, f): returns <<new start, delivered, insync>>
RECURSIVE Parse(_, _, _, _)
Parse(s, f, d, sync) ==
  IF ~sync THEN <<f, d, FALSE>>                        \* garbage: dropped
  ELSE IF s = Total THEN <<s, d, TRUE>>
  ELSE LET i == FrameAt(s) IN
       IF Frames[i].cls = "unreadable" THEN (IF f > s THEN <<f, d, FALSE>> ELSE <<s, d, TRUE>>)
       ELSE IF f - s < HLEN \/ f - s < Frames[i].len THEN <<s, d, TRUE>>         \* incomplete: wait for the rest
       ELSE Parse(s + Frames[i].len, f, IF Frames[i].cls = "good" THEN Append(d, i) ELSE d, TRUE)
Chunk(k) == /\ fed + k <= Total /\ fed' = fed + k
            /\ LET r == Parse(start, fed', delivered, insync) IN start' = r[1] /\ delivered' = r[2] /\ insync' = r[3]
Next == \E k \in 1..Total : Chunk(k)
Spec == Init /\ [][Next]_vars
AllFed == fed = Total => DeliveryOk(Frames, delivered, 0)
Monotone == [][IsPrefixOf(delivered, delivered')]_vars
=============================================================================
