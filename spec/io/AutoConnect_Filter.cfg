INIT Init
NEXT Next
