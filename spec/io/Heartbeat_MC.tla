---------------------------- MODULE Heartbeat_MC ----------------------------
EXTENDS Heartbeat
MaxLen == 9
Next == \E o \in Outcomes, dur \in {0, 3} : Len(hist) < MaxLen /\ Request(o, due, dur)
Spec == Init /\ [][Next]_vars
=============================================================================
