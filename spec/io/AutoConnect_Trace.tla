------------------------- MODULE AutoConnect_Trace -------------------------
(* C46.  Items are scan traces  [t |-> "scan", gws |-> <<gateway records>>, ev |-> <<events>>]  with events
     [ev |-> "try", m, ok]  [ev |-> "end", res |-> "ok" | "commerr"]   (skips are not observable: inferred)
   Filter cases are judged by AutoConnect_Filter. *)
EXTENDS Integers, Sequences, Json, IOUtils, TLC
Traces == ndJsonDeserialize(IOEnv.TRACE_FILE)
VARIABLES scan, i, via, attempts, tid, l
vars == <<scan, i, via, attempts, tid, l>>
B(x) == x = 1
Gw(r) == [rout |-> B(r.rout), tun |-> r.tun, sectun |-> B(r.sectun), secrout |-> B(r.secrout), host |-> B(r.host)]
ScanOf(t) == [k \in 1..Len(Traces[t].gws) |-> Gw(Traces[t].gws[k])]
A == INSTANCE AutoConnect
Ev == Traces[tid].ev[l]
IsScan(t) == Traces[t].t = "scan"
TInit == /\ tid \in 1..Len(Traces) /\ l = 1 /\ A!InitWith(ScanOf(tid))
Step ==
  /\ UNCHANGED tid
  /\ \/ A!Skip /\ l' = l                                        \* unobservable: a gateway filtered by the keyring hosts
     \/ /\ l <= Len(Traces[tid].ev) /\ l' = l + 1
        /\ \/ Ev.ev = "try" /\ A!Try(Ev.m, B(Ev.ok))
           \/ /\ Ev.ev = "end" /\ UNCHANGED <<scan, i, via, attempts>>
              /\ \/ Ev.res = "ok" /\ via # "none"
                 \/ Ev.res = "commerr" /\ via = "none" /\ i = Len(A!Scan) + 1
     \/ A!NothingUsable /\ l' = l
Inv == A!NoDowngrade /\ A!ConnectedOnlyAsAllowed
\* the invariants are part of the step: a trace leading to a violating state is rejected (and reported), TLC does not abort
TStep == Step /\ Inv'
TSpec == TInit /\ [][TStep]_vars
Mark == /\ TLCSet(2, [TLCGet(2) EXCEPT ![tid] = IF @ < l THEN l ELSE @])
        /\ (l = Len(Traces[tid].ev) + 1 => TLCSet(1, TLCGet(1) \cup {tid}))
Post == LET bad == (1..Len(Traces)) \ TLCGet(1) IN PrintT(<<"RESULT", Len(Traces), {<<t, TLCGet(2)[t]>> : t \in bad}>>)
ASSUME TLCSet(1, {}) /\ TLCSet(2, [t \in 1..Len(Traces) |-> 0])
=============================================================================
