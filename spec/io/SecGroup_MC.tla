----------------------------- MODULE SecGroup_MC -----------------------------
(* SecGroup explored with latency 4 ticks: every history of up to MAXN received frames (plain, notifies with good / bad MAC,
   synchronisation replies incl. duplicates, wrappers at every offset around the tolerance window) interleaved with time and
   outgoing wrappers.  Checked: the timer never runs backwards once authenticated, it moves forward only on frames whose MAC
   verified, and outgoing timer values never decrease. *)
EXTENDS SecGroup
CONSTANTS MAXN, MAXT
VARIABLES now, n, moved
mcvars == <<vars, now, n, moved>>
MCInit == Init /\ now = 0 /\ n = 0 /\ moved = "none"
Off == -6..3
MCNext ==
  \/ \E mac \in BOOLEAN, sync \in BOOLEAN, o \in Off : n < MAXN /\ n' = n + 1 /\ Local(now) + o >= 0
        /\ RxNotify(Local(now) + o, mac, sync, now, now + diff') /\ moved' = (IF diff' # diff THEN (IF mac THEN "ok" ELSE "forged") ELSE moved) /\ UNCHANGED now
  \/ \E mac \in BOOLEAN, u \in {0, 1}, o \in Off : n < MAXN /\ n' = n + 1 /\ Local(now) + o >= 0
        /\ RxWrapped(Local(now) + o, mac, u, now, now + diff') /\ moved' = (IF diff' # diff THEN (IF mac /\ auth THEN "ok" ELSE "forged") ELSE moved) /\ UNCHANGED now
  \/ ~auth /\ Synced(now, now + diff') /\ UNCHANGED <<now, n, moved>>
  \/ auth /\ TxWrapped(Local(now), now) /\ UNCHANGED <<now, n, moved>>
  \/ now < MAXT /\ now' = now + 1 /\ UNCHANGED <<vars, n, moved>>
MCSpec == MCInit /\ [][MCNext]_mcvars
OnlyAuthenticatedMovesTimer == moved # "forged"
TimerNeverBackwards == [][auth => now' + diff' >= now + diff]_mcvars
OutMonotone == [][lastOut' >= lastOut]_mcvars
=============================================================================
