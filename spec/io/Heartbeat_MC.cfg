SPECIFICATION Spec
CONSTANT Rate = 7
INVARIANT LostExactlyWhen
INVARIANT LostAtMostOnce
INVARIANT QuietWhenGone
INVARIANT AliveUnlessEnded
CHECK_DEADLOCK FALSE
