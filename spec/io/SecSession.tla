----------------------------- MODULE SecSession -----------------------------
(* KNX IP Secure tunnelling session, client side   (xknx/io/ip_secure.py SecureSession.handle_knxipframe / send / connect /
   _session_keepalive / stop, _IPSecureTransportLayer.decrypt_frame).  KNX v01.01.02 KNX IP Secure 03.08.09 2.2.1 / 2.4.
   Monitor form.  Sequence numbers are compared only, so a trace carries their ranks.
     init     the client has sent its SessionAuthenticate (first wrapped frame): authentication has begun
     rxSeq    sequence number of the last accepted wrapper (-1: none)
     txSeq    sequence number the last sent wrapper carried (-1: none)
   rx classes: "genuine" (correctly wrapped for this session) | "forged" (MAC) | "wrongkey" | "wrongsid" | "nested" (genuine wrapper
   around a SecureWrapper) | "diag" (genuine wrapper around a remote diagnosis / configuration service) | "plainresp" (plain
   SessionResponse) | "plain" (any other plain frame) *)
EXTENDS Integers
VARIABLES init, rxSeq, txSeq
vars == <<init, rxSeq, txSeq>>
Init == init = FALSE /\ rxSeq = -1 /\ txSeq = -1
(* a frame is received; up = number of frames handed to the callbacks because of it *)
Rx(cls, seq, up) ==
  /\ CASE cls = "genuine" -> IF init /\ seq > rxSeq THEN up = 1 /\ rxSeq' = seq               \* fresh: passed on, counter advances
                             ELSE up = 0 /\ rxSeq' = rxSeq                                   \* replayed / older / no session yet: dropped
       [] cls \in {"forged", "wrongkey", "wrongsid"} -> up = 0 /\ rxSeq' = rxSeq             \* rejected frames do not advance the counter
       [] cls \in {"nested", "diag"} -> up = 0 /\ rxSeq' \in {rxSeq, IF init /\ seq > rxSeq THEN seq ELSE rxSeq}    \* dropped
       [] cls = "plainresp" -> (IF init THEN up = 0 ELSE up \in {0, 1}) /\ rxSeq' = rxSeq    \* the only plain frame ever accepted, before authentication
       [] cls = "plain" -> up = 0 /\ rxSeq' = rxSeq
       [] OTHER -> FALSE
  /\ UNCHANGED <<init, txSeq>>
(* a frame is sent: plain (kind = service) or wrapped with sequence number seq *)
TxPlain(kind) == kind = "SessionRequest" /\ UNCHANGED vars         \* never a plain frame other than the session request
\* the first wrapped frame is the SessionAuthenticate: from then on the session is authenticated ('init')
TxWrapped(seq) == seq > txSeq /\ txSeq' = seq /\ init' = TRUE /\ UNCHANGED rxSeq       \* strictly increasing
Stopped == init' = FALSE /\ rxSeq' = -1 /\ txSeq' = -1             \* stop(): a later connect starts a new session
=============================================================================
