---------------------------- MODULE DevMgmt_MC ----------------------------
(* Exhaustive exploration of DevMgmt against an arbitrary server / user: two requests (each called once) for two
   properties, every order of transmissions, acknowledgements (own, error status), answers (own / other property / other
   type / error; late ones arrive after the request returned), one indication, close at any point.  The properties restate
   C32 over what the automaton lets happen. *)
EXTENDS DevMgmt
VARIABLES called, sent, lastOk
mcvars == <<vars, called, sent, lastOk>>
Reqs == {[id |-> 1, kind |-> "read", key |-> <<11, 1, 51>>], [id |-> 2, kind |-> "write", key |-> <<11, 1, 52>>]}
Keys == {<<11, 1, 51>>, <<11, 1, 52>>}
NoOk == [id |-> 0]
MCInit == Init /\ called = {} /\ sent = <<>> /\ lastOk = NoOk
MCNext ==
  \/ \E r \in Reqs : r.id \notin called /\ Call(r) /\ called' = called \cup {r.id} /\ UNCHANGED <<sent, lastOk>>
  \/ \E id \in {1, 2} : Len(sent) < 5 /\ TxReq(id, txSeq) /\ sent' = Append(sent, id) /\ UNCHANGED <<called, lastOk>>
  \/ \E st \in {0, 33} : cur # NoReq /\ RxAck(txSeq, st) /\ UNCHANGED <<called, sent, lastOk>>
  \/ \E ty \in {"read", "write", "ind"}, k \in Keys, e \in {0, 1} :
        Len(inds) < 1 /\ Cardinality(elig) < 2 /\ RxCemi(ty, k, 1, e) /\ UNCHANGED <<called, sent, lastOk>>
  \/ \E k \in Keys : IndCb(k) /\ UNCHANGED <<called, sent, lastOk>>
  \/ open /\ Close(0) /\ UNCHANGED <<called, sent, lastOk>>
  \/ \E id \in {1, 2}, out \in {"ok", "err"}, v \in {-1, 1} :
        /\ Ret(id, out, v, 0)
        /\ lastOk' = IF out = "ok" THEN [id |-> id, val |-> v, answers |-> elig] ELSE NoOk
        /\ UNCHANGED <<called, sent>>
MCSpec == MCInit /\ [][MCNext]_mcvars
ReqOf(id) == CHOOSE r \in Reqs : r.id = id
OwnAnswerOnly == lastOk # NoOk =>
                    \E a \in lastOk.answers : a.type = ReqOf(lastOk.id).kind /\ a.key = ReqOf(lastOk.id).key /\ a.val = lastOk.val /\ a.err = 0
RepeatBound == nTx <= REPEAT + 1
CounterOncePerAccepted == [][txSeq' # txSeq => (accepted /\ cur # NoReq /\ cur' = NoReq /\ txSeq' = (txSeq + 1) % 256)]_mcvars
OneOutstandingOnWire == [][sent' # sent => (cur = NoReq \/ cur.id = sent'[Len(sent')])]_mcvars
SilentWhenClosed == [][~open => sent' = sent]_mcvars
=============================================================================
