------------------------------ MODULE TcpStream ------------------------------
(* Delivery of KNX/IP frames from a TCP byte stream   (xknx/io/transport/tcp_transport.py TCPTransport.data_received_callback).
   A stream is a sequence of frames [len, cls]:
     "good"        well-formed frame: handed to the callbacks
     "bad"         malformed frame whose header length is readable (06 10 .. .. total >= 6; unknown service or bad body): skipped
     "unreadable"  octets that do not start a KNX/IP header: after them no resynchronisation is required
   (1) reference: what has to be delivered whatever the chunking;  (2) an operational model of the buffering parser,
   model-checked over every chunking (TcpStream_MC). *)
EXTENDS Integers, Sequences
\* ---- reference
RECURSIVE Expected(_, _)
Expected(frames, i) == IF i > Len(frames) \/ frames[i].cls = "unreadable" THEN <<>>
                       ELSE (IF frames[i].cls = "good" THEN <<i>> ELSE <<>>) \o Expected(frames, i + 1)
HasUnreadable(frames) == \E i \in 1..Len(frames) : frames[i].cls = "unreadable"
IsPrefixOf(s, t) == Len(s) <= Len(t) /\ \A i \in 1..Len(s) : s[i] = t[i]
\* ---- C22 (TCP): delivered = sequence of frame numbers handed to the callbacks, raised = an exception left the callback
DeliveryOk(frames, delivered, raised) ==
  /\ raised = 0
  /\ IsPrefixOf(Expected(frames, 1), delivered)                             \* each good frame once, in stream order
  /\ ~HasUnreadable(frames) => delivered = Expected(frames, 1)              \* ... and nothing else
  /\ \A i, j \in 1..Len(delivered) : i # j => delivered[i] # delivered[j]   \* nothing is delivered twice
=============================================================================
