-------------------------- MODULE KnxIpFrame_Judge --------------------------
(* C20 / C21 cases judged at constant level.
     [t |-> "parse", n, h (first <= 6 octets), out, consumed, src]
     [t |-> "rt", cls, len, total, calc, parsed, rest, equal, total2] *)
EXTENDS KnxIpFrame, Json, IOUtils, TLC
Cases == ndJsonDeserialize(IOEnv.TRACE_FILE)
Ok(c) == IF c.t = "parse" THEN ParseOutcomeOk(c.n, c.h, c.out, c.consumed) ELSE RoundTripOk(c)
Bad == {i \in 1..Len(Cases) : ~Ok(Cases[i])}
\* sanity of the reference itself: exactly one of "framed", "completable", "neither" holds
ASSUME \A n \in 0..9, a \in {5, 6}, b \in {16, 17}, lo \in {0, 5, 6, 8, 200} :
          LET h == <<a, b, 2, 1, 0, lo>> IN ~(Framed(n, h) /\ Completable(n, h))
ASSUME PrintT(<<"RESULT", Len(Cases), Bad>>)
VARIABLE x
Init == x = 0
Next == UNCHANGED x
=============================================================================
