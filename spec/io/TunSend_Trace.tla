--------------------------- MODULE TunSend_Trace ---------------------------
(* Trace validation (monitor) for C24 on the wire of a real UDPTunnel talking to the simulated gateway.  Events:
     connected {chan}            ConnectResponse without error delivered to the client
     tx_req {chan, seq, id}      TunnellingRequest put on the wire (id = last octet of the cEMI frame)
     rx_ack {chan, seq, st}      TunnellingAck delivered to the client
     send_ret {id, out}          send_cemi returned ("ok") or raised ("err")
     other                       any other frame *)
EXTENDS Integers, Sequences, Json, IOUtils, TLC
Traces == ndJsonDeserialize(IOEnv.TRACE_FILE)
VARIABLES chan,       \* channel of the current connection (-1: none)
          txSeq,      \* counter the next new frame must carry
          cur,        \* id of the frame awaiting acknowledgement (-1: none)
          nReq,       \* requests sent for cur on the current connection
          ownOk,      \* an error-free ACK with the own channel and counter arrived for cur on this connection
          tid, l
vars == <<chan, txSeq, cur, nReq, ownOk, tid, l>>
Ev == Traces[tid][l]
TInit == tid \in 1..Len(Traces) /\ l = 1 /\ chan = -1 /\ txSeq = 0 /\ cur = -1 /\ nReq = 0 /\ ownOk = FALSE
Connected == /\ Ev.ev = "connected" /\ chan' = Ev.chan /\ txSeq' = 0 /\ nReq' = 0 /\ ownOk' = FALSE /\ UNCHANGED cur
TxReq == /\ Ev.ev = "tx_req"
         /\ Ev.chan = chan
         /\ Ev.seq = txSeq                                   \* next counter; a repetition keeps it
         /\ \/ cur = -1 /\ cur' = Ev.id /\ nReq' = 1 /\ ownOk' = FALSE
            \/ cur = Ev.id /\ nReq < 2 /\ nReq' = nReq + 1 /\ UNCHANGED <<cur, ownOk>>   \* repeated at most once per connection
         /\ UNCHANGED <<chan, txSeq>>                         \* (cur # -1 /\ cur # id: a second frame awaits an ACK - no disjunct)
RxAck == /\ Ev.ev = "rx_ack"
         /\ ownOk' = (ownOk \/ (cur # -1 /\ nReq > 0 /\ Ev.chan = chan /\ Ev.seq = txSeq /\ Ev.st = 0))
         /\ UNCHANGED <<chan, txSeq, cur, nReq>>
SendRet == /\ Ev.ev = "send_ret"
           /\ \/ cur = Ev.id /\ (Ev.out = "ok" => ownOk)     \* success only after the own error-free ACK
              \/ cur = -1 /\ Ev.out = "err"                   \* nothing could be sent (no channel)
           /\ cur' = -1 /\ txSeq' = (txSeq + 1) % 256 /\ nReq' = 0 /\ ownOk' = FALSE /\ UNCHANGED chan
Other == Ev.ev = "other" /\ UNCHANGED <<chan, txSeq, cur, nReq, ownOk>>
Step == /\ l <= Len(Traces[tid]) /\ l' = l + 1 /\ UNCHANGED tid
        /\ (Connected \/ TxReq \/ RxAck \/ SendRet \/ Other)
TSpec == TInit /\ [][Step]_vars
Mark == /\ TLCSet(2, [TLCGet(2) EXCEPT ![tid] = IF @ < l THEN l ELSE @])
        /\ (l = Len(Traces[tid]) + 1 => TLCSet(1, TLCGet(1) \cup {tid}))
Post == LET bad == (1..Len(Traces)) \ TLCGet(1) IN PrintT(<<"RESULT", Len(Traces), {<<t, TLCGet(2)[t]>> : t \in bad}>>)
ASSUME TLCSet(1, {}) /\ TLCSet(2, [t \in 1..Len(Traces) |-> 0])
=============================================================================
