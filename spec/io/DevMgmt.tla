------------------------------ MODULE DevMgmt ------------------------------
(* KNXnet/IP device management connection, client side (xknx/io/device_management_connection.py:
   _DeviceManagementConnection.request / _cemi_received / _stop, UDPDeviceManagementConnection._send_request,
   TCPDeviceManagementConnection._send_request).  KNX v01.07.03 Device Management 03.08.03 2.3.2.

   One action per observable step; times in milliseconds.  UDP = TRUE: requests are acknowledged and repeated;
   FALSE: TCP, no acknowledgement, no repetition.
     open      the connection is established and not closed
     txSeq     sequence counter the next new DeviceConfigurationRequest must carry
     waiting   requests that were called and have not returned
     cur       the request that owns the connection (NoReq: none); at most one is outstanding
     nTx       transmissions of cur's frame
     accepted  the server acknowledged cur or answered while cur was outstanding
     elig      answers received while cur was outstanding (anything received earlier is stale)
     inds      indications received and not yet handed to the indication callback
     closedAt  instant at which the connection was closed while cur was outstanding (-1: not)
     acked     the acknowledgement of cur's frame arrived (the wait for it cannot be interrupted by closing) *)
EXTENDS Integers, Sequences, FiniteSets
CONSTANTS UDP, REPEAT, TIMEOUT
VARIABLES open, txSeq, waiting, cur, nTx, accepted, elig, inds, closedAt, acked
vars == <<open, txSeq, waiting, cur, nTx, accepted, elig, inds, closedAt, acked>>
NoReq == [id |-> -1]
Init == /\ open = TRUE /\ txSeq = 0 /\ waiting = {} /\ cur = NoReq /\ nTx = 0 /\ accepted = FALSE /\ elig = {}
        /\ inds = <<>> /\ closedAt = -1 /\ acked = FALSE
\* req = [id, kind ("read" | "write"), key (<<object type, instance, property id>>)]
Call(req) == /\ \A r \in waiting : r.id # req.id
             /\ waiting' = waiting \cup {req}
             /\ UNCHANGED <<open, txSeq, cur, nTx, accepted, elig, inds, closedAt, acked>>
Owner(id) == IF cur = NoReq THEN CHOOSE r \in waiting \cup {NoReq} : r.id = id \/ (r = NoReq /\ \A q \in waiting : q.id # id)
             ELSE cur
(* a DeviceConfigurationRequest carrying request id's frame is put on the wire *)
TxReq(id, seq) ==
  /\ open                                              \* nothing is transmitted on a closed connection
  /\ Owner(id).id = id                                 \* one request at a time: the frame belongs to the outstanding request
  /\ seq = txSeq                                       \* next counter; a repetition keeps it
  /\ nTx < (IF UDP THEN REPEAT + 1 ELSE 1)             \* repeated at most REPEAT times
  /\ ~(UDP /\ accepted)                                \* only an unacknowledged request is repeated
  /\ cur' = Owner(id) /\ nTx' = nTx + 1
  /\ accepted' = (IF UDP THEN accepted ELSE TRUE)      \* TCP: the counter advances with the transmission
  /\ elig' = (IF cur = NoReq THEN {} ELSE elig)
  /\ UNCHANGED <<open, txSeq, waiting, inds, closedAt, acked>>
RxAck(seq, st) == /\ accepted' = (accepted \/ (UDP /\ cur # NoReq /\ nTx > 0 /\ seq = txSeq /\ st = 0))
                  /\ acked' = (acked \/ (UDP /\ cur # NoReq /\ nTx > 0 /\ seq = txSeq /\ st = 0))
                  /\ UNCHANGED <<open, txSeq, waiting, cur, nTx, elig, inds, closedAt>>
(* a cEMI frame of the server is passed up: type "read" (M_PropRead.con) | "write" (M_PropWrite.con) | "ind" *)
RxCemi(type, key, val, err) ==
  IF type = "ind"
  THEN inds' = Append(inds, key) /\ UNCHANGED <<open, txSeq, waiting, cur, nTx, accepted, elig, closedAt, acked>>
  ELSE /\ IF cur # NoReq /\ nTx > 0
             THEN elig' = elig \cup {[type |-> type, key |-> key, val |-> val, err |-> err]} /\ accepted' = TRUE
             ELSE UNCHANGED <<elig, accepted>>
       /\ UNCHANGED <<open, txSeq, waiting, cur, nTx, inds, closedAt, acked>>
IndCb(key) == /\ inds # <<>> /\ Head(inds) = key /\ inds' = Tail(inds)       \* indications go to the callback, in order
              /\ UNCHANGED <<open, txSeq, waiting, cur, nTx, accepted, elig, closedAt, acked>>
Close(t) == /\ open' = FALSE
            /\ closedAt' = (IF cur # NoReq /\ closedAt = -1 THEN t ELSE closedAt)
            /\ UNCHANGED <<txSeq, waiting, cur, nTx, accepted, elig, inds, acked>>
(* request id returns: out = "ok" with value val, or "err" (CommunicationError) *)
Mine(a, r) == a.type = r.kind /\ a.key = r.key
Ret(id, out, val, t) ==
  /\ Owner(id).id = id
  /\ LET r == Owner(id) IN
     /\ out = "ok" => /\ cur = r
                      /\ \E a \in elig : Mine(a, r) /\ a.val = val /\ a.err = 0      \* only its own answer
     /\ out = "err" => TRUE
     /\ (closedAt # -1 /\ cur = r) =>                              \* closed while outstanding: fails promptly
            /\ out = "err" \/ \E a \in elig : Mine(a, r) /\ a.val = val
            /\ t <= closedAt + (IF UDP /\ nTx > 0 /\ ~acked THEN TIMEOUT ELSE 0)
     /\ (cur = NoReq) => (out = "err" /\ ~open)                    \* never transmitted: only on a closed connection
     /\ (cur = r /\ ~accepted /\ open) => FALSE                    \* an unaccepted request ends the connection
     /\ waiting' = waiting \ {r}
     /\ txSeq' = (IF cur = r /\ accepted THEN (txSeq + 1) % 256 ELSE txSeq)   \* once per accepted request
  /\ cur' = NoReq /\ nTx' = 0 /\ accepted' = FALSE /\ elig' = {} /\ closedAt' = -1 /\ acked' = FALSE
  /\ UNCHANGED <<open, inds>>
Reconnected == ~open /\ cur = NoReq /\ open' = TRUE /\ txSeq' = 0 /\ UNCHANGED <<waiting, cur, nTx, accepted, elig, inds, closedAt, acked>>
=============================================================================
