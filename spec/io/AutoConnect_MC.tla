--------------------------- MODULE AutoConnect_MC ---------------------------
(* every scan of up to two gateways: the scan itself is chosen in the initial state *)
EXTENDS AutoConnect
=============================================================================
