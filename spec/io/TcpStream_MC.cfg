SPECIFICATION Spec
CONSTANT Frames <- Stream1
CONSTANT HLEN = 3
INVARIANT AllFed
PROPERTY Monotone
CHECK_DEADLOCK FALSE
