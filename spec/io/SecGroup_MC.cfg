SPECIFICATION MCSpec
CONSTANTS LATENCY = 4 SYNCTOL = 1 MAXN = 3 MAXT = 4
INVARIANT OnlyAuthenticatedMovesTimer
PROPERTY TimerNeverBackwards
PROPERTY OutMonotone
CHECK_DEADLOCK FALSE
