CONSTANTS M = 256  N = 40  LIFE = 2  MAXDUP = 6
SPECIFICATION SSpec
CHECK_DEADLOCK FALSE
