\* M = 256 (the implementation's modulus); histories bounded to 3 acknowledgements
CONSTANT M = 256
SPECIFICATION MSpec
INVARIANT TypeOK
PROPERTY Clauses
CONSTRAINT Bound
