INIT Init
NEXT Next
