SPECIFICATION Spec
INVARIANT NoDowngrade
INVARIANT ConnectedOnlyAsAllowed
CHECK_DEADLOCK FALSE
