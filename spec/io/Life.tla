-------------------------------- MODULE Life --------------------------------
(* Design model for C25: tunnel lifecycle (xknx/io/tunnel.py _tunnel_lost, _reconnect, disconnect) with a server that may
   send DisconnectRequests at any time and a user who may disconnect at any time.  FIXED = FALSE is the pinned behaviour
   (a tunnel lost while the user disconnects still schedules a reconnect), FIXED = TRUE the repaired one. *)
EXTENDS Integers, Sequences, FiniteSets, TLC
CONSTANTS AutoReconnect, FIXED   \* FIXED = TRUE models the repaired disconnect()
VARIABLES state, chan, established, transportUp, reconn, userDisc, sentAfterDisc, srvEvents, cbLog
vars == <<state, chan, established, transportUp, reconn, userDisc, sentAfterDisc, srvEvents, cbLog>>
\* reconn: "none" | "r1" (created, not yet run) | "r_disc" (awaiting DisconnectResponse) | "r_conn" (awaiting ConnectResponse) | "done" (finished, cleanup callback pending)
\* userDisc: "no" | "d_wait" (awaiting DisconnectResponse) | "done"
SetState(s) == IF state = s THEN UNCHANGED <<state, cbLog>> ELSE state' = s /\ cbLog' = Append(cbLog, s)
Send == sentAfterDisc' = (sentAfterDisc \/ userDisc = "done")
Init == /\ state = "CONNECTED" /\ chan = TRUE /\ established = TRUE /\ transportUp = TRUE /\ reconn = "none"
        /\ userDisc = "no" /\ sentAfterDisc = FALSE /\ srvEvents = 0 /\ cbLog = <<"CONNECTED">>
TunnelLost ==   \* synchronous helper: returns the new value of reconn
  IF AutoReconnect /\ reconn = "none" /\ ~(FIXED /\ userDisc # "no") THEN "r1" ELSE reconn
\* server sends DisconnectRequest for our channel
ServerDisconnect == /\ srvEvents < 2 /\ chan /\ transportUp
                    /\ srvEvents' = srvEvents + 1
                    /\ chan' = FALSE /\ established' = FALSE
                    /\ Send                                   \* DisconnectResponse
                    /\ reconn' = TunnelLost
                    /\ UNCHANGED <<state, transportUp, userDisc, cbLog>>
\* user calls disconnect(): _prepare_disconnect + _stop_reconnect (synchronous part), then awaits the exchange
UserDisc1 == /\ userDisc = "no" /\ reconn \in {"none", "r1", "r_disc", "r_conn", "done"}
             /\ SetState("DISCONNECTED")
             /\ reconn' = IF reconn \in {"r1", "r_disc", "r_conn"} THEN "done" ELSE reconn   \* cancelled
             /\ IF chan /\ transportUp THEN userDisc' = "d_wait" /\ Send /\ UNCHANGED <<chan, transportUp>>
                ELSE userDisc' = "done" /\ transportUp' = FALSE /\ chan' = FALSE /\ UNCHANGED sentAfterDisc
             /\ established' = FALSE
             /\ UNCHANGED srvEvents
UserDisc2 == /\ userDisc = "d_wait"      \* DisconnectResponse arrived or timed out
             /\ userDisc' = "done" /\ chan' = FALSE /\ transportUp' = FALSE
             /\ UNCHANGED <<state, established, reconn, sentAfterDisc, srvEvents, cbLog>>
\* reconnect task
R1 == /\ reconn = "r1" /\ SetState("DISCONNECTED") /\ established' = FALSE
      /\ IF transportUp /\ chan THEN reconn' = "r_disc" /\ Send /\ UNCHANGED <<chan, transportUp>>
         ELSE reconn' = "r_conn0" /\ chan' = FALSE /\ transportUp' = FALSE /\ UNCHANGED sentAfterDisc
      /\ UNCHANGED <<userDisc, srvEvents>>
R2 == /\ reconn = "r_disc" /\ reconn' = "r_conn0" /\ chan' = FALSE /\ transportUp' = FALSE
      /\ UNCHANGED <<state, established, userDisc, sentAfterDisc, srvEvents, cbLog>>
R3 == /\ reconn = "r_conn0" /\ SetState("CONNECTING") /\ transportUp' = TRUE /\ Send   \* ConnectRequest
      /\ reconn' = "r_conn" /\ UNCHANGED <<chan, established, userDisc, srvEvents>>
R4 == /\ reconn = "r_conn" /\ chan' = TRUE /\ established' = TRUE /\ SetState("CONNECTED") /\ reconn' = "done"
      /\ UNCHANGED <<transportUp, userDisc, sentAfterDisc, srvEvents>>
Cleanup == /\ reconn = "done" /\ reconn' = "none"
           /\ UNCHANGED <<state, chan, established, transportUp, userDisc, sentAfterDisc, srvEvents, cbLog>>
Next == ServerDisconnect \/ UserDisc1 \/ UserDisc2 \/ R1 \/ R2 \/ R3 \/ R4 \/ Cleanup
Spec == Init /\ [][Next]_vars
SilentAfterDisconnect == ~sentAfterDisc
ConnectedIffEstablished == (state = "CONNECTED") <=> established
NoStateAfterDisc == userDisc = "done" => state = "DISCONNECTED"
RealTransitionsOnly == \A i \in 1..(Len(cbLog) - 1) : cbLog[i] # cbLog[i+1]
=============================================================================
