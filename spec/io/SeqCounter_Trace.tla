------------------------- MODULE SeqCounter_Trace -------------------------
(* Trace validation for C23: every recorded receive history of a real UDPTunnel / DeviceManagement is replayed
   through the actions of SeqCounter.  Events (one per server request, recorded after the datagram callback returned):
     recv  {c, id, own, up: <<ids passed up>>, acks: <<[ch, c] acknowledged>>, ch, exp}      reset {exp}
   `exp` (the implementation's expected counter, when observable) = -1 means "not logged": TLC infers it. *)
EXTENDS Integers, Sequences, FiniteSets, Json, IOUtils, TLC
Traces == ndJsonDeserialize(IOEnv.TRACE_FILE)
M == 256
VARIABLES expected, delivered, acked, tid, l
S == INSTANCE SeqCounter
vars == <<expected, delivered, acked, tid, l>>
Ev == Traces[tid][l]
TInit == tid \in 1..Len(Traces) /\ l = 1 /\ S!Init
NewUp == SubSeq(delivered', Len(delivered) + 1, Len(delivered'))
NewAck == SubSeq(acked', Len(acked) + 1, Len(acked'))
Step ==
  /\ l <= Len(Traces[tid]) /\ l' = l + 1 /\ UNCHANGED tid
  /\ \/ /\ Ev.ev = "recv" /\ Ev.own = 1 /\ S!Recv(Ev.c, Ev.id)
        /\ Ev.up = [i \in 1..Len(NewUp) |-> NewUp[i][2]]          \* exactly these cEMI frames were passed up
        /\ Len(Ev.acks) = Len(NewAck)
        /\ \A i \in 1..Len(NewAck) : Ev.acks[i][2] = NewAck[i] /\ Ev.acks[i][1] = Ev.ch   \* own counter, own channel
        /\ Ev.exp # -1 => expected' = Ev.exp
     \/ /\ Ev.ev = "recv" /\ Ev.own = 0 /\ S!RecvForeign /\ Ev.up = <<>> /\ Ev.acks = <<>>
        /\ Ev.exp # -1 => expected' = Ev.exp
     \/ /\ Ev.ev = "reset" /\ S!Reset /\ (Ev.exp # -1 => expected' = Ev.exp)
TSpec == TInit /\ [][Step]_vars
Mark == /\ TLCSet(2, [TLCGet(2) EXCEPT ![tid] = IF @ < l THEN l ELSE @])
        /\ (l = Len(Traces[tid]) + 1 => TLCSet(1, TLCGet(1) \cup {tid}))
Post == LET bad == (1..Len(Traces)) \ TLCGet(1) IN PrintT(<<"RESULT", Len(Traces), {<<t, TLCGet(2)[t]>> : t \in bad}>>)
ASSUME TLCSet(1, {}) /\ TLCSet(2, [t \in 1..Len(Traces) |-> 0])
=============================================================================
