SPECIFICATION TSpec
CONSTRAINT Mark
INVARIANT Inv
POSTCONDITION Post
CHECK_DEADLOCK FALSE
