------------------------------ MODULE SecGroup ------------------------------
(* KNX IP Secure routing (secure multicast group), receive side and timer   (xknx/io/ip_secure.py SecureGroup.handle_knxipframe,
   SecureSequenceTimer.handle_timer_notify / validate_secure_wrapper / synchronize / get_for_outgoing_secure_wrapper).
   KNX v01.01.02 KNX IP Secure 03.08.09 2.2.2.3 (timer synchronisation, events E1-E11).  Monitor form; times and timer values in ms.
   The local timer is t + diff (t = monotonic clock).
     diff      clock difference
     auth      the timer is authenticated (synchronisation finished)
     pending   timer value of an accepted synchronisation reply not yet applied (-1: none)
     lastOut   timer value of the last wrapper sent (-1: none) *)
EXTENDS Integers
CONSTANTS LATENCY, SYNCTOL
VARIABLES diff, auth, pending, lastOut
vars == <<diff, auth, pending, lastOut>>
Init == diff = 0 /\ auth = FALSE /\ pending = -1 /\ lastOut = -1
PlainServices == {"SEARCH_REQUEST", "SEARCH_REQUEST_EXTENDED", "SEARCH_RESPONSE", "SEARCH_RESPONSE_EXTENDED", "DESCRIPTION_REQUEST", "DESCRIPTION_RESPONSE"}
Local(t) == t + diff
Forward(t, v) == IF v > Local(t) THEN diff + (v - Local(t)) ELSE diff       \* an authenticated frame ahead of us moves the timer forward
(* a plain frame: forwarded (up = 1) only for discovery and self-description services; tv = the timer read afterwards *)
RxPlain(svc, up, t, tv) == /\ up = (IF svc \in PlainServices THEN 1 ELSE 0) /\ tv = Local(t) /\ UNCHANGED vars
(* a TimerNotify: macok = its MAC verifies; sync = it answers our synchronisation request (own serial number, awaited tag) *)
RxNotify(v, macok, sync, t, tv) ==
  /\ IF ~macok THEN UNCHANGED <<diff, pending>>                                  \* processed only when the MAC verifies
     ELSE IF sync /\ ~auth THEN pending' = (IF pending = -1 THEN v ELSE pending) /\ UNCHANGED diff    \* (a repeated reply changes nothing)
     ELSE diff' = Forward(t, v) /\ UNCHANGED pending
  /\ tv = t + diff' /\ UNCHANGED <<auth, lastOut>>
(* a SecureWrapper: forwarded only if authenticated, its MAC verifies and its timer value is within the latency tolerance *)
RxWrapped(v, macok, up, t, tv) ==
  /\ IF auth /\ macok
     THEN /\ up = (IF v > Local(t) - LATENCY THEN 1 ELSE 0)
          /\ diff' = Forward(t, v)
     ELSE up = 0 /\ UNCHANGED diff                      \* only authenticated frames move the timer
  /\ tv = t + diff' /\ UNCHANGED <<auth, pending, lastOut>>
(* synchronize() returned: an accepted reply sets the timer, otherwise we become time keeper with our own timer *)
Synced(t, tv) == /\ auth' = TRUE /\ diff' = (IF pending # -1 THEN pending - t ELSE diff) /\ pending' = -1
                 /\ tv = t + diff' /\ UNCHANGED lastOut
(* a wrapper is sent carrying timer value v *)
TxWrapped(v, t) == /\ v = Local(t) /\ v >= lastOut                   \* never decreases
                   /\ lastOut' = v /\ UNCHANGED <<diff, auth, pending>>
=============================================================================
