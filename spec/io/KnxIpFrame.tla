----------------------------- MODULE KnxIpFrame -----------------------------
(* KNXnet/IP framing (KNX v01.06.02 Core 03.08.02 2.3: header 06 10 <service type, 2 octets> <total length, 2 octets>)
   and what a frame parser may answer for an octet string (xknx/knxip/knxip.py KNXIPFrame.from_knx, header.py).
   An octet string is described by its length n and its first (up to) six octets h.
     outcome "frame"       the parser returned a frame and consumed `consumed` octets
             "incomplete"  IncompleteKNXIPFrame       "error"  CouldNotParseKNXIP
             anything else (another exception, "hang") is never permitted *)
EXTENDS Integers, Sequences
HLEN == 6
VERSION == 16
HeaderOk(n, h) == n >= HLEN /\ h[1] = HLEN /\ h[2] = VERSION
Total(h) == h[5] * 256 + h[6]
\* the octets present so far are the beginning of a well-formed header
PrefixOk(n, h) == (n >= 1 => h[1] = HLEN) /\ (n >= 2 => h[2] = VERSION)
\* appending octets could complete the frame
Completable(n, h) == (n < HLEN /\ PrefixOk(n, h)) \/ (HeaderOk(n, h) /\ Total(h) >= HLEN /\ n < Total(h))
Framed(n, h) == HeaderOk(n, h) /\ Total(h) >= HLEN /\ n >= Total(h)
\* ---- C20
ParseOutcomeOk(n, h, out, consumed) ==
  CASE out = "frame"      -> Framed(n, h) /\ consumed = Total(h)       \* consumed exactly the announced length
    [] out = "incomplete" -> Completable(n, h)                         \* only when more octets could complete it
    [] out = "error"      -> TRUE
    [] OTHER              -> FALSE
\* ---- C21: a body serialised inside a frame
RoundTripOk(c) == /\ c.len = c.total                 \* exactly the announced length
                  /\ c.total = HLEN + c.calc         \* the header length is correct
                  /\ c.parsed = 1 /\ c.rest = 0      \* parsing leaves no octets over
                  /\ c.equal = 1                     \* and yields an equal body
                  /\ c.total2 = c.total
=============================================================================
