-------------------------- MODULE SeqCounter_MC --------------------------
(* Exhaustive check of the receive rule for the real modulus: every state (expected counter) x every input. *)
EXTENDS SeqCounter
VARIABLE last          \* the counter received in the last step (history variable for the action properties)
MInit == Init /\ last = -1
MRecv == \E c \in 0..M-1 : Recv(c, 0) /\ last' = c
MReset == Reset /\ last' = -1
MNext == MRecv \/ MReset
Clauses == [][last' # -1 => /\ PassUpIffExpected(last') /\ AckIffExpectedOrPrevious(last')
                            /\ AckCarriesOwnCounter(last')]_<<vars, last>>
\* delivered counters are consecutive modulo M (in counter order, each once)
InOrder == \A i \in 1..Len(delivered)-1 : delivered[i+1][1] = Succ(delivered[i][1]) \/ delivered[i+1][1] = 0
Bound == Len(acked) <= 3
View == <<expected, Len(delivered) > 0, last>>
MSpec == MInit /\ [][MNext]_<<vars, last>>
=============================================================================
