---------------------------- MODULE SecSession_MC ----------------------------
(* Every receive history of length <= MAXN over the frame classes and four sequence numbers, and every send, explored on the
   monitor; `passed` records what was handed on.  Checked: only fresh genuine wrappers (or the plain SessionResponse before
   authentication) are passed on, accepted numbers strictly increase, sent numbers strictly increase. *)
EXTENDS SecSession, Sequences
CONSTANT MAXN
VARIABLES passed, n, sent
mcvars == <<vars, passed, n, sent>>
Classes == {"genuine", "forged", "wrongkey", "wrongsid", "nested", "diag", "plainresp", "plain"}
MCInit == Init /\ passed = <<>> /\ n = 0 /\ sent = <<>>
MCNext == \/ \E c \in Classes, s \in 0..3, u \in {0, 1} :
               n < MAXN /\ n' = n + 1 /\ Rx(c, s, u) /\ passed' = (IF u = 1 THEN Append(passed, <<c, s, init>>) ELSE passed) /\ UNCHANGED sent
          \/ \E s \in 0..3 : Len(sent) < 3 /\ TxWrapped(s) /\ sent' = Append(sent, s) /\ UNCHANGED <<passed, n>>
MCSpec == MCInit /\ [][MCNext]_mcvars
OnlyFreshWrapped == \A i \in 1..Len(passed) : passed[i][1] = "genuine" \/ (passed[i][1] = "plainresp" /\ ~passed[i][3])
AcceptedIncrease == \A i, j \in 1..Len(passed) : (i < j /\ passed[i][1] = "genuine" /\ passed[j][1] = "genuine") => passed[i][2] < passed[j][2]
SentIncrease == \A i, j \in 1..Len(sent) : i < j => sent[i] < sent[j]
=============================================================================
