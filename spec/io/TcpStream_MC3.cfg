SPECIFICATION Spec
CONSTANT Frames <- Stream3
CONSTANT HLEN = 3
INVARIANT AllFed
PROPERTY Monotone
CHECK_DEADLOCK FALSE
