\* M = 4 so that wrap-around is reached with N = 6 frames; at most 2 network duplications; one reconnect
CONSTANTS M = 4  N = 6  LIFE = 2  MAXDUP = 2
SPECIFICATION Spec
INVARIANT TypeOK
INVARIANT StrictlyIncreasing
INVARIANT NoGapWithoutReconnect
INVARIANT SrvNeverAhead
CHECK_DEADLOCK FALSE
