---------------------------- MODULE TunnelRx_Sim ----------------------------
(* TunnelRx with the implementation's modulus and an action-label history variable, used with `tlc -simulate`
   to generate network behaviours (what the client receives, in which order) that are replayed into the code. *)
EXTENDS TunnelRx
VARIABLE act
SInit == Init /\ act = [name |-> "init"]
SNext == \/ SrvSend /\ act' = [name |-> "srvsend"]
         \/ SrvTimeout /\ act' = [name |-> "srvtimeout"]
         \/ Reconnect /\ act' = [name |-> "reconnect"]
         \/ \E a \in acks : (SrvAck(a) \/ LoseAck(a)) /\ act' = [name |-> "ack"]
         \/ \E m \in net : Lose(m) /\ act' = [name |-> "lose"]
         \/ \E m \in net, k \in BOOLEAN : ClientRecv(m, k) /\ act' = [name |-> "recv", seq |-> m.seq, id |-> m.id]
SSpec == SInit /\ [][SNext]_<<vars, act>>
=============================================================================
