------------------------------ MODULE Routing ------------------------------
(* KNXnet/IP routing: flow control (RoutingBusy) and RoutingIndication pacing   (xknx/io/routing.py
   _RoutingFlowControl.throttle / handle_routing_busy / _resume_sending, Routing.send_cemi).
   From KNX v01.05.02 Routing 03.08.05 2.3.5 and Communication Medium KNX IP 03.02.06 2.1.

   Every action carries the time t at which it happens (one time unit per module instance: 5 ms ticks in the
   exhaustive model, microseconds in trace validation).  TOL is the width of the window in which two instants
   are regarded as simultaneous (their order is then not determined: both orders are behaviours).

   fc (flow control) is one record:
     ready    sending permitted
     pstart   time of the busy frame that set the current pause (None: not pausing)
     wait     announced wait time of that frame
     n        number of busy frames in the moving time window (the factor of the random extension)
     lastBusy time of the previous busy frame
     phase    state of the timer task: "none" | "new" (created, random extension not yet drawn) |
              "pause" (sleeping until `at` = pstart + wait + extension) | "slow" (slow duration n*SLOWF) | "decay"
     at       instant of the next step of the timer task
     slow     slow duration fixed when the task started;  resumed  instant the last pause ended
     grace    a busy frame handled while sending was permitted: transmissions up to this instant count as simultaneous                                                    *)
EXTENDS Integers, Sequences, FiniteSets
CONSTANTS PACE,       \* minimum distance of two routing indications (20 ms)
          COOLDOWN,   \* busy frames closer than this count once (10 ms)
          DECR,       \* n is decremented every DECR after the slow duration (5 ms)
          SLOWF,      \* slow duration per counted busy frame (100 ms)
          TOL,        \* simultaneity window
          SLACK       \* how long after the first permitted instant a waiting sender may take to transmit
VARIABLES fc, lastTx, pend, txd, cons
vars == <<fc, lastTx, pend, txd, cons>>
None == -1
FC0 == [ready |-> TRUE, pstart |-> None, wait |-> 0, n |-> 0, lastBusy |-> 0, phase |-> "none", at |-> 0, slow |-> 0, resumed |-> 0, grace |-> -1]
Init == fc = FC0 /\ lastTx = None /\ pend = <<>> /\ txd = {} /\ cons = <<>>

StepTask(s) ==
  CASE s.phase = "pause" -> [s EXCEPT !.ready = TRUE, !.pstart = None, !.phase = "slow", !.at = s.at + s.slow, !.resumed = s.at]
    [] s.phase = "slow"  -> IF s.n > 0 THEN [s EXCEPT !.phase = "decay", !.at = s.at + DECR] ELSE [s EXCEPT !.phase = "none"]
    [] s.phase = "decay" -> IF s.n - 1 > 0 THEN [s EXCEPT !.n = s.n - 1, !.at = s.at + DECR]
                                          ELSE [s EXCEPT !.n = 0, !.phase = "none"]
    [] OTHER -> s
Timed(s) == s.phase \in {"pause", "slow", "decay"}
(* states the flow control can be in at time t: timer steps clearly before t have happened, steps within the
   simultaneity window may or may not have happened *)
RECURSIVE RunSet(_, _)
RunSet(s, t) == IF ~Timed(s) \/ s.at > t + TOL THEN {s}
                ELSE IF s.at < t - TOL THEN RunSet(StepTask(s), t)
                ELSE {s} \cup RunSet(StepTask(s), t)

SetPause(s, t, w) == [s EXCEPT !.wait = w, !.pstart = t, !.phase = "new", !.at = 0, !.slow = 0]
(* a busy frame announcing wait time w arrives at t *)
BusySet(s, t, w) ==
  LET s1 == [s EXCEPT !.ready = FALSE, !.lastBusy = t, !.grace = IF s.ready THEN t + TOL ELSE s.grace] IN
  IF s.pstart = None THEN {SetPause(s1, t, w)}
  ELSE LET d   == t - s.lastBusy
           ns  == IF d > COOLDOWN + TOL THEN {s.n + 1} ELSE IF d < COOLDOWN - TOL THEN {s.n} ELSE {s.n, s.n + 1}
           rem == s.wait - (t - s.pstart)
           keep == rem >= w - TOL       \* frame may be discarded: its wait time is not longer than the remaining pause
           move == rem < w + TOL        \* frame may set a new pause
       IN  {[s1 EXCEPT !.n = m] : m \in IF keep THEN ns ELSE {}}
           \cup {SetPause([s1 EXCEPT !.n = m], t, w) : m \in IF move THEN ns ELSE {}}
(* the timer task starts: r = drawn random extension per counted busy frame *)
Draw(s, r) == [s EXCEPT !.phase = "pause", !.at = s.pstart + s.wait + r * s.n, !.slow = s.n * SLOWF]

Busy(t, w) == /\ \E s \in RunSet(fc, t) : fc' \in BusySet(s, t, w)
              /\ UNCHANGED <<lastTx, pend, txd, cons>>
Rand(r)    == fc.phase = "new" /\ fc' = Draw(fc, r) /\ UNCHANGED <<lastTx, pend, txd, cons>>
Call(id, t) == /\ id \notin DOMAIN pend /\ id \notin txd
               /\ pend' = [i \in DOMAIN pend \cup {id} |-> IF i = id THEN t ELSE pend[i]]
               /\ fc' \in RunSet(fc, t) /\ UNCHANGED <<lastTx, txd, cons>>
\* ---- C27: when a routing indication may be transmitted
(* a sender released before a busy frame of the same instant may still transmit: instants within TOL are simultaneous *)
MayTx(s, last, t) == (s.ready \/ t <= s.grace) /\ (last = None \/ t - last >= PACE - TOL)
Tx(id, t) == /\ id \in DOMAIN pend
             /\ \E s \in RunSet(fc, t) : MayTx(s, lastTx, t) /\ fc' = s
             /\ lastTx' = t /\ txd' = txd \cup {id}
             /\ pend' = [i \in DOMAIN pend \ {id} |-> pend[i]]
             /\ cons' = [i \in DOMAIN cons \cup {id} |-> IF i = id THEN 0 ELSE cons[i]]
(* the caller gave up (its task was cancelled) before its frame was written: the frame is never sent, the others go on as if it had not asked *)
Cancelled(id) == /\ id \in DOMAIN pend /\ pend' = [i \in DOMAIN pend \ {id} |-> pend[i]] /\ UNCHANGED <<fc, lastTx, txd, cons>>
Con(id) == id \in txd /\ cons' = [cons EXCEPT ![id] = @ + 1] /\ UNCHANGED <<fc, lastTx, pend, txd>>
Ret(id) == id \in txd /\ cons[id] = 1 /\ UNCHANGED vars            \* exactly one local confirmation per routed send
\* ---- C27 "sending resumes": the longest waiting sender transmits at the first permitted instant (+ SLACK)
Max(a, b) == IF a > b THEN a ELSE b
MinCall == CHOOSE c \in {pend[i] : i \in DOMAIN pend} : \A i \in DOMAIN pend : c <= pend[i]
PauseEnd == IF fc.ready THEN fc.resumed ELSE IF fc.phase = "pause" THEN fc.at ELSE 2000000000
\* (IF, not \/: inside an action TLC explores both disjuncts and would evaluate MinCall on an empty set)
OnTime(t) == IF DOMAIN pend = {} THEN TRUE
             ELSE t <= Max(Max(MinCall, IF lastTx = None THEN 0 ELSE lastTx + PACE), PauseEnd) + SLACK
=============================================================================
