SPECIFICATION MCSpec
CONSTANTS UDP = TRUE REPEAT = 1 TIMEOUT = 1
INVARIANT OwnAnswerOnly
INVARIANT RepeatBound
PROPERTY CounterOncePerAccepted
PROPERTY OneOutstandingOnWire
PROPERTY SilentWhenClosed
CHECK_DEADLOCK FALSE
