CONSTANTS AutoReconnect = FALSE  FIXED = TRUE
SPECIFICATION Spec
INVARIANT SilentAfterDisconnect
INVARIANT NoStateAfterDisc
INVARIANT RealTransitionsOnly
CHECK_DEADLOCK FALSE
