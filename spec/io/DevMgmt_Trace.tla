--------------------------- MODULE DevMgmt_Trace ---------------------------
(* Trace validation for C32.  Item = [udp, ev]; events (t in ms)
     call {id, kind, ot, inst, pid}        read_property / write_property entered
     tx_req {id, seq, t}                   DeviceConfigurationRequest on the wire (id recovered from the cEMI frame)
     rx_ack {seq, st}                      DeviceConfigurationAck delivered
     rx_cemi {type, ot, inst, pid, val, err}  server frame passed up by the receive path
     ind_cb {ot, inst, pid}                indication callback invoked
     close {by, t}                         user disconnect() / server DisconnectRequest / TCP connection lost / client gave up
     ret {id, out, val, t}                 request returned ("ok", first data octet) or raised CommunicationError ("err");
                                           any other exception is out = "exc:<type>", which nothing explains
     reconnected                           connect() succeeded again
     end                                   all indications were delivered, nothing is waiting *)
EXTENDS Integers, Sequences, FiniteSets, Json, IOUtils, TLC
Traces == ndJsonDeserialize(IOEnv.TRACE_FILE)
VARIABLES open, txSeq, waiting, cur, nTx, accepted, elig, inds, closedAt, acked, tid, l
vars == <<open, txSeq, waiting, cur, nTx, accepted, elig, inds, closedAt, acked, tid, l>>
U == INSTANCE DevMgmt WITH UDP <- TRUE, REPEAT <- 3, TIMEOUT <- 10000
T == INSTANCE DevMgmt WITH UDP <- FALSE, REPEAT <- 3, TIMEOUT <- 10000
Ev == Traces[tid].ev[l]
IsU == Traces[tid].udp = 1
Key(e) == <<e.ot, e.inst, e.pid>>
TInit == tid \in 1..Len(Traces) /\ l = 1 /\ U!Init
Step ==
  /\ l <= Len(Traces[tid].ev) /\ l' = l + 1 /\ UNCHANGED tid
  /\ \/ Ev.ev = "call" /\ U!Call([id |-> Ev.id, kind |-> Ev.kind, key |-> Key(Ev)])
     \/ Ev.ev = "tx_req" /\ IF IsU THEN U!TxReq(Ev.id, Ev.seq) ELSE T!TxReq(Ev.id, Ev.seq)
     \/ Ev.ev = "rx_ack" /\ IF IsU THEN U!RxAck(Ev.seq, Ev.st) ELSE T!RxAck(Ev.seq, Ev.st)
     \/ Ev.ev = "rx_cemi" /\ IF open THEN U!RxCemi(Ev.type, Key(Ev), Ev.val, Ev.err)      \* a closed connection passes nothing up
                                      ELSE UNCHANGED <<open, txSeq, waiting, cur, nTx, accepted, elig, inds, closedAt, acked>>
     \/ Ev.ev = "ind_cb" /\ U!IndCb(Key(Ev))
     \/ Ev.ev = "close" /\ U!Close(Ev.t)
     \/ Ev.ev = "ret" /\ IF IsU THEN U!Ret(Ev.id, Ev.out, Ev.val, Ev.t) ELSE T!Ret(Ev.id, Ev.out, Ev.val, Ev.t)
     \/ Ev.ev = "reconnected" /\ U!Reconnected
     \/ Ev.ev = "end" /\ inds = <<>> /\ waiting = {} /\ UNCHANGED <<open, txSeq, waiting, cur, nTx, accepted, elig, inds, closedAt, acked>>
TSpec == TInit /\ [][Step]_vars
Mark == /\ TLCSet(2, [TLCGet(2) EXCEPT ![tid] = IF @ < l THEN l ELSE @])
        /\ (l = Len(Traces[tid].ev) + 1 => TLCSet(1, TLCGet(1) \cup {tid}))
Post == LET bad == (1..Len(Traces)) \ TLCGet(1) IN PrintT(<<"RESULT", Len(Traces), {<<t, TLCGet(2)[t]>> : t \in bad}>>)
ASSUME TLCSet(1, {}) /\ TLCSet(2, [t \in 1..Len(Traces) |-> 0])
=============================================================================
