CONSTANTS M = 3  N = 3  MaxFaults = 2  IMPL_DEV = TRUE
SPECIFICATION Spec
INVARIANT OwnAckOnly
INVARIANT OwnSeq
CHECK_DEADLOCK FALSE
