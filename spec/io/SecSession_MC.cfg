SPECIFICATION MCSpec
CONSTANT MAXN = 4
INVARIANT OnlyFreshWrapped
INVARIANT AcceptedIncrease
INVARIANT SentIncrease
CHECK_DEADLOCK FALSE
