----------------------------- MODULE Heartbeat -----------------------------
(* Connection heartbeat of a KNXnet/IP data connection (Core 03.08.02 §5.4; xknx/io/data_connection.py
   ConnectionHeartbeat._run).  One action per awaited ConnectionStateRequest outcome.  Time is in milliseconds. *)
EXTENDS Integers, Sequences
CONSTANT Rate                    \* heartbeat period
VARIABLES alive,                 \* the heartbeat task is running
          fails,                 \* consecutive failed requests of the current round
          lost,                  \* number of on_failure notifications
          due,                   \* time at which the next request is sent
          hist                   \* outcomes so far (history variable used only by the properties)
vars == <<alive, fails, lost, due, hist>>
Outcomes == {"ok", "fail", "none", "raise", "gone"}
Failure(o) == o \in {"fail", "none"}

Init == alive = TRUE /\ fails = 0 /\ lost = 0 /\ due = Rate /\ hist = <<>>
Start(t) == alive' = TRUE /\ fails' = 0 /\ due' = t + Rate /\ UNCHANGED <<lost, hist>>

\* A request is sent at time t (= due) and its outcome o is known dur later.
Request(o, t, dur) ==
  /\ alive /\ t = due /\ dur >= 0
  /\ hist' = Append(hist, o)
  /\ CASE o = "gone"  -> alive' = FALSE /\ UNCHANGED <<fails, lost, due>>
       [] o = "raise" -> alive' = FALSE /\ lost' = lost + 1 /\ UNCHANGED <<fails, due>>
       [] o = "ok"    -> fails' = 0 /\ due' = t + dur + Rate /\ UNCHANGED <<alive, lost>>
       [] Failure(o)  -> IF fails = 3
                           THEN alive' = FALSE /\ lost' = lost + 1 /\ UNCHANGED <<fails, due>>
                           ELSE fails' = fails + 1 /\ due' = t + dur /\ UNCHANGED <<alive, lost>>
Stop == alive' = FALSE /\ UNCHANGED <<fails, lost, due, hist>>

\* ---- C26, stated independently of the counter, over the outcome history
LastN(n) == SubSeq(hist, Len(hist) - n + 1, Len(hist))
FourFailures == Len(hist) >= 4 /\ \A i \in 1..4 : Failure(LastN(4)[i])
LostExactlyWhen == (lost = 1) <=> (hist # <<>> /\ (hist[Len(hist)] = "raise" \/ FourFailures))
LostAtMostOnce == lost <= 1
QuietWhenGone == (hist # <<>> /\ hist[Len(hist)] = "gone") => (~alive /\ lost = 0)
AliveUnlessEnded == alive <=> ~(hist # <<>> /\ (hist[Len(hist)] \in {"raise", "gone"} \/ FourFailures))
=============================================================================
