--------------------------- MODULE Routing_Trace ---------------------------
(* Trace validation for C27.  One item = one run of the real Routing class on a fake multicast socket under
   virtual time; events (t in microseconds):
     busy {t, w}      RoutingBusy datagram handled, w = announced wait time in microseconds
     rand {r}         value drawn by the timer task from random.random(), r = round(value * 50000) (microseconds of
                      random extension per counted busy frame)
     call {id, t}     Routing.send_cemi(frame id) entered
     tx   {id, t}     RoutingIndication with frame id written to the socket
     con  {id}        local L_Data.con for frame id handed to cemi_received_callback
     ret  {id}        send_cemi(frame id) returned
     cancelled {id}   the task inside send_cemi(frame id) was cancelled before the frame was written
     end  {t}         end of the observation (long after the last pause): nothing may still be waiting          *)
EXTENDS Integers, Sequences, FiniteSets, Json, IOUtils, TLC
Traces == ndJsonDeserialize(IOEnv.TRACE_FILE)
VARIABLES fc, lastTx, pend, txd, cons, tid, l
R == INSTANCE Routing WITH PACE <- 20000, COOLDOWN <- 10000, DECR <- 5000, SLOWF <- 100000, TOL <- 30, SLACK <- 25000
vars == <<fc, lastTx, pend, txd, cons, tid, l>>
Ev == Traces[tid][l]
TInit == tid \in 1..Len(Traces) /\ l = 1 /\ R!Init
Step ==
  /\ l <= Len(Traces[tid]) /\ l' = l + 1 /\ UNCHANGED tid
  /\ \/ Ev.ev = "busy" /\ R!OnTime(Ev.t) /\ R!Busy(Ev.t, Ev.w)
     \/ Ev.ev = "rand" /\ R!Rand(Ev.r)
     \/ Ev.ev = "call" /\ R!OnTime(Ev.t) /\ R!Call(Ev.id, Ev.t)
     \/ Ev.ev = "tx" /\ R!OnTime(Ev.t) /\ R!Tx(Ev.id, Ev.t)
     \/ Ev.ev = "con" /\ R!Con(Ev.id)
     \/ Ev.ev = "ret" /\ R!Ret(Ev.id)
     \/ Ev.ev = "cancelled" /\ R!Cancelled(Ev.id)
     \/ Ev.ev = "end" /\ R!OnTime(Ev.t) /\ DOMAIN pend = {} /\ (\A i \in txd : cons[i] = 1) /\ UNCHANGED <<fc, lastTx, pend, txd, cons>>
TSpec == TInit /\ [][Step]_vars
Mark == /\ TLCSet(2, [TLCGet(2) EXCEPT ![tid] = IF @ < l THEN l ELSE @])
        /\ (l = Len(Traces[tid]) + 1 => TLCSet(1, TLCGet(1) \cup {tid}))
Post == LET bad == (1..Len(Traces)) \ TLCGet(1) IN PrintT(<<"RESULT", Len(Traces), {<<t, TLCGet(2)[t]>> : t \in bad}>>)
ASSUME TLCSet(1, {}) /\ TLCSet(2, [t \in 1..Len(Traces) |-> 0])
=============================================================================
