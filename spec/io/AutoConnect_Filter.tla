------------------------- MODULE AutoConnect_Filter -------------------------
(* C46 second clause: recorded GatewayScanFilter.match results  [f, g, res]  judged by FilterMatch. *)
EXTENDS Integers, Sequences, Json, IOUtils, TLC
Cases == ndJsonDeserialize(IOEnv.TRACE_FILE)
A == INSTANCE AutoConnect WITH scan <- <<>>, i <- 0, via <- "none", attempts <- <<>>
B(x) == x = 1
Gw(r) == [rout |-> B(r.rout), tun |-> r.tun, sectun |-> B(r.sectun), secrout |-> B(r.secrout), host |-> TRUE]
Ok(c) == LET f == [tun |-> B(c.f.tun), tcp |-> B(c.f.tcp), rout |-> B(c.f.rout), sectun |-> B(c.f.sectun), secrout |-> B(c.f.secrout)]
         IN A!FilterMatch(f, Gw(c.g)) <=> B(c.res)
Bad == {k \in 1..Len(Cases) : ~Ok(Cases[k])}
ASSUME PrintT(<<"RESULT", Len(Cases), Bad>>)
VARIABLE x
Init == x = 0
Next == UNCHANGED x
=============================================================================
