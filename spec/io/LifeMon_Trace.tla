---------------------------- MODULE LifeMon_Trace ----------------------------
(* Trace validation (monitor) for C25 on a real tunnel session with injected failures.  Events:
     state_cb {cb: "a"|"b", state}      a registered connection-state callback was invoked
     rx {kind, st, chan} / tx {kind}    frames delivered to / sent by the client
     lost                               the (TCP) connection was dropped by the network
     user_disc_ret                      the user's disconnect() returned
     end {max_rtasks, conn, chan}       final observation: most reconnect tasks alive at any loop iteration,
                                        connection_manager.connected flag, tunnel channel (-1 none) *)
EXTENDS Integers, Sequences, Json, IOUtils, TLC
Traces == ndJsonDeserialize(IOEnv.TRACE_FILE)
VARIABLES stA, stB,        \* last state reported to callback a / b
          estab,           \* an error-free ConnectResponse arrived since the last DISCONNECTED report
          echan,           \* channel of the tunnel the server established last
          userDone,        \* disconnect() has returned
          lossAt,          \* time at which the client was told that the tunnel is gone (DisconnectRequest, connection lost); -1: none
          tid, l
vars == <<stA, stB, estab, echan, userDone, lossAt, tid, l>>
Ev == Traces[tid][l]
TInit == tid \in 1..Len(Traces) /\ l = 1 /\ stA = "INIT" /\ stB = "INIT" /\ estab = FALSE /\ echan = -1 /\ userDone = FALSE /\ lossAt = -1
StateCb ==
  /\ Ev.ev = "state_cb"
  /\ \/ /\ Ev.cb = "a" /\ stA = stB /\ Ev.state # stA /\ stA' = Ev.state /\ UNCHANGED stB    \* only real transitions
     \/ /\ Ev.cb = "b" /\ Ev.state = stA /\ Ev.state # stB /\ stB' = Ev.state /\ UNCHANGED stA  \* every callback once per change
  /\ (Ev.state = "CONNECTED" => estab)                      \* 'connected' only while a tunnel is established
  /\ (userDone => Ev.state = "DISCONNECTED")
  /\ estab' = (IF Ev.state = "DISCONNECTED" THEN FALSE ELSE estab) /\ UNCHANGED <<userDone, echan>>
  /\ lossAt' = (IF Ev.state = "DISCONNECTED" THEN -1 ELSE lossAt)
\* KNX IP Secure: the server ends the session under the tunnel (SESSION_STATUS unauthenticated 2, timeout 3, close 5)
SessionEnded == Ev.kind = "SessionStatus" /\ Ev.st \in {2, 3, 5}
Rx == /\ Ev.ev = "rx"
      /\ estab' = (IF Ev.kind = "ConnectResponse" /\ Ev.st = 0 THEN TRUE
                   ELSE IF Ev.kind = "DisconnectRequest" /\ Ev.chan = echan THEN FALSE     \* the server ended this tunnel
                   ELSE IF SessionEnded THEN FALSE
                   ELSE estab)
      /\ echan' = (IF Ev.kind = "ConnectResponse" /\ Ev.st = 0 THEN Ev.chan ELSE echan)
      /\ lossAt' = (IF Ev.kind = "ConnectResponse" /\ Ev.st = 0 THEN -1
                    ELSE IF (Ev.kind = "DisconnectRequest" /\ Ev.chan = echan /\ estab) \/ (SessionEnded /\ estab) THEN Ev.t ELSE lossAt)
      /\ UNCHANGED <<stA, stB, userDone>>
Lost == Ev.ev = "lost" /\ estab' = FALSE /\ lossAt' = (IF estab THEN Ev.t ELSE lossAt) /\ UNCHANGED <<stA, stB, userDone, echan>>   \* the connection under the tunnel is gone
Tx == Ev.ev = "tx" /\ ~userDone /\ UNCHANGED <<stA, stB, estab, userDone, echan, lossAt>>      \* nothing is sent after the user disconnected
UserRet == Ev.ev = "user_disc_ret" /\ userDone' = TRUE /\ UNCHANGED <<stA, stB, estab, echan, lossAt>>
End == /\ Ev.ev = "end" /\ Ev.max_rtasks <= 1                                  \* at most one reconnect attempt at a time
       /\ stA = stB
       /\ (Ev.conn = 1) <=> (stA = "CONNECTED")
       /\ (Ev.conn = 1) => (Ev.chan # -1 /\ estab)          \* reads 'connected' only while a tunnel is established
       /\ userDone => (Ev.conn = 0 /\ Ev.rtasks = 0)
       /\ UNCHANGED <<stA, stB, estab, userDone, echan, lossAt>>
Other == Ev.ev \in {"up", "note"} /\ UNCHANGED <<stA, stB, estab, userDone, echan, lossAt>>
(* once the client was told that its tunnel is gone, 'connected' is not read any more at a later instant *)
Stale == lossAt # -1 /\ Ev.t > lossAt /\ stA = "CONNECTED" /\ ~estab
Step == /\ l <= Len(Traces[tid]) /\ l' = l + 1 /\ UNCHANGED tid
        /\ ~Stale
        /\ (StateCb \/ Rx \/ Tx \/ UserRet \/ End \/ Other \/ Lost)
TSpec == TInit /\ [][Step]_vars
Mark == /\ TLCSet(2, [TLCGet(2) EXCEPT ![tid] = IF @ < l THEN l ELSE @])
        /\ (l = Len(Traces[tid]) + 1 => TLCSet(1, TLCGet(1) \cup {tid}))
Post == LET bad == (1..Len(Traces)) \ TLCGet(1) IN PrintT(<<"RESULT", Len(Traces), {<<t, TLCGet(2)[t]>> : t \in bad}>>)
ASSUME TLCSet(1, {}) /\ TLCSet(2, [t \in 1..Len(Traces) |-> 0])
=============================================================================
