---------------------------- MODULE AutoConnect ----------------------------
(* Automatic connection (xknx/io/knxip_interface.py KNXIPInterface._start_automatic) over the gateways a scan yields,
   and the scan filter (xknx/io/gateway_scanner.py GatewayScanFilter.match).
   A gateway is what its description announces:  [rout: supports routing, tun: tunnelling version 0/1/2,
   sectun / secrout: service listed in the secured service families DIB, host: passes the keyring host filter]. *)
EXTENDS Integers, Sequences
Methods == {"secure_tcp", "tcp", "udp", "routing"}
Gateways == [rout : BOOLEAN, tun : 0..2, sectun : BOOLEAN, secrout : BOOLEAN, host : BOOLEAN]
\* methods that agree with what the gateway supports and with its announced security requirement
Allowed(g) == {m \in Methods :
                 \/ m = "secure_tcp" /\ g.tun >= 2 /\ g.sectun
                 \/ m = "tcp" /\ g.tun >= 2 /\ ~g.sectun
                 \/ m = "udp" /\ g.tun >= 1 /\ ~g.sectun
                 \/ m = "routing" /\ g.rout /\ ~g.secrout}
Secured(m) == m = "secure_tcp"
\* C46 first clause, on one attempt
NoDowngradeAttempt(g, m) == /\ (m \in {"tcp", "udp"} => ~g.sectun)
                            /\ (m = "routing" => ~g.secrout)
\* scan filter: [tun, tcp, rout, sectun, secrout] enabled flags
Filters == [tun : BOOLEAN, tcp : BOOLEAN, rout : BOOLEAN, sectun : BOOLEAN, secrout : BOOLEAN]
FilterMatch(f, g) == \/ f.tun /\ g.tun >= 1 /\ ~g.sectun
                     \/ f.tcp /\ g.tun >= 2 /\ ~g.sectun
                     \/ f.rout /\ g.rout /\ ~g.secrout
                     \/ f.sectun /\ g.tun >= 2 /\ g.sectun
                     \/ f.secrout /\ g.rout /\ g.secrout

VARIABLES scan,                \* sequence of gateways in the order the scanner yields them (never changes)
          i,                   \* next gateway to look at
          via,                 \* "none" | method of the established connection | "nothing" (ended without connecting)
          attempts             \* history: <<gateway, method>> of every connection attempt
vars == <<scan, i, via, attempts>>
Scan == scan
InitWith(s) == scan = s /\ i = 1 /\ via = "none" /\ attempts = <<>>
Init == \E s \in UNION {[1..n -> Gateways] : n \in 1..2} : InitWith(s)
Running == via = "none" /\ i <= Len(Scan)
Skip == Running /\ ~Scan[i].host /\ i' = i + 1 /\ UNCHANGED <<scan, via, attempts>>
Try(m, ok) == /\ Running /\ Scan[i].host /\ m \in Allowed(Scan[i])
              /\ attempts' = Append(attempts, <<Scan[i], m>>)
              /\ IF ok THEN via' = m /\ i' = i ELSE via' = via /\ i' = i + 1
              /\ UNCHANGED scan
\* the implementation treats a gateway none of whose methods is usable as "found" without opening a connection
NothingUsable == Running /\ Scan[i].host /\ Allowed(Scan[i]) = {} /\ via' = "nothing" /\ UNCHANGED <<scan, i, attempts>>
Next == Skip \/ NothingUsable \/ \E m \in Methods, ok \in BOOLEAN : Try(m, ok)
Spec == Init /\ [][Next]_vars
NoDowngrade == \A k \in 1..Len(attempts) : NoDowngradeAttempt(attempts[k][1], attempts[k][2])
ConnectedOnlyAsAllowed == via \in Methods => via \in Allowed(Scan[i])
=============================================================================
