-------------------------- MODULE SecSession_Trace --------------------------
(* Trace validation for C29.  Events: rx {cls, seq, up}   tx {wrapped (0/1), kind, seq}   stopped
   ("raised:<type>" events - an exception out of the transport callback - are explained by nothing) *)
EXTENDS Integers, Sequences, Json, IOUtils, TLC
Traces == ndJsonDeserialize(IOEnv.TRACE_FILE)
VARIABLES init, rxSeq, txSeq, tid, l
vars == <<init, rxSeq, txSeq, tid, l>>
S == INSTANCE SecSession
Ev == Traces[tid][l]
TInit == tid \in 1..Len(Traces) /\ l = 1 /\ S!Init
Step ==
  /\ l <= Len(Traces[tid]) /\ l' = l + 1 /\ UNCHANGED tid
  /\ \/ Ev.ev = "rx" /\ S!Rx(Ev.cls, Ev.seq, Ev.up)
     \/ Ev.ev = "tx" /\ Ev.wrapped = 0 /\ S!TxPlain(Ev.kind)
     \/ Ev.ev = "tx" /\ Ev.wrapped = 1 /\ S!TxWrapped(Ev.seq) /\ Ev.kind # "undecryptable"      \* ... wrapped with the key of the running handshake / session
     \/ Ev.ev = "connect2_failed" /\ ~init /\ UNCHANGED <<init, rxSeq, txSeq>>                \* a connect answered with a forged SessionResponse fails: no session
     \/ Ev.ev = "stopped" /\ S!Stopped
TSpec == TInit /\ [][Step]_vars
Mark == /\ TLCSet(2, [TLCGet(2) EXCEPT ![tid] = IF @ < l THEN l ELSE @])
        /\ (l = Len(Traces[tid]) + 1 => TLCSet(1, TLCGet(1) \cup {tid}))
Post == LET bad == (1..Len(Traces)) \ TLCGet(1) IN PrintT(<<"RESULT", Len(Traces), {<<t, TLCGet(2)[t]>> : t \in bad}>>)
ASSUME TLCSet(1, {}) /\ TLCSet(2, [t \in 1..Len(Traces) |-> 0])
=============================================================================
