------------------------------ MODULE TunnelRx ------------------------------
(* End-to-end composition for C23: a tunnelling server that sends cEMI frames 1..N with counters modulo M,
   repeats an unacknowledged frame once and then closes the connection (KNX Tunnelling §2.6.1), a network that
   loses, duplicates and reorders datagrams, and the client receive rule of SeqCounter.
   Assumption made explicit: a datagram does not outlive LIFE later frames (packet lifetime < M - 1 frames),
   otherwise any modulo counter aliases. *)
EXTENDS Integers, Sequences, FiniteSets, SequencesExt
CONSTANTS M, N, LIFE, MAXDUP
VARIABLES expected, upcalls, srvSeq, srvNext, srvState, net, acks, dups, epoch
vars == <<expected, upcalls, srvSeq, srvNext, srvState, net, acks, dups, epoch>>
Succ(x) == (x + 1) % M
Prev(x) == (x + M - 1) % M
Init == /\ expected = 0 /\ upcalls = <<>> /\ srvSeq = 0 /\ srvNext = 1 /\ srvState = "idle"
        /\ net = {} /\ acks = {} /\ dups = 0 /\ epoch = 0
Msg(id, seq) == [id |-> id, seq |-> seq, ep |-> epoch]
\* server: first transmission of the next cEMI; older datagrams die (lifetime assumption)
SrvSend == /\ srvState = "idle" /\ srvNext <= N
           /\ net' = {m \in net : m.id > srvNext - LIFE} \cup {Msg(srvNext, srvSeq)}
           /\ acks' = {a \in acks : a.id > srvNext - LIFE}     \* same lifetime for acknowledgement datagrams
           /\ srvState' = "wait1" /\ UNCHANGED <<expected, upcalls, srvSeq, srvNext, dups, epoch>>
\* server: acknowledgement timeout -> one repetition with the same counter, then the connection is closed
SrvTimeout == \/ /\ srvState = "wait1" /\ net' = net \cup {Msg(srvNext, srvSeq)} /\ srvState' = "wait2"
                 /\ UNCHANGED <<expected, upcalls, srvSeq, srvNext, acks, dups, epoch>>
              \/ /\ srvState = "wait2" /\ srvState' = "closed"
                 /\ UNCHANGED <<expected, upcalls, srvSeq, srvNext, net, acks, dups, epoch>>
SrvAck(a) == /\ a \in acks /\ acks' = acks \ {a}
             /\ IF srvState \in {"wait1", "wait2"} /\ a.seq = srvSeq /\ a.ep = epoch
                  THEN srvSeq' = Succ(srvSeq) /\ srvNext' = srvNext + 1 /\ srvState' = "idle"
                  ELSE UNCHANGED <<srvSeq, srvNext, srvState>>
             /\ UNCHANGED <<expected, upcalls, net, dups, epoch>>
\* network
Lose(m) == /\ m \in net /\ net' = net \ {m} /\ UNCHANGED <<expected, upcalls, srvSeq, srvNext, srvState, acks, dups, epoch>>
LoseAck(a) == /\ a \in acks /\ acks' = acks \ {a} /\ UNCHANGED <<expected, upcalls, srvSeq, srvNext, srvState, net, dups, epoch>>
\* client receives m (keep = TRUE models duplication by the network); datagrams of an old connection are
\* not addressed to this socket any more (new local port / closed socket)
ClientRecv(m, keep) ==
   /\ m \in net /\ m.ep = epoch
   /\ (keep => dups < MAXDUP) /\ dups' = IF keep THEN dups + 1 ELSE dups
   /\ net' = IF keep THEN net ELSE net \ {m}
   /\ \/ /\ m.seq = expected /\ expected' = Succ(expected) /\ upcalls' = Append(upcalls, m.id)
         /\ acks' = acks \cup {[seq |-> m.seq, ep |-> epoch, id |-> m.id]}
      \/ /\ m.seq # expected /\ m.seq = Prev(expected) /\ acks' = acks \cup {[seq |-> m.seq, ep |-> epoch, id |-> m.id]}
         /\ UNCHANGED <<expected, upcalls>>
      \/ /\ m.seq # expected /\ m.seq # Prev(expected) /\ UNCHANGED <<expected, upcalls, acks>>
   /\ UNCHANGED <<srvSeq, srvNext, srvState, epoch>>
\* the connection is re-established: both counters restart at 0; the server gives up on the frame whose
\* acknowledgement never arrived (it may or may not have been passed up: at-most-once across connections)
Reconnect == /\ srvState = "closed" /\ epoch < 1
             /\ epoch' = epoch + 1 /\ expected' = 0 /\ srvSeq' = 0 /\ srvState' = "idle"
             /\ net' = {} /\ acks' = {} /\ srvNext' = srvNext + 1 /\ UNCHANGED <<upcalls, dups>>
Next == SrvSend \/ SrvTimeout \/ Reconnect
        \/ (\E a \in acks : SrvAck(a) \/ LoseAck(a))
        \/ (\E m \in net : Lose(m) \/ ClientRecv(m, TRUE) \/ ClientRecv(m, FALSE))
Spec == Init /\ [][Next]_vars

Ids == [i \in 1..N |-> i]
\* C23 end to end: what is passed up is a duplicate-free, in-order subsequence of what the server sent.  A frame may
\* be *missing* only across a reconnect (the server closed the connection without ever getting it through) ...
StrictlyIncreasing == \A i \in 1..Len(upcalls)-1 : upcalls[i] < upcalls[i+1]
\* ... and within one connection nothing is skipped:
NoGapWithoutReconnect == epoch = 0 => IsPrefix(upcalls, Ids)
\* the server never believes a frame was delivered that was not passed up
SrvNeverAhead == srvNext - 1 <= Len(upcalls) + epoch
TypeOK == expected \in 0..M-1 /\ srvSeq \in 0..M-1
=============================================================================
