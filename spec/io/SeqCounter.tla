---------------------------- MODULE SeqCounter ----------------------------
(* Receive side of a KNXnet/IP data connection (tunnelling / device management):
   KNX v01.07.01 Tunnelling 03.08.04 §2.6.1, xknx/io/data_connection.py IncomingSequenceCounter and its two users
   UDPTunnel._tunnelling_request_received / DeviceManagement._device_configuration_request_received.
   One action per linearisation point: a request is evaluated, acknowledged and passed up inside one callback. *)
EXTENDS Integers, Sequences
CONSTANT M                 \* modulus of the counter (256 in the implementation)
VARIABLES expected,        \* counter the client expects next
          delivered,       \* sequence of <<counter, id>> passed up to the cEMI callback
          acked            \* sequence of counters acknowledged on the wire
vars == <<expected, delivered, acked>>

Prev(x) == (x + M - 1) % M
Succ(x) == (x + 1) % M

Init == expected = 0 /\ delivered = <<>> /\ acked = <<>>

\* A request with counter c carrying cEMI `id` arrives on the own channel.
RecvExpected(c, id) == /\ c = expected
                       /\ expected' = Succ(expected)
                       /\ delivered' = Append(delivered, <<c, id>>)
                       /\ acked' = Append(acked, c)
RecvRepeated(c) == /\ c # expected /\ c = Prev(expected)
                   /\ acked' = Append(acked, c)
                   /\ UNCHANGED <<expected, delivered>>
RecvOther(c) == /\ c # expected /\ c # Prev(expected)
                /\ UNCHANGED vars
Recv(c, id) == RecvExpected(c, id) \/ RecvRepeated(c) \/ RecvOther(c)
\* A request for a foreign channel (device management checks the channel): nothing happens.
RecvForeign == UNCHANGED vars
\* (Re)connect: the counter restarts at 0 for every established connection.
Reset == expected' = 0 /\ UNCHANGED <<delivered, acked>>

Next == (\E c \in 0..M-1, id \in 0..0 : Recv(c, id)) \/ Reset
Spec == Init /\ [][Next]_vars

(* The three clauses of C23 as action properties over one received request. *)
PassUpIffExpected(c) == (Len(delivered') = Len(delivered) + 1) <=> (c = expected)
AckIffExpectedOrPrevious(c) == (Len(acked') = Len(acked) + 1) <=> (c = expected \/ c = Prev(expected))
AckCarriesOwnCounter(c) == Len(acked') > Len(acked) => acked'[Len(acked')] = c
TypeOK == expected \in 0..M-1
=============================================================================
