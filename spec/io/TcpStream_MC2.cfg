SPECIFICATION Spec
CONSTANT Frames <- Stream2
CONSTANT HLEN = 3
INVARIANT AllFed
PROPERTY Monotone
CHECK_DEADLOCK FALSE
