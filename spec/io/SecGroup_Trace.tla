--------------------------- MODULE SecGroup_Trace ---------------------------
(* Trace validation for C30.  Events (t: loop time ms; tv: current_timer_value() after the event):
     rx_plain {svc, up, t, tv}   rx_notify {v, macok, sync, t, tv}   rx_wrapped {v, macok, up, t, tv}   synced {t, tv}   tx_wrapped {v, t, peerok}
   (an exception out of the datagram callback is recorded as "raised:<type>", which nothing explains) *)
EXTENDS Integers, Sequences, Json, IOUtils, TLC
Traces == ndJsonDeserialize(IOEnv.TRACE_FILE)
VARIABLES diff, auth, pending, lastOut, tid, l
vars == <<diff, auth, pending, lastOut, tid, l>>
G == INSTANCE SecGroup WITH LATENCY <- 1000, SYNCTOL <- 100
Ev == Traces[tid][l]
TInit == tid \in 1..Len(Traces) /\ l = 1 /\ G!Init
Step ==
  /\ l <= Len(Traces[tid]) /\ l' = l + 1 /\ UNCHANGED tid
  /\ \/ Ev.ev = "rx_plain" /\ G!RxPlain(Ev.svc, Ev.up, Ev.t, Ev.tv)
     \/ Ev.ev = "rx_notify" /\ G!RxNotify(Ev.v, Ev.macok = 1, Ev.sync = 1, Ev.t, Ev.tv)
     \/ Ev.ev = "rx_wrapped" /\ G!RxWrapped(Ev.v, Ev.macok = 1, Ev.up, Ev.t, Ev.tv)
     \/ Ev.ev = "synced" /\ G!Synced(Ev.t, Ev.tv)
     \/ Ev.ev = "tx_wrapped" /\ G!TxWrapped(Ev.v, Ev.t) /\ Ev.peerok = 1          \* ... and the other devices of the backbone can unwrap it
TSpec == TInit /\ [][Step]_vars
Mark == /\ TLCSet(2, [TLCGet(2) EXCEPT ![tid] = IF @ < l THEN l ELSE @])
        /\ (l = Len(Traces[tid]) + 1 => TLCSet(1, TLCGet(1) \cup {tid}))
Post == LET bad == (1..Len(Traces)) \ TLCGet(1) IN PrintT(<<"RESULT", Len(Traces), {<<t, TLCGet(2)[t]>> : t \in bad}>>)
ASSUME TLCSet(1, {}) /\ TLCSet(2, [t \in 1..Len(Traces) |-> 0])
=============================================================================
