----------------------------- MODULE Routing_MC -----------------------------
(* Exhaustive model of the routing sender (tick = 5 ms).  Senders follow _RoutingFlowControl.throttle step by step;
   LOCKED = TRUE serialises the throttle (the design), LOCKED = FALSE is the unserialised variant (deviation config:
   TLC must find two indications closer than PACE).  The properties are evaluated on what the senders do:
   a transmission that Routing!MayTx does not permit sets `bad`. *)
EXTENDS Routing
CONSTANTS LOCKED, NS, MAXT, WAITS, RANDS, MAXBUSY
VARIABLES now, pc, wake, lock, bad, nbusy, late
mcvars == <<vars, now, pc, wake, lock, bad, nbusy, late>>
S == 1..NS
MCInit == Init /\ now = 0 /\ pc = [i \in S |-> "idle"] /\ wake = [i \in S |-> 0] /\ lock = 0 /\ bad = FALSE /\ nbusy = 0
          /\ late = FALSE
Keep == UNCHANGED <<now, bad, nbusy, late>>
SCall(i) == /\ pc[i] = "idle" /\ Call(i, now) /\ pc' = [pc EXCEPT ![i] = "lock"] /\ UNCHANGED <<wake, lock>> /\ Keep
SLock(i) == /\ pc[i] = "lock" /\ (LOCKED => lock = 0)
            /\ lock' = IF LOCKED THEN i ELSE lock
            /\ LET el == IF lastTx = None THEN PACE ELSE now - lastTx IN
               IF el < PACE THEN pc' = [pc EXCEPT ![i] = "sleep"] /\ wake' = [wake EXCEPT ![i] = now + PACE - el]
                            ELSE pc' = [pc EXCEPT ![i] = "ready"] /\ UNCHANGED wake
            /\ UNCHANGED vars /\ Keep
SWake(i) == pc[i] = "sleep" /\ wake[i] <= now /\ pc' = [pc EXCEPT ![i] = "ready"] /\ UNCHANGED <<vars, wake, lock>> /\ Keep
\* the sender transmits as soon as the ready flag is set - whether or not the property permits it
STx(i) == /\ pc[i] = "ready" /\ \E s \in RunSet(fc, now) : s.ready /\ fc' = s /\ bad' = (bad \/ ~MayTx(s, lastTx, now))
          /\ lastTx' = now /\ txd' = txd \cup {i} /\ pend' = [j \in DOMAIN pend \ {i} |-> pend[j]]
          /\ cons' = [j \in DOMAIN cons \cup {i} |-> IF j = i THEN 1 ELSE cons[j]]
          /\ pc' = [pc EXCEPT ![i] = "done"] /\ lock' = IF lock = i THEN 0 ELSE lock
          /\ late' = (late \/ ~OnTime(now)) /\ UNCHANGED <<wake, now, nbusy>>
MBusy == nbusy < MAXBUSY /\ fc.phase # "new" /\ \E w \in WAITS : Busy(now, w) /\ nbusy' = nbusy + 1
         /\ UNCHANGED <<now, pc, wake, lock, bad, late>>
MRand == \E r \in RANDS : Rand(r) /\ UNCHANGED <<now, pc, wake, lock, bad, nbusy, late>>
MTask == Timed(fc) /\ fc.at <= now /\ fc' = StepTask(fc) /\ UNCHANGED <<lastTx, pend, txd, cons, now, pc, wake, lock, bad, nbusy, late>>
Urgent == \/ fc.phase = "new" \/ (Timed(fc) /\ fc.at <= now)
          \/ \E i \in S : pc[i] = "sleep" /\ wake[i] <= now
          \/ \E i \in S : pc[i] = "ready" /\ fc.ready
          \/ \E i \in S : pc[i] = "lock" /\ (LOCKED => lock = 0)
Tick == ~Urgent /\ now < MAXT /\ now' = now + 1 /\ UNCHANGED <<vars, pc, wake, lock, bad, nbusy, late>>
MCNext == (\E i \in S : SCall(i) \/ SLock(i) \/ SWake(i) \/ STx(i)) \/ MBusy \/ MRand \/ MTask \/ Tick
MCSpec == MCInit /\ [][MCNext]_mcvars
NeverBad == ~bad                      \* no indication while pausing, none closer than PACE to the previous one
NeverLate == ~late                    \* a waiting sender transmits once pause and pacing permit
AllSentAtEnd == (now = MAXT /\ ~Urgent /\ fc.ready /\ \A i \in S : pc[i] # "sleep") => \A i \in S : pc[i] \in {"idle", "done"}
=============================================================================
