SPECIFICATION MCSpec
CONSTANTS PACE = 4 COOLDOWN = 2 DECR = 1 SLOWF = 20 TOL = 0 SLACK = 0
  LOCKED = TRUE NS = 3 MAXT = 16 WAITS = {2, 8} RANDS = {0, 5} MAXBUSY = 2
INVARIANT NeverBad
INVARIANT NeverLate
INVARIANT AllSentAtEnd
CHECK_DEADLOCK FALSE
