--------------------------- MODULE Heartbeat_Trace ---------------------------
(* Trace validation for C26.  Events of one run of the real ConnectionHeartbeat under virtual time:
     start {t, rate}   req {t, out, dur}   pending {t} (request sent, never answered)   lost {t}
     end {alive, lost}  (final observation: task alive?, number of on_failure calls)   afterstop {n} (requests sent after stop()) *)
EXTENDS Integers, Sequences, Json, IOUtils, TLC
Traces == ndJsonDeserialize(IOEnv.TRACE_FILE)
Rate == Traces[1][1].rate      \* all traces of a batch come from the same code, hence the same period
VARIABLES alive, fails, lost, due, hist, tid, l, seenlost
H == INSTANCE Heartbeat
vars == <<alive, fails, lost, due, hist, tid, l, seenlost>>
Ev == Traces[tid][l]
TInit == /\ tid \in 1..Len(Traces) /\ l = 2 /\ Traces[tid][1].ev = "start" /\ Traces[tid][1].rate = Rate
         /\ alive = TRUE /\ fails = 0 /\ lost = 0 /\ due = Traces[tid][1].t + Rate /\ hist = <<>> /\ seenlost = 0
Step ==
  /\ l <= Len(Traces[tid]) /\ l' = l + 1 /\ UNCHANGED tid
  /\ \/ /\ Ev.ev = "req" /\ H!Request(Ev.out, Ev.t, Ev.dur) /\ UNCHANGED seenlost
     \/ /\ Ev.ev = "pending" /\ alive /\ Ev.t = due /\ UNCHANGED <<alive, fails, lost, due, hist, seenlost>>
     \/ /\ Ev.ev = "lost" /\ seenlost' = seenlost + 1 /\ lost = seenlost + 1     \* on_failure only after the spec declared the loss
        /\ UNCHANGED <<alive, fails, lost, due, hist>>
     \/ /\ Ev.ev = "end" /\ Ev.lost = lost /\ seenlost = lost /\ (Ev.alive = 1) = alive
        /\ UNCHANGED <<alive, fails, lost, due, hist, seenlost>>
     \/ /\ Ev.ev = "afterstop" /\ Ev.n = 0                 \* stop() ends the heartbeat: no request in the three periods after it
        /\ UNCHANGED <<alive, fails, lost, due, hist, seenlost>>
TSpec == TInit /\ [][Step]_vars
Mark == /\ TLCSet(2, [TLCGet(2) EXCEPT ![tid] = IF @ < l THEN l ELSE @])
        /\ (l = Len(Traces[tid]) + 1 => TLCSet(1, TLCGet(1) \cup {tid}))
Post == LET bad == (1..Len(Traces)) \ TLCGet(1) IN PrintT(<<"RESULT", Len(Traces), {<<t, TLCGet(2)[t]>> : t \in bad}>>)
ASSUME TLCSet(1, {}) /\ TLCSet(2, [t \in 1..Len(Traces) |-> 0])
=============================================================================
