CONSTANTS AutoReconnect = TRUE  FIXED = FALSE
SPECIFICATION Spec
INVARIANT SilentAfterDisconnect
INVARIANT NoStateAfterDisc
INVARIANT RealTransitionsOnly
CHECK_DEADLOCK FALSE
