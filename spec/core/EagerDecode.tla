---------------------------- MODULE EagerDecode ----------------------------
(* C38 - eager decoding of configured group addresses   (xknx/core/group_address_dpt.py: GroupAddressDPT.set_decoded_data;
   xknx/remote_value/remote_value.py: RemoteValue.process).

   Two copies of the receive path see the same telegrams: one with a table  group address -> datapoint type, one without.
     table       the type configured for the address (None: not configured)
     decoded     what the last telegram carried: NoData or [dpt, value]
     stWith      value of the remote value in the instance with the table
     stWithout   ... without
   A remote value of type Own takes the attached value only if it was decoded by its own type, otherwise it decodes the payload itself.
   USE_ALWAYS = TRUE is the deviation "take the attached value whenever there is one". *)
EXTENDS Integers
CONSTANTS Types, Payloads, Own, USE_ALWAYS
None == "none"
Fail == -1
NoData == [dpt |-> None, value |-> Fail]
\* an abstract family of decoders: type "A" decodes every payload, "B" decodes small payloads to other values, "C" nothing
Decode(T, p) == CASE T = "A" -> p [] T = "B" -> (IF p < 2 THEN p + 10 ELSE Fail) [] OTHER -> Fail
VARIABLES table, decoded, stWith, stWithout
vars == <<table, decoded, stWith, stWithout>>
Init == table = None /\ decoded = NoData /\ stWith = Fail /\ stWithout = Fail
SetTable(T) == table' = T /\ UNCHANGED <<decoded, stWith, stWithout>>
Attach(p) == IF table # None /\ Decode(table, p) # Fail THEN [dpt |-> table, value |-> Decode(table, p)] ELSE NoData
Use(d) == d # NoData /\ (USE_ALWAYS \/ d.dpt = Own)
Apply(st, p, d) == IF Use(d) THEN d.value ELSE IF Decode(Own, p) # Fail THEN Decode(Own, p) ELSE st      \* an undecodable payload leaves the state
Receive(p) == /\ decoded' = Attach(p)
              /\ stWith' = Apply(stWith, p, Attach(p))
              /\ stWithout' = Apply(stWithout, p, NoData)
              /\ UNCHANGED table
Next == (\E T \in Types \cup {None} : SetTable(T)) \/ (\E p \in Payloads : Receive(p))
Spec == Init /\ [][Next]_vars
SameState == stWith = stWithout
CarriesTableValue == [][decoded' # decoded => (decoded' = NoData \/ (table # None /\ decoded'.dpt = table /\ decoded'.value # Fail))]_vars
\* ---- the same two statements over one recorded telegram (driver: two real XKNX instances)
\*   has: the address is in the table; expect: the table's type decodes the payload (asked of the type separately);
\*   dec: decoded data attached; decok: its value equals what the type decodes; without: the instance without a table attached something;
\*   same: the states of all devices agree after the telegram; cb: both instances delivered the telegram to the callbacks
TelegramOk(c) == /\ (c.dec = 1) = (c.has = 1 /\ c.expect = 1)
                 /\ (c.dec = 1 => c.decok = 1)
                 /\ c.without = 0
                 /\ c.same = 1 /\ c.cb = 1
=============================================================================
