----------------------------- MODULE Callbacks -----------------------------
(* Telegram callbacks of the telegram queue (xknx/core/telegram_queue.py: Callback.is_within_filter,
   _run_telegram_received_cbs, process_telegram_incoming / _outgoing).  A callback record is
   [all: no addresses given, den: set of destination addresses its filters / address list denote, out: asked for
   outgoing telegrams, raises: the callable raises, fn: the callable (one callable may be registered several times)].  Addresses are small integers; 0 = an individual address. *)
EXTENDS Integers, Sequences
VARIABLES cbs,                 \* registered callbacks in registration order
          called,              \* callbacks invoked for the last processed telegram, in order
          devices              \* the device registry processed the last telegram
vars == <<cbs, called, devices>>
Init == cbs = <<>> /\ called = <<>> /\ devices = FALSE
Register(c) == cbs' = Append(cbs, c) /\ UNCHANGED <<called, devices>>
Unregister(k) == /\ k \in 1..Len(cbs)
                 /\ cbs' = [j \in 1..Len(cbs) - 1 |-> IF j < k THEN cbs[j] ELSE cbs[j + 1]]
                 /\ UNCHANGED <<called, devices>>
\* the lists of a registration's handle are edited in place: that registration denotes more addresses, no other one changes
Edit(k, S) == /\ k \in 1..Len(cbs)
              /\ cbs' = [cbs EXCEPT ![k].den = @ \cup S]
              /\ UNCHANGED <<called, devices>>
Matches(c, dst, outgoing) == /\ (outgoing => c.out)
                             /\ (c.all \/ (dst # 0 /\ dst \in c.den))
Idx(dst, outgoing) == {k \in 1..Len(cbs) : Matches(cbs[k], dst, outgoing)}
\* ascending sequence of the elements of a finite set of naturals
RECURSIVE Asc(_)
Asc(S) == IF S = {} THEN <<>> ELSE LET m == CHOOSE x \in S : \A y \in S : x <= y IN <<m>> \o Asc(S \ {m})
Process(dst, outgoing) == /\ called' = Asc(Idx(dst, outgoing))      \* each matching callback exactly once, raising or not
                          /\ devices' = TRUE                         \* device processing is never prevented
                          /\ UNCHANGED cbs
\* an outgoing telegram the interface refused (CommunicationError / missing confirmation) is dropped: it was not processed - no callback, no device
Dropped == called' = <<>> /\ devices' = FALSE /\ UNCHANGED cbs
=============================================================================
