--------------------------- MODULE TaskReg_Trace ---------------------------
(* Trace validation for C36.  First event: cfg {restart}.  Then one event per driver operation, recorded after the
   loop settled:  {op: start|remove|stop|lost|conn|tick, live: live asyncio instances of the task, new: 1 if the
   Task object holds a new asyncio task since the previous event, running: target invocations in progress}. *)
EXTENDS Integers, Sequences, Json, IOUtils, TLC
Traces == ndJsonDeserialize(IOEnv.TRACE_FILE)
VARIABLES registered, conn, listening, inst, gen, explicit, tid, l, phase, gobs
vars == <<registered, conn, listening, inst, gen, explicit, tid, l, phase, gobs>>
Ev == Traces[tid][l]
Tr == INSTANCE TaskReg WITH Restart <- TRUE
Fl == INSTANCE TaskReg WITH Restart <- FALSE
Act(op, b) ==
  CASE op = "start"  -> IF b THEN Tr!StartTask ELSE Fl!StartTask
    [] op = "remove" -> IF b THEN Tr!RemoveTask ELSE Fl!RemoveTask
    [] op = "stop"   -> IF b THEN Tr!StopRegistry ELSE Fl!StopRegistry
    [] op = "lost"   -> IF conn THEN (IF b THEN Tr!Lost ELSE Fl!Lost) ELSE Tr!SameState
    [] op = "conn"   -> IF ~conn THEN (IF b THEN Tr!Connected ELSE Fl!Connected) ELSE Tr!SameState
    [] op = "tick"   -> Tr!SameState
TInit == tid \in 1..Len(Traces) /\ l = 2 /\ phase = 0 /\ gobs = 0 /\ Tr!Init
\* phase 0 -> 1: the operation itself;  phase 1 -> 0: the instance may end by itself before the observation is taken
Step ==
  /\ l <= Len(Traces[tid]) /\ UNCHANGED tid
  /\ \/ /\ phase = 0 /\ phase' = 1 /\ l' = l
        /\ Act(Ev.op, Traces[tid][1].restart = 1)
        \* noobs = 1: the next call followed at once, nothing was observed (gobs: instances created up to the last observation)
        /\ (Ev.noobs = 0 => ((Ev.new = 1) <=> (gen' # gobs)))
        /\ gobs' = (IF Ev.noobs = 1 THEN gobs ELSE gen')
     \/ /\ phase = 1 /\ phase' = 0 /\ l' = l + 1 /\ UNCHANGED gobs
        /\ IF Ev.noobs = 1 THEN UNCHANGED <<registered, conn, listening, inst, gen, explicit>>
           ELSE /\ (Tr!Finish \/ UNCHANGED <<registered, conn, listening, inst, gen, explicit>>)
                /\ inst' = Ev.live
                /\ Ev.running <= inst'
Inv == Tr!NeverTwice /\ Tr!RemovedMeansCancelled /\ (Traces[tid][1].restart = 1 => Tr!NotRunningWhileDisconnected)
\* the invariants are part of the step: a trace leading to a violating state is rejected (and reported), TLC does not abort
TStep == Step /\ Inv'
TSpec == TInit /\ [][TStep]_vars
Mark == /\ TLCSet(2, [TLCGet(2) EXCEPT ![tid] = IF @ < l THEN l ELSE @])
        /\ (l = Len(Traces[tid]) + 1 => TLCSet(1, TLCGet(1) \cup {tid}))
Post == LET bad == (1..Len(Traces)) \ TLCGet(1) IN PrintT(<<"RESULT", Len(Traces), {<<t, TLCGet(2)[t]>> : t \in bad}>>)
ASSUME TLCSet(1, {}) /\ TLCSet(2, [t \in 1..Len(Traces) |-> 0])
=============================================================================
