------------------------------ MODULE TgQueue ------------------------------
(* Outgoing path of the telegram queue (xknx/core/telegram_queue.py _telegram_consumer / _outgoing_rate_limiter,
   process_telegram_outgoing).  Telegrams are numbered in the order they are queued.  kind: "out" (to the bus),
   "internal" (internal group address), "in" (incoming).  Time in milliseconds; Rate = telegrams per second (0: unlimited). *)
EXTENDS Integers, Sequences, FiniteSets
CONSTANT Rate
VARIABLES pending,             \* "out" telegrams queued and not yet handed to the interface, in queue order
          open,                \* telegrams queued and not yet marked done
          inflight,            \* telegram currently inside interface.send_cemi (0: none)
          lastStart,           \* time the previous send started (-1: none)
          sent,                \* history: telegrams handed to the interface, in order
          processed,           \* telegrams processed by devices / callbacks
          awaiting,            \* telegram handed over and accepted by the interface whose L_Data.con has not arrived (0: none)
          awaitSince,          \* ... since when
          confirmed            \* an L_Data.con arrived while the telegram was inside send_cemi
vars == <<pending, open, inflight, lastStart, sent, processed, awaiting, awaitSince, confirmed>>
CONFIRMATION_TIMEOUT == 3000
Init == pending = <<>> /\ open = {} /\ inflight = 0 /\ lastStart = -1 /\ sent = <<>> /\ processed = {} /\ awaiting = 0 /\ awaitSince = 0 /\ confirmed = FALSE
Put(id, kind) == /\ open' = open \cup {id}
                 /\ pending' = IF kind = "out" THEN Append(pending, id) ELSE pending
                 /\ UNCHANGED <<inflight, lastStart, sent, processed, awaiting, awaitSince, confirmed>>
SpacingOk(t) == Rate > 0 /\ lastStart # -1 => (t - lastStart) * Rate >= 1000
StartSend(id, t) == /\ inflight = 0 /\ pending # <<>> /\ id = Head(pending)      \* queue order, one at a time
                    /\ (awaiting = 0 \/ t >= awaitSince + CONFIRMATION_TIMEOUT)      \* ... the previous one confirmed, or given up after the timeout
                    /\ SpacingOk(t)
                    /\ inflight' = id /\ pending' = Tail(pending) /\ lastStart' = t /\ sent' = Append(sent, id)
                    /\ awaiting' = 0 /\ confirmed' = FALSE
                    /\ UNCHANGED <<open, processed, awaitSince>>
\* the interface call returns: ok = TRUE: the frame was accepted, its confirmation is awaited unless it already came
EndSend(id, ok, t) == /\ inflight = id /\ id # 0 /\ inflight' = 0
                      /\ awaiting' = (IF ok /\ ~confirmed THEN id ELSE 0) /\ awaitSince' = t
                      /\ UNCHANGED <<pending, open, lastStart, sent, processed, confirmed>>
\* an L_Data.con arrives (a stale one - nothing handed over, nothing awaited - changes nothing)
Con == /\ confirmed' = (IF inflight # 0 THEN TRUE ELSE confirmed)
       /\ awaiting' = 0
       /\ UNCHANGED <<pending, open, inflight, lastStart, sent, processed, awaitSince>>
Process(id) == id \in open /\ processed' = processed \cup {id} /\ UNCHANGED <<pending, open, inflight, lastStart, sent, awaiting, awaitSince, confirmed>>
Done(id) == id \in open /\ id # inflight /\ open' = open \ {id} /\ UNCHANGED <<pending, inflight, lastStart, sent, processed, awaiting, awaitSince, confirmed>>
\* ---- C33
SentInQueueOrder == \A a, b \in 1..Len(sent) : a < b => sent[a] < sent[b]
=============================================================================
