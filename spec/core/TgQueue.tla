------------------------------ MODULE TgQueue ------------------------------
(* Outgoing path of the telegram queue (xknx/core/telegram_queue.py _telegram_consumer / _outgoing_rate_limiter,
   process_telegram_outgoing).  Telegrams are numbered in the order they are queued.  kind: "out" (to the bus),
   "internal" (internal group address), "in" (incoming).  Time in milliseconds; Rate = telegrams per second (0: unlimited). *)
EXTENDS Integers, Sequences, FiniteSets
CONSTANT Rate
VARIABLES pending,             \* "out" telegrams queued and not yet handed to the interface, in queue order
          open,                \* telegrams queued and not yet marked done
          inflight,            \* telegram currently inside interface.send_cemi (0: none)
          lastStart,           \* time the previous send started (-1: none)
          sent,                \* history: telegrams handed to the interface, in order
          processed            \* telegrams processed by devices / callbacks
vars == <<pending, open, inflight, lastStart, sent, processed>>
Init == pending = <<>> /\ open = {} /\ inflight = 0 /\ lastStart = -1 /\ sent = <<>> /\ processed = {}
Put(id, kind) == /\ open' = open \cup {id}
                 /\ pending' = IF kind = "out" THEN Append(pending, id) ELSE pending
                 /\ UNCHANGED <<inflight, lastStart, sent, processed>>
SpacingOk(t) == Rate > 0 /\ lastStart # -1 => (t - lastStart) * Rate >= 1000
StartSend(id, t) == /\ inflight = 0 /\ pending # <<>> /\ id = Head(pending)      \* queue order, one at a time
                    /\ SpacingOk(t)
                    /\ inflight' = id /\ pending' = Tail(pending) /\ lastStart' = t /\ sent' = Append(sent, id)
                    /\ UNCHANGED <<open, processed>>
EndSend(id) == inflight = id /\ id # 0 /\ inflight' = 0 /\ UNCHANGED <<pending, open, lastStart, sent, processed>>
Process(id) == id \in open /\ processed' = processed \cup {id} /\ UNCHANGED <<pending, open, inflight, lastStart, sent>>
Done(id) == id \in open /\ id # inflight /\ open' = open \ {id} /\ UNCHANGED <<pending, inflight, lastStart, sent, processed>>
\* ---- C33
SentInQueueOrder == \A a, b \in 1..Len(sent) : a < b => sent[a] < sent[b]
=============================================================================
