------------------------------ MODULE StateUpd ------------------------------
(* When the state updater may / must read a remote value   (xknx/core/state_updater.py StateUpdater, _StateTracker;
   RemoteValue.read_state; ValueReader).  Monitor form: every action carries its time t (milliseconds).
     connected   the connection manager reported CONNECTED last
     reg         registered remote values: rv -> [type |-> "init" | "expire" | "every", iv |-> interval in ms]
     since       rv -> instant from which the value is due for its first read (connection or registration, whichever is later)
     nread       rv -> reads started since `since`
     lastStart, lastEnd, lastUpd   rv -> instant of the last read start / read end / state update (-1: none)
     gone        [conn |-> instant of the last connection loss, rv -> instant of its last unregistration, upd -> instant of the update before the last] (-1: none): a read decided
                 before and issued within TOL of that instant counts as simultaneous
     inprog      reads in progress (GroupValueRead issued, answer or timeout still awaited), as a bag rv -> count *)
EXTENDS Integers, FiniteSets
CONSTANTS RV, MAXPAR, TOL, SLACK
VARIABLES connected, reg, since, nread, lastStart, lastEnd, lastUpd, inprog, gone
vars == <<connected, reg, since, nread, lastStart, lastEnd, lastUpd, inprog, gone>>
None == -1
Init == /\ connected = FALSE /\ reg = [r \in {} |-> 0] /\ since = [r \in RV |-> None] /\ nread = [r \in RV |-> 0]
        /\ lastStart = [r \in RV |-> None] /\ lastEnd = [r \in RV |-> None] /\ lastUpd = [r \in RV |-> None]
        /\ inprog = [r \in RV |-> 0] /\ gone = [conn |-> None, rv |-> [r \in RV |-> None], upd |-> [r \in RV |-> None]]
Registered == DOMAIN reg
Max(a, b) == IF a > b THEN a ELSE b
InProgress == LET S == {r \in RV : inprog[r] > 0} IN
              IF S = {} THEN 0 ELSE LET f[T \in SUBSET S] == IF T = {} THEN 0 ELSE LET x == CHOOSE y \in T : TRUE IN inprog[x] + f[T \ {x}] IN f[S]
ConnUp(t) == /\ connected' = TRUE
             /\ since' = [r \in RV |-> IF connected THEN since[r] ELSE IF r \in Registered THEN t ELSE None]
             /\ nread' = [r \in RV |-> IF connected THEN nread[r] ELSE 0]
             /\ UNCHANGED <<reg, lastStart, lastEnd, lastUpd, inprog, gone>>
ConnDown(t) == connected' = FALSE /\ gone' = [gone EXCEPT !.conn = IF connected THEN t ELSE @]
               /\ UNCHANGED <<reg, since, nread, lastStart, lastEnd, lastUpd, inprog>>
Register(r, ty, iv, t) == /\ reg' = [x \in Registered \cup {r} |-> IF x = r THEN [type |-> ty, iv |-> iv] ELSE reg[x]]
                          /\ since' = [since EXCEPT ![r] = IF connected THEN t ELSE None]
                          /\ nread' = [nread EXCEPT ![r] = 0]
                          /\ UNCHANGED <<connected, lastStart, lastEnd, lastUpd, inprog, gone>>
Unregister(r, t) == /\ reg' = [x \in Registered \ {r} |-> reg[x]] /\ since' = [since EXCEPT ![r] = None]
                    /\ gone' = [gone EXCEPT !.rv[r] = IF r \in Registered THEN t ELSE @]
                    /\ UNCHANGED <<connected, nread, lastStart, lastEnd, lastUpd, inprog>>
\* (gone.upd[r]: the update before this one - an update arriving at the very instant a read falls due does not cancel that read)
Update(r, t) == /\ lastUpd' = [lastUpd EXCEPT ![r] = t] /\ gone' = [gone EXCEPT !.upd[r] = lastUpd[r]]
                /\ UNCHANGED <<connected, reg, since, nread, lastStart, lastEnd, inprog>>
\* ---- C35: when a read may be issued
Policy(r, t) ==
  IF nread[r] = 0 THEN TRUE                                         \* the read of this (re)connection
  ELSE CASE reg[r].type = "init"   -> FALSE                         \* never again
         [] reg[r].type = "every"  -> t >= lastStart[r] + reg[r].iv - TOL
         [] reg[r].type = "expire" -> \/ t >= Max(lastStart[r], lastUpd[r]) + reg[r].iv - TOL   \* a full interval without update
                                      \/ /\ lastUpd[r] # None /\ t <= lastUpd[r] + TOL          \* ... or due, with an update (also the first one) arriving at this very instant
                                         /\ t >= Max(lastStart[r], gone.upd[r]) + reg[r].iv - TOL
Simultaneous(t, g) == g # None /\ t <= g + TOL
ReadStart(r, t) == /\ InProgress < MAXPAR                           \* at most two reads in progress
                   /\ IF connected /\ r \in Registered THEN Policy(r, t)
                      \* no read while disconnected, nor for an unregistered value (unless decided at that very instant)
                      ELSE (connected \/ Simultaneous(t, gone.conn)) /\ (r \in Registered \/ Simultaneous(t, gone.rv[r]))
                   /\ inprog' = [inprog EXCEPT ![r] = @ + 1] /\ nread' = [nread EXCEPT ![r] = @ + 1]
                   /\ lastStart' = [lastStart EXCEPT ![r] = t]
                   /\ UNCHANGED <<connected, reg, since, lastEnd, lastUpd, gone>>
ReadEnd(r, t) == /\ inprog[r] > 0 /\ inprog' = [inprog EXCEPT ![r] = @ - 1] /\ lastEnd' = [lastEnd EXCEPT ![r] = t]
                 /\ UNCHANGED <<connected, reg, since, nread, lastStart, lastUpd, gone>>
\* ---- C35: when a read must have been issued (checked at the time t of every event)
Overdue(r, t) ==
  /\ connected /\ r \in Registered /\ inprog[r] = 0 /\ since[r] # None
  /\ LET fresh == reg[r].type = "expire" /\ lastUpd[r] >= since[r] IN    \* an update already delivered the state
     IF nread[r] = 0 /\ ~fresh THEN t > since[r] + SLACK
     ELSE CASE reg[r].type = "init"   -> FALSE
            [] reg[r].type = "every"  -> nread[r] > 0 /\ t > lastEnd[r] + reg[r].iv + SLACK
            [] reg[r].type = "expire" -> t > Max(Max(lastEnd[r], lastUpd[r]), since[r]) + reg[r].iv + SLACK
NothingOverdue(t) == \A r \in RV : ~Overdue(r, t)
=============================================================================
