---------------------------- MODULE StateUpdModel ----------------------------
(* Operational (untimed) model of the tracker tasks of the state updater, to check the design exhaustively:
   every tracker is a task (idle / waiting for a read slot / reading / sleeping); a read, once issued, is shielded:
   it runs to its end even if its tracker is cancelled (disconnect, reset by a state update, unregistration).
   SLOT_BY_READ = TRUE : the read slot is freed when the read itself ends (the design);
   SLOT_BY_READ = FALSE: the slot is freed as soon as the tracker task is cancelled (deviation: TLC must find more
                         than MAXPAR reads in progress after a quick reconnect). *)
EXTENDS Integers, FiniteSets
CONSTANTS RV, TYPE, MAXPAR, SLOT_BY_READ, MAXREADS
VARIABLES connected, pc, slots, reads, nreads, epochRead
vars == <<connected, pc, slots, reads, nreads, epochRead>>
\* reads: set of [rv, n, held]: read n of rv in progress; held = it still occupies a read slot
Init == connected = FALSE /\ pc = [r \in RV |-> "idle"] /\ slots = 0 /\ reads = {} /\ nreads = 0 /\ epochRead = [r \in RV |-> 0]
Cancel(r, p) == IF p[r] = "reading" THEN "idle" ELSE "idle"
\* slots freed by cancelling the trackers in set C (deviation only: a reading tracker gives its slot back at once)
Freed(C) == IF SLOT_BY_READ THEN 0 ELSE Cardinality({x \in reads : x.rv \in C /\ x.held /\ pc[x.rv] = "reading"})
Unhold(C) == IF SLOT_BY_READ THEN reads ELSE {IF x.rv \in C /\ pc[x.rv] = "reading" THEN [x EXCEPT !.held = FALSE] ELSE x : x \in reads}
WaitFreed(C) == Cardinality({r \in C : pc[r] = "gotslot"})
Connect == /\ ~connected /\ connected' = TRUE /\ pc' = [r \in RV |-> "wait"] /\ epochRead' = [r \in RV |-> 0]
           /\ UNCHANGED <<slots, reads, nreads>>
Disconnect == /\ connected /\ connected' = FALSE
              /\ slots' = slots - Freed(RV) - WaitFreed(RV) /\ reads' = Unhold(RV)
              /\ pc' = [r \in RV |-> "idle"] /\ UNCHANGED <<nreads, epochRead>>
GetSlot(r) == /\ pc[r] = "wait" /\ slots < MAXPAR /\ slots' = slots + 1 /\ pc' = [pc EXCEPT ![r] = "gotslot"]
              /\ UNCHANGED <<connected, reads, nreads, epochRead>>
Issue(r) == /\ pc[r] = "gotslot" /\ nreads < MAXREADS            \* outgoing queue drained: the GroupValueRead is issued
            /\ reads' = reads \cup {[rv |-> r, n |-> nreads, held |-> TRUE]} /\ nreads' = nreads + 1
            /\ pc' = [pc EXCEPT ![r] = "reading"] /\ epochRead' = [epochRead EXCEPT ![r] = @ + 1]
            /\ UNCHANGED <<connected, slots>>
\* a read ends (answer or timeout); its tracker, if it still waits for it, goes on to sleep (or ends for "init")
ReadEnds(x) == /\ x \in reads /\ reads' = reads \ {x}
               /\ slots' = IF x.held THEN slots - 1 ELSE slots
               /\ pc' = IF pc[x.rv] = "reading" /\ x.held THEN [pc EXCEPT ![x.rv] = IF TYPE[x.rv] = "init" THEN "idle" ELSE "sleep"] ELSE pc
               /\ UNCHANGED <<connected, nreads, epochRead>>
Timer(r) == pc[r] = "sleep" /\ pc' = [pc EXCEPT ![r] = "wait"] /\ UNCHANGED <<connected, slots, reads, nreads, epochRead>>
\* a state update resets an "expire" tracker: its task is cancelled and a new sleep starts
Update(r) == /\ connected /\ TYPE[r] = "expire" /\ pc[r] # "idle"
             /\ slots' = slots - Freed({r}) - WaitFreed({r}) /\ reads' = Unhold({r})
             /\ pc' = [pc EXCEPT ![r] = "sleep"] /\ UNCHANGED <<connected, nreads, epochRead>>
Next == Connect \/ Disconnect \/ (\E r \in RV : GetSlot(r) \/ Issue(r) \/ Timer(r) \/ Update(r)) \/ (\E x \in reads : ReadEnds(x))
Spec == Init /\ [][Next]_vars
AtMostTwo == Cardinality(reads) <= MAXPAR
SlotsSane == slots >= 0 /\ slots <= MAXPAR
NoReadWhileDisconnected == [][reads' \ reads # {} => connected]_vars
InitOncePerConnection == \A r \in RV : TYPE[r] = "init" => epochRead[r] <= 1
=============================================================================
