INIT Init
NEXT Next
