---------------------------- MODULE TgQueue_Trace ----------------------------
(* Trace validation for C33.  Item: [rate, ev]; events (t = virtual ms)
   put {id, kind}   send_start {id, t, tu (microseconds)}   send_end {id, ok, t}   con {t}   proc {id}   joined {t} (xknx.join() returned)   stopped (stop returned) *)
EXTENDS Integers, Sequences, FiniteSets, Json, IOUtils, TLC
Traces == ndJsonDeserialize(IOEnv.TRACE_FILE)
VARIABLES pending, open, inflight, lastStart, sent, processed, awaiting, awaitSince, confirmed, internal, lastUs, tid, l
vars == <<pending, open, inflight, lastStart, sent, processed, awaiting, awaitSince, confirmed, internal, lastUs, tid, l>>
Q == INSTANCE TgQueue WITH Rate <- 0
Ev == Traces[tid].ev[l]
Rate == Traces[tid].rate
TInit == tid \in 1..Len(Traces) /\ l = 1 /\ Q!Init /\ internal = {} /\ lastUs = -1
Quiet == pending = <<>> /\ inflight = 0
Step ==
  /\ l <= Len(Traces[tid].ev) /\ l' = l + 1 /\ UNCHANGED tid
  /\ lastUs' = (IF Ev.ev = "send_start" THEN Ev.tu ELSE lastUs)           \* microseconds, for rates whose period is no whole millisecond
  /\ \/ /\ Ev.ev = "put" /\ Q!Put(Ev.id, Ev.kind)
        /\ internal' = IF Ev.kind = "internal" THEN internal \cup {Ev.id} ELSE internal
     \/ /\ Ev.ev = "send_start" /\ Q!StartSend(Ev.id, Ev.t) /\ UNCHANGED internal
        /\ (Rate > 0 /\ lastStart # -1) =>                                            \* at least 1/r seconds apart (to the microsecond)
              (Ev.tu - lastUs >= 1000000 \/ (Ev.tu - lastUs + 1) * Rate >= 1000000)
     \/ Ev.ev = "send_end" /\ Q!EndSend(Ev.id, Ev.ok = 1, Ev.t) /\ UNCHANGED internal
     \/ Ev.ev = "con" /\ Q!Con /\ UNCHANGED internal
     \/ Ev.ev = "proc" /\ Q!Process(Ev.id) /\ UNCHANGED internal
     \/ /\ Ev.ev \in {"joined", "stopped"}                      \* every queued telegram was marked done:
        /\ Quiet /\ internal \subseteq processed                 \* nothing left to send, internal ones were processed
        /\ open' = {} /\ UNCHANGED <<pending, inflight, lastStart, sent, processed, awaiting, awaitSince, confirmed, internal>>
TSpec == TInit /\ [][Step]_vars
Mark == /\ TLCSet(2, [TLCGet(2) EXCEPT ![tid] = IF @ < l THEN l ELSE @])
        /\ (l = Len(Traces[tid].ev) + 1 => TLCSet(1, TLCGet(1) \cup {tid}))
Post == LET bad == (1..Len(Traces)) \ TLCGet(1) IN PrintT(<<"RESULT", Len(Traces), {<<t, TLCGet(2)[t]>> : t \in bad}>>)
ASSUME TLCSet(1, {}) /\ TLCSet(2, [t \in 1..Len(Traces) |-> 0])
=============================================================================
