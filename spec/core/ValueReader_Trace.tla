-------------------------- MODULE ValueReader_Trace --------------------------
(* events: call {t}  seen {id, own, ans}  ret {res, t, cbs, reads}  cancelled {t, cbs}  end {cbs} *)
EXTENDS Integers, Sequences, Json, IOUtils, TLC
Traces == ndJsonDeserialize(IOEnv.TRACE_FILE)
VARIABLES phase, cbs, sent, cand, t0, late, tid, l
V == INSTANCE ValueReader WITH TIMEOUT <- 2000, TOL <- 2
vars == <<phase, cbs, sent, cand, t0, late, tid, l>>
Ev == Traces[tid][l]
TInit == tid \in 1..Len(Traces) /\ l = 1 /\ V!Init
Step == /\ l <= Len(Traces[tid]) /\ l' = l + 1 /\ UNCHANGED tid
        /\ \/ Ev.ev = "call" /\ V!Call(Ev.t)
           \/ Ev.ev = "seen" /\ V!Seen(Ev.id, Ev.own = 1, Ev.ans = 1, Ev.t)
           \/ Ev.ev = "ret" /\ V!Ret(Ev.res, Ev.t) /\ Ev.cbs = 0 /\ Ev.reads = sent
           \/ Ev.ev = "cancelled" /\ V!Cancelled(Ev.t) /\ Ev.cbs = 0
           \/ Ev.ev = "end" /\ phase # "waiting" /\ Ev.cbs = 0 /\ UNCHANGED <<phase, cbs, sent, cand, t0, late>>
TSpec == TInit /\ [][Step]_vars
Mark == /\ TLCSet(2, [TLCGet(2) EXCEPT ![tid] = IF @ < l THEN l ELSE @])
        /\ (l = Len(Traces[tid]) + 1 => TLCSet(1, TLCGet(1) \cup {tid}))
Post == LET bad == (1..Len(Traces)) \ TLCGet(1) IN PrintT(<<"RESULT", Len(Traces), {<<t, TLCGet(2)[t]>> : t \in bad}>>)
ASSUME TLCSet(1, {}) /\ TLCSet(2, [t \in 1..Len(Traces) |-> 0])
=============================================================================
