---------------------------- MODULE Callbacks_MC ----------------------------
EXTENDS Callbacks
CB == [all : BOOLEAN, den : {{}, {1}, {1, 2}}, out : BOOLEAN, raises : BOOLEAN, fn : {1}]
Next == \/ \E c \in CB : Len(cbs) < 2 /\ Register(c)
        \/ \E k \in 1..2 : Unregister(k)
        \/ \E k \in 1..2, S \in {{1}, {2}} : Edit(k, S)
        \/ \E d \in 0..2, o \in BOOLEAN : Process(d, o)
Spec == Init /\ [][Next]_vars
ExactlyOnceEach == \A a, b \in 1..Len(called) : a < b => called[a] < called[b]
\* (called is only meaningful right after a dispatch: stated on the dispatch step)
OnlyRegistered == [][(devices' /\ UNCHANGED cbs) => \A a \in 1..Len(called') : called'[a] \in 1..Len(cbs)]_vars
=============================================================================
