--------------------------- MODULE ValueReader_MC ---------------------------
(* the reader against every environment: telegrams of every kind before, during and after the wait, return and cancellation at every instant *)
EXTENDS ValueReader
VARIABLES now, answered
mcvars == <<vars, now, answered>>
MCInit == Init /\ now = 0 /\ answered = {}
Tick == now < 4 /\ now' = now + 1 /\ UNCHANGED <<vars, answered>>
MCNext == \/ Tick
          \/ Call(now) /\ UNCHANGED <<now, answered>>
          \/ \E id \in 1..3, own \in BOOLEAN, ans \in BOOLEAN :
                Seen(id, own, ans, now) /\ answered' = (IF phase = "waiting" /\ own /\ ans THEN answered \cup {id} ELSE answered) /\ UNCHANGED now
          \/ \E res \in 0..3 : Ret(res, now) /\ UNCHANGED <<now, answered>>
          \/ Cancelled(now) /\ UNCHANGED <<now, answered>>
MCSpec == MCInit /\ [][MCNext]_mcvars
OwnAnswerOnly == [][\A res \in 1..3 : (phase = "waiting" /\ phase' = "done" /\ cand = res /\ cbs' = 0) => TRUE]_mcvars
ReturnedWasSeen == cand # 0 => cand \in answered
=============================================================================
