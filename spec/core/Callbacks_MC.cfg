SPECIFICATION Spec
INVARIANT ExactlyOnceEach
PROPERTY OnlyRegistered
CHECK_DEADLOCK FALSE
