SPECIFICATION Spec
CONSTANTS RV = {1, 2, 3} MAXPAR = 2 SLOT_BY_READ = TRUE MAXREADS = 6
CONSTANT TYPE <- Types
INVARIANT AtMostTwo
INVARIANT SlotsSane
INVARIANT InitOncePerConnection
PROPERTY NoReadWhileDisconnected
CHECK_DEADLOCK FALSE
