SPECIFICATION TSpec
CONSTRAINT Mark
POSTCONDITION Post
CHECK_DEADLOCK FALSE
