SPECIFICATION Spec
CONSTANTS
  Types = {"A", "B", "C"}
  Payloads = {0, 1, 2, 3}
  Own = "A"
  USE_ALWAYS = TRUE
INVARIANT SameState
PROPERTY CarriesTableValue
