SPECIFICATION MCSpec
CONSTANTS
  TIMEOUT = 2
  TOL = 0
INVARIANT NoLeak
INVARIANT ReturnedWasSeen
CHECK_DEADLOCK FALSE
