SPECIFICATION Spec
CONSTANT Restart = FALSE
CONSTRAINT Bound
INVARIANT NeverTwice
INVARIANT RemovedMeansCancelled
INVARIANT NotRunningWhileDisconnected
PROPERTY OncePerReconnection
PROPERTY InstancesOnlyFromStartOrReconnect
CHECK_DEADLOCK FALSE
