--------------------------- MODULE Callbacks_Trace ---------------------------
(* Trace validation for C34.  Item: [ev]; events
   reg {all, den: <<addresses>>, out, raises}   unreg {k}   edit {k, den}   tg {dst, outgoing, fns: <<callables in call order>>, devices} *)
EXTENDS Integers, Sequences, Json, IOUtils, TLC
Traces == ndJsonDeserialize(IOEnv.TRACE_FILE)
VARIABLES cbs, called, devices, tid, l
vars == <<cbs, called, devices, tid, l>>
C == INSTANCE Callbacks
Ev == Traces[tid].ev[l]
B(x) == x = 1
Fns(seq) == [k \in 1..Len(seq) |-> cbs[seq[k]].fn]         \* the callables invoked, in call order (cbs is unchanged by a dispatch)
TInit == tid \in 1..Len(Traces) /\ l = 1 /\ C!Init
Step ==
  /\ l <= Len(Traces[tid].ev) /\ l' = l + 1 /\ UNCHANGED tid
  /\ \/ Ev.ev = "reg" /\ C!Register([all |-> B(Ev.all), den |-> {Ev.den[k] : k \in 1..Len(Ev.den)}, out |-> B(Ev.out), raises |-> B(Ev.raises), fn |-> Ev.fn])
     \/ Ev.ev = "edit" /\ C!Edit(Ev.k, {Ev.den[k] : k \in 1..Len(Ev.den)})
     \/ Ev.ev = "unreg" /\ C!Unregister(Ev.k)
     \/ Ev.ev = "tg" /\ Ev.sendfail = 0 /\ C!Process(Ev.dst, B(Ev.outgoing)) /\ Fns(called') = Ev.fns /\ devices' = B(Ev.devices)
     \/ Ev.ev = "tg" /\ Ev.sendfail = 1 /\ C!Dropped /\ Ev.fns = <<>> /\ devices' = B(Ev.devices)
TSpec == TInit /\ [][Step]_vars
Mark == /\ TLCSet(2, [TLCGet(2) EXCEPT ![tid] = IF @ < l THEN l ELSE @])
        /\ (l = Len(Traces[tid].ev) + 1 => TLCSet(1, TLCGet(1) \cup {tid}))
Post == LET bad == (1..Len(Traces)) \ TLCGet(1) IN PrintT(<<"RESULT", Len(Traces), {<<t, TLCGet(2)[t]>> : t \in bad}>>)
ASSUME TLCSet(1, {}) /\ TLCSet(2, [t \in 1..Len(Traces) |-> 0])
=============================================================================
