----------------------------- MODULE TgQueue_MC -----------------------------
EXTENDS TgQueue
VARIABLES next, now, kinds
N == 4
MCInit == Init /\ next = 1 /\ now = 0 /\ kinds = <<>>
MCNext == \/ \E k \in {"out", "internal", "in"} : next <= N /\ Put(next, k) /\ next' = next + 1 /\ kinds' = Append(kinds, k) /\ UNCHANGED now
          \/ \E id \in 1..N : StartSend(id, now) /\ UNCHANGED <<next, now, kinds>>
          \/ \E id \in 1..N, ok \in BOOLEAN : EndSend(id, ok, now) /\ UNCHANGED <<next, now, kinds>>
          \/ Con /\ UNCHANGED <<next, now, kinds>>
          \/ \E id \in 1..N : Done(id) /\ UNCHANGED <<next, now, kinds>>
          \/ now < 4500 /\ now' = now + 1500 /\ UNCHANGED <<vars, next, kinds>>
MCSpec == MCInit /\ [][MCNext]_<<vars, next, now, kinds>>
InternalNeverSent == \A a \in 1..Len(sent) : kinds[sent[a]] = "out"
=============================================================================
