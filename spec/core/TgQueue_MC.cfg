SPECIFICATION MCSpec
CONSTANT Rate = 1
INVARIANT SentInQueueOrder
INVARIANT InternalNeverSent
CHECK_DEADLOCK FALSE
