--------------------------- MODULE StateUpd_Trace ---------------------------
(* Trace validation for C35.  Events (t in ms):
     conn {up, t}   register {rv, type, iv, t}   unregister {rv, t}   update {rv, t} (state telegram processed by the value)
     read_start {rv, t} (GroupValueRead issued)   read_end {rv, t} (answer or timeout)   end {t} *)
EXTENDS Integers, Sequences, FiniteSets, Json, IOUtils, TLC
Traces == ndJsonDeserialize(IOEnv.TRACE_FILE)
VARIABLES connected, reg, since, nread, lastStart, lastEnd, lastUpd, inprog, gone, tid, l
vars == <<connected, reg, since, nread, lastStart, lastEnd, lastUpd, inprog, gone, tid, l>>
S == INSTANCE StateUpd WITH RV <- 1..8, MAXPAR <- 2, TOL <- 5, SLACK <- 15000
Ev == Traces[tid][l]
TInit == tid \in 1..Len(Traces) /\ l = 1 /\ S!Init
Step ==
  /\ l <= Len(Traces[tid]) /\ l' = l + 1 /\ UNCHANGED tid
  /\ S!NothingOverdue(Ev.t)
  /\ \/ Ev.ev = "conn" /\ IF Ev.up = 1 THEN S!ConnUp(Ev.t) ELSE S!ConnDown(Ev.t)
     \/ Ev.ev = "register" /\ S!Register(Ev.rv, Ev.type, Ev.iv, Ev.t)
     \/ Ev.ev = "unregister" /\ S!Unregister(Ev.rv, Ev.t)
     \/ Ev.ev = "update" /\ S!Update(Ev.rv, Ev.t)
     \/ Ev.ev = "read_start" /\ S!ReadStart(Ev.rv, Ev.t)
     \/ Ev.ev = "read_end" /\ S!ReadEnd(Ev.rv, Ev.t)
     \/ Ev.ev = "end" /\ UNCHANGED <<connected, reg, since, nread, lastStart, lastEnd, lastUpd, inprog, gone>>
TSpec == TInit /\ [][Step]_vars
Mark == /\ TLCSet(2, [TLCGet(2) EXCEPT ![tid] = IF @ < l THEN l ELSE @])
        /\ (l = Len(Traces[tid]) + 1 => TLCSet(1, TLCGet(1) \cup {tid}))
Post == LET bad == (1..Len(Traces)) \ TLCGet(1) IN PrintT(<<"RESULT", Len(Traces), {<<t, TLCGet(2)[t]>> : t \in bad}>>)
ASSUME TLCSet(1, {}) /\ TLCSet(2, [t \in 1..Len(Traces) |-> 0])
=============================================================================
