----------------------------- MODULE ValueReader -----------------------------
(* Supplement S01 - reading a group value   (xknx/core/value_reader.py: ValueReader.read; xknx/tools: read_group_value).
   Not one of the listed properties: part of the specification of the core beyond them.

   read(): registers a telegram callback for its address, queues a GroupValueRead, waits up to TIMEOUT for a GroupValueResponse or
   GroupValueWrite to that address (incoming, or outgoing from this very instance), returns it - or None at the timeout - and always
   unregisters its callback (also when the task is cancelled).
     phase     "idle" | "waiting" | "done"
     cbs       telegram callbacks registered by the reader (0 / 1)
     sent      GroupValueRead telegrams queued by the reader
     cand      the matching telegram seen last while waiting (0: none)
     t0        instant of the call *)
EXTENDS Integers
CONSTANTS TIMEOUT, TOL
VARIABLES phase, cbs, sent, cand, t0, late
vars == <<phase, cbs, sent, cand, t0, late>>
Init == phase = "idle" /\ cbs = 0 /\ sent = 0 /\ cand = 0 /\ t0 = 0 /\ late = FALSE
Call(t) == phase = "idle" /\ phase' = "waiting" /\ cbs' = 1 /\ sent' = sent + 1 /\ cand' = 0 /\ t0' = t /\ late' = FALSE
\* a telegram passes the queue: id > 0, own = to the reader's address, ans = response or write
\* (late: every candidate so far arrived within TOL of the timeout instant - the reader may have given up at that very instant)
Seen(id, own, ans, t) == /\ cand' = (IF phase = "waiting" /\ own /\ ans THEN id ELSE cand)
                         /\ late' = (IF phase = "waiting" /\ own /\ ans THEN (cand = 0 \/ late) /\ t >= t0 + TIMEOUT - TOL ELSE late)
                         /\ UNCHANGED <<phase, cbs, sent, t0>>
\* read() returns telegram `res` (0: None) at t
Ret(res, t) == /\ phase = "waiting"
               /\ (res = cand \/ (res = 0 /\ late))                             \* its own answer (the latest seen before it resumed), or nothing
               /\ (res = 0 => t >= t0 + TIMEOUT - TOL /\ t <= t0 + TIMEOUT + TOL)   \* None exactly at the timeout
               /\ (res # 0 => t <= t0 + TIMEOUT + TOL)
               /\ phase' = "done" /\ cbs' = 0 /\ UNCHANGED <<sent, cand, t0, late>>
Cancelled(t) == phase = "waiting" /\ phase' = "done" /\ cbs' = 0 /\ UNCHANGED <<sent, cand, t0, late>>
NoLeak == phase # "waiting" => cbs = 0
=============================================================================
