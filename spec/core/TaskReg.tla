------------------------------ MODULE TaskReg ------------------------------
(* One task in the xknx task registry (xknx/core/task_registry.py: Task, TaskRegistry) and the connection state
   it follows.  One action per public call / connection callback; `Finish` is the instance ending by itself
   (target done, or wait_for_connection + restart_after_reconnect returning while disconnected). *)
EXTENDS Integers
CONSTANT Restart               \* option restart_after_reconnect of the task
VARIABLES registered,          \* task is in TaskRegistry.tasks
          conn,                \* connection manager reports CONNECTED
          listening,           \* registry is subscribed to connection state changes (start() .. stop())
          inst,                \* number of live asyncio task instances of this task
          gen,                 \* number of instances ever created
          explicit             \* the live instance was created by start_task while disconnected
vars == <<registered, conn, listening, inst, gen, explicit>>

Init == registered = FALSE /\ conn = TRUE /\ listening = TRUE /\ inst = 0 /\ gen = 0 /\ explicit = FALSE

StartTask == /\ listening
             /\ registered' = TRUE /\ inst' = 1 /\ gen' = gen + 1 /\ explicit' = ~conn   \* a running instance is replaced
             /\ UNCHANGED <<conn, listening>>
RemoveTask == /\ listening /\ registered' = FALSE /\ inst' = 0 /\ explicit' = FALSE
              /\ UNCHANGED <<conn, listening, gen>>
StopRegistry == /\ registered' = FALSE /\ inst' = 0 /\ listening' = FALSE /\ explicit' = FALSE
                /\ UNCHANGED <<conn, gen>>
Lost == /\ conn /\ conn' = FALSE
        /\ IF listening /\ registered /\ Restart THEN inst' = 0 /\ explicit' = FALSE ELSE UNCHANGED <<inst, explicit>>
        /\ UNCHANGED <<registered, listening, gen>>
Connected == /\ ~conn /\ conn' = TRUE
             /\ IF listening /\ registered /\ Restart
                  THEN inst' = 1 /\ gen' = gen + 1 /\ explicit' = FALSE      \* started again, once
                  ELSE UNCHANGED <<inst, gen, explicit>>
             /\ UNCHANGED <<registered, listening>>
SameState == UNCHANGED vars           \* the connection manager reports only real changes
Finish == inst = 1 /\ inst' = 0 /\ explicit' = FALSE /\ UNCHANGED <<registered, conn, listening, gen>>

Next == StartTask \/ RemoveTask \/ StopRegistry \/ Lost \/ Connected \/ Finish
Spec == Init /\ [][Next]_vars

\* ---- C36
NeverTwice == inst <= 1
RemovedMeansCancelled == ~registered => inst = 0
NotRunningWhileDisconnected == (Restart /\ registered /\ ~conn /\ ~explicit) => inst = 0
OncePerReconnection == [][(~conn /\ conn' /\ listening /\ registered /\ Restart) => (gen' = gen + 1 /\ inst' = 1)]_vars
InstancesOnlyFromStartOrReconnect == [][gen' # gen => (gen' = gen + 1 /\ (registered' /\ inst' = 1))]_vars
=============================================================================
