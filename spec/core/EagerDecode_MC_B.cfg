SPECIFICATION Spec
CONSTANTS
  Types = {"A", "B", "C"}
  Payloads = {0, 1, 2, 3}
  Own = "B"
  USE_ALWAYS = FALSE
INVARIANT SameState
PROPERTY CarriesTableValue
