------------------------- MODULE EagerDecode_Judge -------------------------
EXTENDS Integers, Sequences, Json, IOUtils, TLC
E == INSTANCE EagerDecode WITH Types <- {}, Payloads <- {}, Own <- "A", USE_ALWAYS <- FALSE, table <- 0, decoded <- 0, stWith <- 0, stWithout <- 0
Cases == ndJsonDeserialize(IOEnv.TRACE_FILE)
Bad == {i \in 1..Len(Cases) : ~E!TelegramOk(Cases[i])}
ASSUME PrintT(<<"RESULT", Len(Cases), Bad>>)
VARIABLE x
Init == x = 0
Next == UNCHANGED x
=============================================================================
