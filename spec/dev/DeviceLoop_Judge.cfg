INIT Init
NEXT Next
