--------------------------- MODULE DevReg_Trace ---------------------------
(* Trace validation for C37.  Item: [uses |-> <<set of ga per device>>, ev |-> <<events>>] with events
   [op |-> "add"|"remove", d, res |-> "ok"|"error", n |-> len(devices)]   [op |-> "process", ga, got |-> <<devices>>, byga |-> <<devices>>] *)
EXTENDS Integers, Sequences, Json, IOUtils, TLC
Traces == ndJsonDeserialize(IOEnv.TRACE_FILE)
VARIABLES uses, reg, out, tid, l
vars == <<uses, reg, out, tid, l>>
NDev == 16
UsesOf(t) == [d \in 1..NDev |-> IF d <= Len(Traces[t].uses) THEN {Traces[t].uses[d][k] : k \in 1..Len(Traces[t].uses[d])} ELSE {}]
D == INSTANCE DevReg WITH Dev <- 1..NDev, GA <- 1..8, DefaultUses <- <<>>
Ev == Traces[tid].ev[l]
TInit == tid \in 1..Len(Traces) /\ l = 1 /\ D!InitWith(UsesOf(tid))
Step ==
  /\ l <= Len(Traces[tid].ev) /\ l' = l + 1 /\ UNCHANGED tid
  /\ \/ Ev.op = "add" /\ D!Add(Ev.d) /\ out'.res = Ev.res /\ Len(reg') = Ev.n
     \/ Ev.op = "remove" /\ D!Remove(Ev.d) /\ out'.res = Ev.res /\ Len(reg') = Ev.n
     \/ Ev.op = "process" /\ D!Process(Ev.ga) /\ out'.devs = Ev.got /\ out'.devs = Ev.byga
TSpec == TInit /\ [][Step]_vars
Mark == /\ TLCSet(2, [TLCGet(2) EXCEPT ![tid] = IF @ < l THEN l ELSE @])
        /\ (l = Len(Traces[tid].ev) + 1 => TLCSet(1, TLCGet(1) \cup {tid}))
Post == LET bad == (1..Len(Traces)) \ TLCGet(1) IN PrintT(<<"RESULT", Len(Traces), {<<t, TLCGet(2)[t]>> : t \in bad}>>)
ASSUME TLCSet(1, {}) /\ TLCSet(2, [t \in 1..Len(Traces) |-> 0])
=============================================================================
