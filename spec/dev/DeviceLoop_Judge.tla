-------------------------- MODULE DeviceLoop_Judge --------------------------
EXTENDS DeviceLoop, Json, IOUtils, TLC
Cases == ndJsonDeserialize(IOEnv.TRACE_FILE)
Bad == {i \in 1..Len(Cases) : ~LoopOk(Cases[i])}
ASSUME WholePercents /\ Wire255 /\ Steps /\ Between
\* anchors of the reference pipeline: 50 % is 127.5 on the wire scale (a tie: 127 or 128), both decode to 50; inverted: 30 % -> 70 % -> 179 (178.5 rounds either way)
ASSUME /\ WireOf(500, 10, 0, 100) = {127, 128} /\ StateOfWire(128, 0, 100) = {50} /\ StateOfWire(127, 0, 100) = {50} /\ WireOf(510, 10, 0, 100) = {130} /\ WireOf(300, 10, 100, 0) = {178, 179}
       /\ StepStates(3, 1) = {3} /\ StepStates(25, 10) = {20, 30} /\ StepStates(-25, 10) = {-20, -30} /\ Nearest(7, 2) = {3, 4}
ASSUME PrintT(<<"RESULT", Len(Cases), Bad>>)
VARIABLE x
Init == x = 0
Next == UNCHANGED x
=============================================================================
