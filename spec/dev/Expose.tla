------------------------------- MODULE Expose -------------------------------
(* Exposed sensor: what has to appear on the bus and when   (xknx/devices/expose_sensor.py ExposeSensor.set,
   _cooldown_send, _restart_cooldown, process_group_read, initialize_value).  Monitor form, time t in milliseconds.
     CD          cooldown (0: none)
     lastSet     value most recently given to set() / initialize_value() (None: never)
     lastSetAt   instant of the last set() that changed lastSet (an "update")
     owed        TRUE while lastSet still has to reach the bus
     lastBus     value of the last value telegram on the bus (write or response), or the initialised value
     lastWrite   instant of the last GroupValueWrite caused by an update (-1: none)
     seen        values given to set() so far
     reads       instants of GroupValueRead requests not yet answered *)
EXTENDS Integers, Sequences, FiniteSets
CONSTANTS CD, TOL, SLACK
VARIABLES lastSet, lastSetAt, owed, lastBus, lastWrite, seen, reads
vars == <<lastSet, lastSetAt, owed, lastBus, lastWrite, seen, reads>>
None == -1
Init == lastSet = None /\ lastSetAt = None /\ owed = FALSE /\ lastBus = None /\ lastWrite = None /\ seen = {} /\ reads = <<>>
(* set(v, skip_unchanged): a skipped call changes nothing - allowed only if v is the value set last *)
Set(v, skip, t) ==
  /\ seen' = seen \cup {v}
  /\ IF skip /\ v = lastSet THEN UNCHANGED <<lastSet, lastSetAt, owed>>
     ELSE lastSet' = v /\ lastSetAt' = t /\ owed' = TRUE
  /\ UNCHANGED <<lastBus, lastWrite, reads>>
(* initialize_value(v): treated as if it had been sent *)
Initialize(v, t) == /\ lastSet' = v /\ lastBus' = v /\ owed' = FALSE /\ seen' = seen \cup {v}
                    /\ UNCHANGED <<lastSetAt, lastWrite, reads>>
\* a read arriving before any value is known cannot be answered and creates no obligation; it may still be answered if a
\* value is set at that very instant (the request is processed after the call)
Read(t) == reads' = Append(reads, [t |-> t, must |-> lastSet # None]) /\ UNCHANGED <<lastSet, lastSetAt, owed, lastBus, lastWrite, seen>>
Live(t) == SelectSeq(reads, LAMBDA r : r.must \/ r.t >= t - TOL)
(* a GroupValueWrite on the bus *)
TxWriteOK(v, t) == /\ v \in seen                                                 \* only values that were set
                   /\ (CD > 0 /\ lastWrite # None) => t - lastWrite >= CD - TOL  \* update telegrams are at least the cooldown apart
TxWriteUpd(v, t) == /\ lastWrite' = t /\ lastBus' = v /\ owed' = (owed /\ v # lastSet)
                    /\ UNCHANGED <<lastSet, lastSetAt, seen, reads>>
TxWrite(v, t) == TxWriteOK(v, t) /\ TxWriteUpd(v, t)
\* with periodic sending configured a write may also be a periodic repetition (not caused by an update): no spacing rule
TxWriteAny(v, t) == v \in seen /\ TxWriteUpd(v, t)
(* a GroupValueResponse on the bus: answers the oldest open read with the most recent value *)
TxResponseOK(v, t) == Live(t) # <<>> /\ v = lastSet
\* (a read that carried no obligation - no value was known when it arrived - was dropped by the device at once: the response then belongs to
\*  the oldest read that has to be answered, if there is one)
FirstMust(rs) == CHOOSE i \in 1..Len(rs) : rs[i].must /\ \A j \in 1..(i - 1) : ~rs[j].must
Answered(rs) == IF rs = <<>> THEN <<>>
                ELSE IF \E i \in 1..Len(rs) : rs[i].must THEN [j \in 1..(Len(rs) - 1) |-> IF j < FirstMust(rs) THEN rs[j] ELSE rs[j + 1]]
                ELSE Tail(rs)
TxResponseUpd(v, t) == /\ reads' = Answered(Live(t)) /\ lastBus' = v /\ owed' = FALSE
                       /\ UNCHANGED <<lastSet, lastSetAt, lastWrite, seen>>
TxResponse(v, t) == TxResponseOK(v, t) /\ TxResponseUpd(v, t)
\* ---- deadlines, evaluated at the time t of every event
OnTime(t) == /\ (owed /\ lastSet # lastBus) => t <= lastSetAt + CD + SLACK     \* the last value set reaches the bus within one cooldown
             /\ \A i \in 1..Len(reads) : reads[i].must => t <= reads[i].t + SLACK      \* reads are answered
Quiet == ~(owed /\ lastSet # lastBus) /\ \A i \in 1..Len(reads) : ~reads[i].must
=============================================================================
