SPECIFICATION Spec
CONSTANTS TimeDown = 5  TimeUp = 3  MaxNow = 8
CONSTRAINT Bound
INVARIANT QueryNeverFails
INVARIANT InRange
INVARIANT EstimateBetween
CHECK_DEADLOCK FALSE
