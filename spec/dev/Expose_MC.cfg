SPECIFICATION MCSpec
CONSTANTS CD = 3 TOL = 0 SLACK = 0 VALS = {1, 2} MAXT = 9 MAXEV = 5
INVARIANT NeverBad
INVARIANT SettledAtEnd
CHECK_DEADLOCK FALSE
