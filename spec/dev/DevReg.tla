------------------------------ MODULE DevReg ------------------------------
(* Device registry (xknx/devices/devices.py Devices): additions, removals and dispatch of group telegrams.
   The specification is the naive scan over the registered devices in registration order; the implementation
   maintains a group address index that must be indistinguishable from it. *)
EXTENDS Integers, Sequences
CONSTANTS Dev, GA, DefaultUses
VARIABLES uses,                \* uses[d] \subseteq GA: group addresses device d listens to (never changes)
          reg,                 \* registered devices in registration order (no duplicates)
          out                  \* result of the last operation: [res: "ok" | "error" | "dispatched", devs: devices that processed the telegram, in order]
vars == <<uses, reg, out>>
Uses == uses
R(x) == [res |-> x, devs |-> <<>>]
InReg(d) == \E k \in 1..Len(reg) : reg[k] = d
Without(s, d) == SelectSeq(s, LAMBDA x : x # d)
InitWith(u) == uses = u /\ reg = <<>> /\ out = R("ok")
Init == InitWith(DefaultUses)
Add(d) == IF InReg(d) THEN out' = R("error") /\ UNCHANGED <<uses, reg>>
                      ELSE reg' = Append(reg, d) /\ out' = R("ok") /\ UNCHANGED uses
Remove(d) == IF InReg(d) THEN reg' = Without(reg, d) /\ out' = R("ok") /\ UNCHANGED uses
                         ELSE out' = R("error") /\ UNCHANGED <<uses, reg>>
Process(ga) == out' = [res |-> "dispatched", devs |-> SelectSeq(reg, LAMBDA d : ga \in Uses[d])] /\ UNCHANGED <<uses, reg>>
Next == \E d \in Dev : Add(d) \/ Remove(d) \/ \E ga \in GA : Process(ga)
Spec == Init /\ [][Next]_vars
NoDuplicates == \A a, b \in 1..Len(reg) : reg[a] = reg[b] => a = b
=============================================================================
