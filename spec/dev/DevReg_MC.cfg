SPECIFICATION Spec
CONSTANTS Dev = {1, 2, 3, 4}  GA = {1, 2, 3}  DefaultUses <- MCUses
INVARIANT NoDuplicates
INVARIANT ExactlyOnce
CHECK_DEADLOCK FALSE
