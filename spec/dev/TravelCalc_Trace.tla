-------------------------- MODULE TravelCalc_Trace --------------------------
(* Trace validation for C40.  Item: [down, up (travel times in ticks), ev].  Events (post-state last/target/conf/dir logged):
   tick {d}  set {p}  update {p}  stop  start {p}  query {res: position | -1 | -2 (raised)}   any op may carry raised = 1 *)
EXTENDS Integers, Sequences, Json, IOUtils, TLC
Traces == ndJsonDeserialize(IOEnv.TRACE_FILE)
VARIABLES now, last, ts, target, conf, dir, seen, tid, l
vars == <<now, last, ts, target, conf, dir, seen, tid, l>>
Abs(x) == IF x < 0 THEN -x ELSE x
Ev == Traces[tid].ev[l]
\* the module is instantiated per direction pair through operators with the travel times as arguments
T == INSTANCE TravelCalc WITH TimeDown <- 0, TimeUp <- 0   \* only for Init / actions not depending on the times
R100(t) == (IF target - last > 0 THEN Traces[t].down ELSE Traces[t].up) * Abs(target - last)
PosOk(p) ==
  IF conf \/ target = -1 \/ last = -1 THEN p = last
  ELSE IF T!Exceeded \/ T!Elapsed * 100 >= R100(tid) THEN p = target
  ELSE /\ T!Between(p, last, target)
       /\ Abs(p * R100(tid) - (last * R100(tid) + (target - last) * T!Elapsed * 100)) <= R100(tid)
       /\ seen # -1 => T!Between(p, seen, target)
Bind == last' = Ev.last /\ target' = Ev.target /\ conf' = (Ev.conf = 1) /\ dir' = Ev.dir
TInit == tid \in 1..Len(Traces) /\ l = 1 /\ T!Init
Step ==
  /\ l <= Len(Traces[tid].ev) /\ l' = l + 1 /\ UNCHANGED tid
  /\ Ev.raised = 0                                          \* C40: no call ever raises
  /\ \/ Ev.op = "tick" /\ T!Tick(Ev.d)
     \/ Ev.op = "set" /\ T!SetPosition(Ev.p) /\ Bind
     \/ Ev.op = "update" /\ T!Update(Ev.p) /\ Bind
     \/ /\ Ev.op = "stop" /\ Bind
        /\ LET c == IF last = -1 THEN -1 ELSE Ev.last IN
           /\ PosOk(c)
           /\ IF c = -1 THEN UNCHANGED <<now, last, ts, target, conf, dir, seen>>
              ELSE last' = c /\ target' = c /\ conf' = FALSE /\ dir' = "stopped" /\ seen' = -1 /\ UNCHANGED <<now, ts>>
     \/ /\ Ev.op = "start" /\ Bind
        /\ IF last = -1 THEN T!SetPosition(Ev.p)
           ELSE LET c == Ev.last IN
                /\ PosOk(c) /\ c # -1
                /\ last' = c /\ ts' = now /\ target' = Ev.p /\ conf' = FALSE /\ seen' = -1
                /\ dir' = (IF Ev.p > c THEN "down" ELSE "up") /\ UNCHANGED now
     \/ /\ Ev.op = "query" /\ PosOk(Ev.res) /\ seen' = (IF conf THEN seen ELSE Ev.res)
        /\ UNCHANGED <<now, last, ts, target, conf, dir>>
TSpec == TInit /\ [][Step]_vars
Mark == /\ TLCSet(2, [TLCGet(2) EXCEPT ![tid] = IF @ < l THEN l ELSE @])
        /\ (l = Len(Traces[tid].ev) + 1 => TLCSet(1, TLCGet(1) \cup {tid}))
Post == LET bad == (1..Len(Traces)) \ TLCGet(1) IN PrintT(<<"RESULT", Len(Traces), {<<t, TLCGet(2)[t]>> : t \in bad}>>)
ASSUME TLCSet(1, {}) /\ TLCSet(2, [t \in 1..Len(Traces) |-> 0])
=============================================================================
