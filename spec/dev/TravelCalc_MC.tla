--------------------------- MODULE TravelCalc_MC ---------------------------
EXTENDS TravelCalc
P == {0, 30, 100}
Next == \/ \E d \in {0, 1, 3} : Tick(d)
        \/ \E p \in P : Update(p) \/ SetPosition(p)
        \/ \E c \in -1..100 : Stop(c)
        \/ \E p \in P, c \in -1..100 : StartTravel(p, c)
        \/ \E p \in -1..100 : Query(p)
Spec == Init /\ [][Next]_vars
CONSTANT MaxNow
Bound == now <= MaxNow
\* an estimate never leaves the segment between the last known position and the target
EstimateBetween == \A p \in -1..100 : (PosOk(p) /\ last # -1 /\ target # -1 /\ ~conf) => Between(p, last, target)
=============================================================================
