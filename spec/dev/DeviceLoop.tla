----------------------------- MODULE DeviceLoop -----------------------------
(* C39 - a device command loops back to the state it requested   (xknx/devices/*.py, xknx/remote_value/*.py).
   setter(value) -> telegram(s) in the queue -> processed as outgoing by the same device -> state property.

   Reference pipelines, exact integer arithmetic (values in units, U units = 1):
     exact     the state is the requested value (booleans, enumerations, colours, raw integers, text, representable numbers)
     scale     RemoteValueScaling / DPT 5.001: the value is mapped from [from, to] (from > to: inverted) onto 0..255, rounded to the nearest
               wire value, mapped back and rounded to a whole number: the state is what the nearest wire value decodes to
     step      setpoint shift as a one-octet count of steps: the state is the nearest multiple of the step
     fixed     fixed-point datapoint with resolution res: the nearest multiple of res
   Ties (a value exactly between two neighbours) may go either way. *)
EXTENDS Integers, Sequences, FiniteSets
Abs(x) == IF x < 0 THEN -x ELSE x
\* the integers nearest to n / d (d > 0): one, or two at a tie
Nearest(n, d) == LET q == n \div d IN {k \in {q - 1, q, q + 1} : 2 * Abs(k * d - n) <= d}
\* ---- scale: v in units (U per 1); from, to whole numbers
WireOf(v, U, from, to) ==      \* nearest wire values r in 0..255 to 255 * (v - from) / (to - from)
  LET span == (to - from) * U   num == (v - from * U) * 255 IN
  IF span > 0 THEN Nearest(num, span) ELSE Nearest(-num, -span)
StateOfWire(r, from, to) == {from + k : k \in (LET n == r * (to - from) IN IF n >= 0 THEN Nearest(n, 255) ELSE {-j : j \in Nearest(-n, 255)})}
ScaleStates(v, U, from, to) == UNION {StateOfWire(r, from, to) : r \in WireOf(v, U, from, to) \cap 0..255}
\* ---- step / fixed: nearest multiple of step (units)
StepStates(v, step) == {k * step : k \in (IF v >= 0 THEN Nearest(v, step) ELSE {-j : j \in Nearest(-v, step)})}
\* ---- the law over one recorded command: c = [pipe, v, U, state (units; "none" as -2^30), ...]
LoopOk(c) ==
  CASE c.pipe = "exact" -> c.eq = 1
    [] c.pipe = "scale" -> c.known = 1 /\ c.state \in {s * c.U : s \in ScaleStates(c.v, c.U, c.from, c.to)}
    [] c.pipe = "step"  -> c.known = 1 /\ c.state \in StepStates(c.v, c.step)
    [] OTHER -> FALSE
\* ---- model-level statements checked by TLC (DeviceLoop_MC): whole percents survive the scaling in both directions;
\*      multiples of the step survive; values between two multiples go to a neighbour
WholePercents == \A v \in 0..100 : ScaleStates(v * 10, 10, 0, 100) = {v} /\ ScaleStates(v * 10, 10, 100, 0) = {v}
Wire255 == \A v \in 0..255 : ScaleStates(v * 10, 10, 0, 255) = {v}
Steps == \A k \in -127..127 : \A step \in {1, 5, 10} : StepStates(k * step, step) = {k * step}
Between == \A v \in -50..50 : \A s \in StepStates(v, 5) : Abs(s - v) * 2 <= 5
=============================================================================
