--------------------------- MODULE ResetCounter_MC ---------------------------
(* Exhaustive exploration of the reference: every sequence of up to MAXN telegrams over the gap classes
   {0, half, just below, exactly, just above, far above} of the configured time; a device that follows the reference
   (reports what MayReport / MayCount permit) is explored, and general facts of C42 are checked on it. *)
EXTENDS ResetCounter
CONSTANTS R0, C0, MAXN
VARIABLES now, n, lastV
mcvars == <<vars, now, n, lastV>>
Gaps(x) == {0, x \div 2, x - 10, x, x + 10, 3 * x}
MCInit == InitWith(R0, C0) /\ now = 0 /\ n = 0 /\ lastV = None
MCNext == \/ \E v \in {0, 1}, g \in Gaps(IF R0 > 0 THEN R0 ELSE C0), cnt \in (IF C0 = 0 THEN {None} ELSE 1..MAXN) :
               /\ n < MAXN /\ n' = n + 1 /\ now' = now + g /\ lastV' = v
               /\ Telegram(v, 0, v, cnt, now')
          \/ \E st \in {0, 1}, cnt \in (IF C0 = 0 THEN {None} ELSE 0..MAXN) : n > 0 /\ Report(st, cnt, now) /\ UNCHANGED <<now, n, lastV>>
MCSpec == MCInit /\ [][MCNext]_mcvars
\* a later 'on' restarts the timer: while an 'on' is younger than R the device reports 'on'
OnWhileYoung == (R > 0 /\ lastOn # None /\ now < lastOn + R - TOL) => (MayReport(1, now) /\ ~MayReport(0, now))
OffWhenExpired == (R > 0 /\ lastOn # None /\ now > lastOn + R + TOL) => (MayReport(0, now) /\ ~MayReport(1, now))
CountBounded == (n > 0 /\ C > 0) => rc >= 1
=============================================================================
