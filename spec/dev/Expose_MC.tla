------------------------------ MODULE Expose_MC ------------------------------
(* Operational model of ExposeSensor (set, cooldown task, read, initialize; telegrams are processed back at once) judged by
   the clauses of Expose: a transmission the clauses do not permit, or a missed deadline, sets `bad`.
   Tick = 1 time unit; CD = 3; values {1, 2}; every interleaving of up to MAXEV user events within MAXT ticks. *)
EXTENDS Expose
CONSTANTS VALS, MAXT, MAXEV
VARIABLES now, pend, lastPayload, task, wakeAt, bad, nev
mcvars == <<vars, now, pend, lastPayload, task, wakeAt, bad, nev>>
MCInit == Init /\ now = 0 /\ pend = None /\ lastPayload = None /\ task = "none" /\ wakeAt = 0 /\ bad = FALSE /\ nev = 0
\* the device transmits v (GroupValueWrite); the outgoing telegram is processed back: last_payload = v
Send(v) == /\ bad' = (bad \/ ~TxWriteOK(v, now)) /\ TxWriteUpd(v, now) /\ lastPayload' = v
MSet(v, skip) ==
  /\ nev < MAXEV /\ nev' = nev + 1
  /\ IF skip /\ pend = v
     THEN UNCHANGED <<pend, lastPayload, task, wakeAt, bad, lastBus, lastWrite, owed>>
          /\ seen' = seen \cup {v} /\ UNCHANGED <<lastSet, lastSetAt, reads>> /\ skip /\ v = lastSet   \* model check: skipping is sound
     ELSE /\ pend' = v
          /\ seen' = seen \cup {v} /\ lastSet' = v /\ lastSetAt' = now /\ UNCHANGED reads
          /\ IF CD > 0 /\ task = "sleep"
             THEN owed' = TRUE /\ UNCHANGED <<lastPayload, task, wakeAt, bad, lastBus, lastWrite>>
             ELSE /\ task' = (IF CD > 0 THEN "sleep" ELSE "none") /\ wakeAt' = now + CD
                  /\ bad' = (bad \/ ~((CD > 0 /\ lastWrite # None) => now - lastWrite >= CD - TOL))
                  /\ lastWrite' = now /\ lastBus' = v /\ owed' = FALSE /\ lastPayload' = v
  /\ UNCHANGED now
MInit(v) == /\ nev < MAXEV /\ nev' = nev + 1 /\ Initialize(v, now) /\ pend' = v /\ lastPayload' = v
            /\ UNCHANGED <<now, task, wakeAt, bad>>
MRead == /\ nev < MAXEV /\ nev' = nev + 1 /\ pend # None
         /\ bad' = (bad \/ pend # lastSet)                       \* answered with the most recent value
         /\ lastBus' = pend /\ owed' = FALSE /\ lastPayload' = pend
         /\ task' = (IF CD > 0 THEN "sleep" ELSE task) /\ wakeAt' = (IF CD > 0 THEN now + CD ELSE wakeAt)
         /\ UNCHANGED <<now, pend, lastSet, lastSetAt, lastWrite, seen, reads>>
Fire == /\ task = "sleep" /\ wakeAt <= now
        /\ IF lastPayload = pend THEN task' = "none" /\ UNCHANGED <<vars, lastPayload, wakeAt, bad>>
           ELSE Send(pend) /\ wakeAt' = now + CD /\ UNCHANGED task
        /\ UNCHANGED <<now, pend, nev>>
Tick == /\ ~(task = "sleep" /\ wakeAt <= now) /\ now < MAXT /\ now' = now + 1
        /\ bad' = (bad \/ ~OnTime(now))
        /\ UNCHANGED <<vars, pend, lastPayload, task, wakeAt, nev>>
MCNext == (\E v \in VALS, sk \in BOOLEAN : MSet(v, sk)) \/ (\E v \in VALS : MInit(v)) \/ MRead \/ Fire \/ Tick
MCSpec == MCInit /\ [][MCNext]_mcvars
NeverBad == ~bad
SettledAtEnd == (now = MAXT /\ task = "none") => Quiet
=============================================================================
