------------------------- MODULE ResetCounter_Trace -------------------------
(* Trace validation for C42.  Item = [r, c (ms), ev]; events (t in ms):
     tg {v, own, st, cnt, t}     telegram processed by the device (own = 1: its own reset telegram), state / counter afterwards
     rep {st, cnt, t}            device_updated callback or sample: reported state and counter *)
EXTENDS Integers, Sequences, Json, IOUtils, TLC
Traces == ndJsonDeserialize(IOEnv.TRACE_FILE)
VARIABLES R, C, lastOn, onAt, base, rs, rc, lt, tid, l
vars == <<R, C, lastOn, onAt, base, rs, rc, lt, tid, l>>
M == INSTANCE ResetCounter WITH TOL <- 2
Ev == Traces[tid].ev[l]
TInit == tid \in 1..Len(Traces) /\ l = 1 /\ M!InitWith(Traces[tid].r, Traces[tid].c)
Step ==
  /\ l <= Len(Traces[tid].ev) /\ l' = l + 1 /\ UNCHANGED tid
  /\ \/ Ev.ev = "tg" /\ M!Telegram(Ev.v, Ev.own, Ev.st, Ev.cnt, Ev.t)
     \/ Ev.ev = "rep" /\ M!Report(Ev.st, Ev.cnt, Ev.t)
TSpec == TInit /\ [][Step]_vars
Mark == /\ TLCSet(2, [TLCGet(2) EXCEPT ![tid] = IF @ < l THEN l ELSE @])
        /\ (l = Len(Traces[tid].ev) + 1 => TLCSet(1, TLCGet(1) \cup {tid}))
Post == LET bad == (1..Len(Traces)) \ TLCGet(1) IN PrintT(<<"RESULT", Len(Traces), {<<t, TLCGet(2)[t]>> : t \in bad}>>)
ASSUME TLCSet(1, {}) /\ TLCSet(2, [t \in 1..Len(Traces) |-> 0])
=============================================================================
