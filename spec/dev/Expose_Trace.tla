---------------------------- MODULE Expose_Trace ----------------------------
(* Trace validation for C41.  Item = [cd (ms), per (1: periodic sending configured), ev]; events (t in ms):
     set {v, skip, t}   init {v, t}   read {t}   tx {kind: "write" | "response", v, t}   end {t} *)
EXTENDS Integers, Sequences, FiniteSets, Json, IOUtils, TLC
Traces == ndJsonDeserialize(IOEnv.TRACE_FILE)
VARIABLES lastSet, lastSetAt, owed, lastBus, lastWrite, seen, reads, tid, l
vars == <<lastSet, lastSetAt, owed, lastBus, lastWrite, seen, reads, tid, l>>
\* the cooldown of a trace is a per-trace parameter: one instance per cooldown used by the driver
E0 == INSTANCE Expose WITH CD <- 0, TOL <- 5, SLACK <- 100
E2 == INSTANCE Expose WITH CD <- 2000, TOL <- 5, SLACK <- 100
E10 == INSTANCE Expose WITH CD <- 10000, TOL <- 5, SLACK <- 100
Ev == Traces[tid].ev[l]
Cd == Traces[tid].cd
TInit == tid \in 1..Len(Traces) /\ l = 1 /\ E0!Init /\ Cd \in {0, 2000, 10000}
Act(OnTime(_), Set(_, _, _), Initialize(_, _), Read(_), TxWrite(_, _), TxWriteAny(_, _), TxResponse(_, _), Quiet) ==
  /\ OnTime(Ev.t)
  /\ \/ Ev.ev = "set" /\ Set(Ev.v, Ev.skip = 1, Ev.t)
     \/ Ev.ev = "init" /\ Initialize(Ev.v, Ev.t)
     \/ Ev.ev = "read" /\ Read(Ev.t)
     \/ Ev.ev = "tx" /\ Ev.kind = "write" /\ IF Traces[tid].per = 1 THEN TxWriteAny(Ev.v, Ev.t) ELSE TxWrite(Ev.v, Ev.t)
     \/ Ev.ev = "tx" /\ Ev.kind = "response" /\ TxResponse(Ev.v, Ev.t)
     \/ Ev.ev = "end" /\ Quiet /\ UNCHANGED <<lastSet, lastSetAt, owed, lastBus, lastWrite, seen, reads>>
Step ==
  /\ l <= Len(Traces[tid].ev) /\ l' = l + 1 /\ UNCHANGED tid
  /\ CASE Cd = 0 -> Act(E0!OnTime, E0!Set, E0!Initialize, E0!Read, E0!TxWrite, E0!TxWriteAny, E0!TxResponse, E0!Quiet)
       [] Cd = 2000 -> Act(E2!OnTime, E2!Set, E2!Initialize, E2!Read, E2!TxWrite, E2!TxWriteAny, E2!TxResponse, E2!Quiet)
       [] Cd = 10000 -> Act(E10!OnTime, E10!Set, E10!Initialize, E10!Read, E10!TxWrite, E10!TxWriteAny, E10!TxResponse, E10!Quiet)
TSpec == TInit /\ [][Step]_vars
Mark == /\ TLCSet(2, [TLCGet(2) EXCEPT ![tid] = IF @ < l THEN l ELSE @])
        /\ (l = Len(Traces[tid].ev) + 1 => TLCSet(1, TLCGet(1) \cup {tid}))
Post == LET bad == (1..Len(Traces)) \ TLCGet(1) IN PrintT(<<"RESULT", Len(Traces), {<<t, TLCGet(2)[t]>> : t \in bad}>>)
ASSUME TLCSet(1, {}) /\ TLCSet(2, [t \in 1..Len(Traces) |-> 0])
=============================================================================
