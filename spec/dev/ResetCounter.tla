---------------------------- MODULE ResetCounter ----------------------------
(* Timed reset of Switch / BinarySensor (reset_after) and the press counter of BinarySensor (context_timeout)
   (xknx/devices/switch.py, xknx/devices/binary_sensor.py).  Reference in monitor form; time t in milliseconds.
     R, C       reset time and context timeout of the device under observation (0: not configured); they never change
     lastOn     instant of the last 'on' telegram since the last 'off' / reset (-1: none): the device reports 'on' exactly
                while lastOn # -1 and t < lastOn + R
     onAt       instant of the last 'on' telegram, whether or not an 'off' followed (a Switch still sends its reset telegram then)
     base       state the device reports when no reset is pending
     rs, rc, lt state, length and last instant of the current run of same-state telegrams *)
EXTENDS Integers
CONSTANT TOL
VARIABLES R, C, lastOn, onAt, base, rs, rc, lt
vars == <<R, C, lastOn, onAt, base, rs, rc, lt>>
None == -1
InitWith(r, c) == R = r /\ C = c /\ lastOn = None /\ onAt = None /\ base = None /\ rs = None /\ rc = 0 /\ lt = None
\* states the device may report at t (both at the instant of the reset)
MayReport(st, t) ==
  IF R > 0 /\ lastOn # None
  THEN (st = 1 /\ t <= lastOn + R + TOL) \/ (st = 0 /\ t >= lastOn + R - TOL)
  ELSE st = base
\* counter values the device may report at t
MayCount(cnt, t) ==
  IF C = 0 THEN cnt = None
  ELSE IF lt = None THEN cnt = 0
  ELSE (t <= lt + C + TOL /\ cnt = rc) \/ (t >= lt + C - TOL /\ cnt \in {0, rc})   \* after the window the counter may be cleared
(* an 'on' / 'off' telegram (v) is processed at t; st, cnt: what the device reports right afterwards.
   own = 1: the telegram is the device's own reset telegram (a Switch resets by sending 'off') *)
Telegram(v, own, st, cnt, t) ==
  /\ st = v
  /\ own = 1 => (v = 0 /\ R > 0 /\ onAt # None /\ t >= onAt + R - TOL /\ t <= onAt + R + TOL)   \* exactly R after the last 'on'
  /\ lastOn' = (IF v = 1 /\ R > 0 THEN t ELSE None) /\ onAt' = (IF v = 1 THEN t ELSE onAt) /\ base' = (IF v = 1 /\ R > 0 THEN 0 ELSE v)
  /\ IF C = 0 \/ own = 1 THEN cnt = None /\ UNCHANGED <<rs, rc, lt>>
     ELSE /\ lt' = t /\ rs' = v
          /\ \/ lt # None /\ v = rs /\ t - lt < C + TOL /\ rc' = rc + 1 /\ cnt = rc'       \* same state within the timeout: counts on
             \/ (lt = None \/ t - lt > C - TOL) /\ rc' = 1 /\ cnt = 1                       \* a gap of the timeout or more restarts
             \/ lt # None /\ v # rs /\ t - lt < C + TOL /\ rc' = cnt /\ cnt >= 1             \* alternation inside the window: left open
  /\ UNCHANGED <<R, C>>
(* the device reports (callback or sample) state st and counter cnt at t *)
Report(st, cnt, t) ==
  /\ MayReport(st, t) /\ MayCount(cnt, t)
  /\ IF R > 0 /\ lastOn # None /\ st = 0 THEN lastOn' = None /\ base' = 0 ELSE UNCHANGED <<lastOn, base>>
  /\ UNCHANGED <<R, C, onAt, rs, rc, lt>>
=============================================================================
