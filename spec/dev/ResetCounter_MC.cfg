SPECIFICATION MCSpec
CONSTANTS TOL = 2 R0 = 5000 C0 = 0 MAXN = 4
INVARIANT OnWhileYoung
INVARIANT OffWhenExpired
INVARIANT CountBounded
CHECK_DEADLOCK FALSE
