SPECIFICATION MCSpec
CONSTANTS TOL = 2 R0 = 0 C0 = 1000 MAXN = 4
INVARIANT OnWhileYoung
INVARIANT OffWhenExpired
INVARIANT CountBounded
CHECK_DEADLOCK FALSE
