---------------------------- MODULE TravelCalc ----------------------------
(* Cover position estimation (xknx/devices/travelcalculator.py TravelCalculator) over integer clock ticks.
   Positions 0..100, -1 = unknown / none.  The estimate of an unconfirmed position is specified up to rounding:
   any integer within one position unit of the exact rational value, between the last known position and the target. *)
EXTENDS Integers
CONSTANTS TimeDown, TimeUp     \* full travel times in ticks
VARIABLES now,                 \* clock reading
          last, ts,            \* last known position and its timestamp
          target,              \* position travelled to
          conf,                \* the last known position is the confirmed final one
          dir,                 \* "up" | "down" | "stopped"
          seen                 \* last estimate observed since last/target/ts changed (-1: none) - for monotonicity
vars == <<now, last, ts, target, conf, dir, seen>>
Abs(x) == IF x < 0 THEN -x ELSE x
Between(p, a, b) == (a <= p /\ p <= b) \/ (b <= p /\ p <= a)
Init == now = 0 /\ last = -1 /\ ts = 0 /\ target = -1 /\ conf = FALSE /\ dir = "stopped" /\ seen = -1

Rel == target - last
R100 == (IF Rel > 0 THEN TimeDown ELSE TimeUp) * Abs(Rel)        \* remaining travel time * 100
Elapsed == now - ts
Exceeded == (Rel <= 0 /\ dir = "down") \/ (Rel >= 0 /\ dir = "up")
\* p is an admissible answer of current_position() in this state
PosOk(p) ==
  IF conf \/ target = -1 \/ last = -1 THEN p = last
  ELSE IF Exceeded \/ Elapsed * 100 >= R100 THEN p = target            \* reached exactly when the travel time has elapsed
  ELSE /\ Between(p, last, target)
       /\ Abs(p * R100 - (last * R100 + Rel * Elapsed * 100)) <= R100   \* within one unit of the exact value
       /\ seen # -1 => Between(p, seen, target)                         \* monotone toward the target

Tick(d) == d >= 0 /\ now' = now + d /\ UNCHANGED <<last, ts, target, conf, dir, seen>>
Update(p) == /\ last' = p /\ ts' = now /\ conf' = (conf \/ p = target) /\ seen' = -1
             /\ UNCHANGED <<now, target, dir>>
SetPosition(p) == /\ target' = p /\ last' = p /\ ts' = now /\ conf' = TRUE /\ seen' = -1 /\ UNCHANGED <<now, dir>>
\* stop(): freeze at the current estimate c (any admissible one)
Stop(c) == /\ PosOk(c)
           /\ IF c = -1 THEN UNCHANGED vars
              ELSE last' = c /\ target' = c /\ conf' = FALSE /\ dir' = "stopped" /\ seen' = -1 /\ UNCHANGED <<now, ts>>
StartTravel(p, c) ==
  IF last = -1 THEN SetPosition(p)
  ELSE /\ PosOk(c) /\ c # -1
       /\ last' = c /\ ts' = now /\ target' = p /\ conf' = FALSE /\ seen' = -1
       /\ dir' = (IF p > c THEN "down" ELSE "up") /\ UNCHANGED now
Query(p) == PosOk(p) /\ seen' = (IF conf THEN seen ELSE p) /\ UNCHANGED <<now, last, ts, target, conf, dir>>

\* ---- C40
QueryNeverFails == \E p \in -1..100 : PosOk(p)
InRange == last \in -1..100 /\ target \in -1..100
=============================================================================
