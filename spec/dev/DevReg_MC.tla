----------------------------- MODULE DevReg_MC -----------------------------
EXTENDS DevReg
MCUses == [d \in Dev |-> CASE d = 1 -> {1} [] d = 2 -> {1, 2} [] d = 3 -> {2, 3} [] OTHER -> {}]
\* each processing device appears exactly once, all users registered, in registration order (stated without SelectSeq)
Pos(d) == CHOOSE k \in 1..Len(reg) : reg[k] = d
ExactlyOnce == LET o == out.devs IN out.res = "dispatched" =>
                  /\ \A a, b \in 1..Len(o) : a < b => (o[a] # o[b] /\ Pos(o[a]) < Pos(o[b]))
                  /\ \A a \in 1..Len(o) : InReg(o[a])
=============================================================================
